#!/usr/bin/env python3
"""Run the C memory-safety verifier (vf/qvc_c) on the annealing kernels of $VERIF_REPO (default /repo).

    tools/qvc_c_run.py            per function: obligations discharged/total, everything refuted/open with the z3
                                  counter-model, functions that left reach, solver time, assumptions
    tools/qvc_c_run.py --json     the run_all() record as JSON
    tools/qvc_c_run.py --selftest deliberate breakage on a scratch copy of /repo (see vf/qvc_c/selftest.py)
    -v                            also list every discharged obligation

environment
    VERIF_REPO              tree to verify (default /repo); only qubovert/sim/src/*.c,*.h are read
    QVC_C_STRICT_HEADERS=1  a loop header that differs from the recorded one makes the function leave reach at once
                            (default: the recorded invariants are tried as candidates and used only if they
                            re-verify as inductive; otherwise the function leaves reach)
    QVC_C_TIMEOUT_MS        z3 timeout per query (default 8000)
    QVC_C_CONTRACTS         alternative sidecar file (default /verif/contracts_c/kernels.py)

exit 0  every obligation discharged and no function left reach
exit 1  some obligation refuted or open
exit 2  nothing failed, but some function left reach (no verdict for it)
exit 3  checker error (crash, vacuous context, zero obligations)
"""
import json
import os
import sys

sys.path.insert(0, os.path.dirname(os.path.dirname(os.path.abspath(__file__))))
from vf import qvc_c  # noqa: E402


def exit_code(r):
    if r["errors"]:
        return 3
    if any(o["status"] != "discharged" for o in r["obligations"]):
        return 1
    if r["left_reach"]:
        return 2
    return 0


def report(r, verbose=False, out=sys.stdout):
    w = out.write
    w("qvc_c  property %s  repo %s\n" % (r["property"], r["repo"]))
    tot = len(r["obligations"])
    dis = sum(1 for o in r["obligations"] if o["status"] == "discharged")
    for fkey, f in r["functions"].items():
        if f["status"] == "left_reach":
            w("  %-42s LEFT REACH  %s\n" % (fkey, f["reason"]))
            continue
        if f["status"] == "error":
            w("  %-42s ERROR\n" % fkey)
            continue
        cn = f.get("canaries") or {}
        w("  %-42s %-14s %3d/%-3d discharged  paths %-3s solver %6.2fs  contexts sat/unknown/vacuous %s/%s/%s%s\n" % (
            fkey, f["status"], f.get("discharged", 0), f.get("obligations", 0), f.get("paths"), f.get("solver_time_s", 0.0),
            cn.get("sat", "-"), cn.get("unknown_only", "-"), len(cn.get("vacuous", [])),
            "  [header changed; invariants re-verified]" if f.get("note") else ""))
    w("total: %d/%d obligations discharged, solver time %.1fs, wall %.1fs\n" % (dis, tot, r["solver_time_s"], r["wall_s"]))
    bad = [o for o in r["obligations"] if o["status"] != "discharged"]
    if bad:
        w("\nNOT DISCHARGED:\n")
    for o in bad:
        w("  %s  %s  (%s, %.2fs)\n      %s\n" % (o["status"].upper(), o["name"], o.get("backend"), o["time_s"], o.get("detail")))
        if o.get("model"):
            w("      counter-model: %s\n" % ", ".join("%s=%s" % kv for kv in list(o["model"].items())[:24]))
        if o.get("note"):
            w("      %s\n" % o["note"])
    if r["left_reach"]:
        w("\nLEFT REACH (no verdict):\n")
        for l in r["left_reach"]:
            w("  %s: %s\n" % (l["function"], l["reason"]))
            for o in r.get("probes", {}).get(l["function"], [])[:8]:
                w("      probe (not a verdict): %s %s -- %s\n" % (o["status"], o["name"], (o.get("detail") or "")[:200]))
    if r["errors"]:
        w("\nERRORS:\n")
        for e in r["errors"]:
            w("  %s\n" % e)
    if verbose:
        w("\nALL OBLIGATIONS:\n")
        for o in r["obligations"]:
            w("  %-10s %-58s line %-4s %s\n" % (o["status"], o["name"], o.get("line"), o.get("what")))
    w("\nASSUMPTIONS (not proved):\n")
    for a in r["assumptions"]:
        w("  - %s\n" % a)
    w("TRUSTED BASE:\n")
    for a in r["trusted_base"]:
        w("  - %s\n" % a)


def main(argv):
    if "--selftest" in argv:
        from vf.qvc_c import selftest
        return selftest.main(verbose="-v" in argv)
    r = qvc_c.run_all()
    if "--json" in argv:
        json.dump(r, sys.stdout, indent=1, default=str)
        sys.stdout.write("\n")
    else:
        report(r, verbose="-v" in argv)
    return exit_code(r)


if __name__ == "__main__":
    sys.exit(main(sys.argv[1:]))
