#!/usr/bin/env python3
"""Regenerate /verif/MANIFEST.json from vf/registry.py (maintenance tool; not run by checks)."""
import json, os, sys
sys.path.insert(0, os.path.dirname(os.path.dirname(os.path.abspath(__file__))))
from vf.registry import REGISTRY, MANIFEST_META

checks, na = [], []
for pid in sorted(REGISTRY):
    m = REGISTRY[pid]
    if m.get("not_applicable"):
        na.append({"property_id": pid, "reason": m["not_applicable"]})
        continue
    checks.append({
        "property_id": pid,
        "quick_cmd": "./check %s --tier quick" % pid,
        "thorough_cmd": "./check %s --tier thorough" % pid,
        "evidence_file": "/verif/evidence/%s.json" % pid,
        "replay_cmd_template": "./check %s --replay {path}" % pid,
        "engine": m.get("engine", "qvc+bounded"),
        "level_claimed": {"category": m["claimed"], "text": m["level_text"], "design_ref": m["design_ref"]},
        "level_note": m["level_note"],
        "technique": m["technique"],
    })
man = dict(MANIFEST_META)
# which engine serves which property: the deductive engines where contracts carry the property, the bounded engine always
sys.path.insert(0, os.path.dirname(os.path.dirname(os.path.abspath(__file__))))
try:
    from vf.qvc import contracts as C
    reg = C.load_contracts()
    ded = sorted({p for c in reg.values() if not c.trusted for p in c.props})
except Exception:
    ded = []
for e in man["engines"]:
    if e["name"] == "qvc":
        e["serves_properties"] = ded
    elif e["name"] == "qvc_c":
        e["serves_properties"] = ["C17"]
    elif e["name"] == "bounded":
        e["serves_properties"] = [c["property_id"] for c in checks]
man["checks"] = checks
man["not_applicable"] = na
json.dump(man, open(os.path.join(os.path.dirname(os.path.dirname(os.path.abspath(__file__))), "MANIFEST.json"), "w"), indent=1)
print("checks:", [c["property_id"] for c in checks]); print("n/a:", [n["property_id"] for n in na])
