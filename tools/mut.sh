#!/bin/bash
# usage: mut.sh <relfile> <python-regex-old> <new> <cmd...>   — run cmd with VERIF_REPO pointing at a mutated scratch copy
set -e
rel="$1"; old="$2"; new="$3"; shift 3
d=$(mktemp -d /tmp/mutXXXX)
cp -r /repo/. "$d"/
python3 - "$d/$rel" "$old" "$new" <<'PY'
import sys,re
p,old,new=sys.argv[1:4]
s=open(p).read()
s2,n=re.subn(old,new,s,count=1)
if n!=1: print("MUTATION DID NOT APPLY"); sys.exit(9)
open(p,'w').write(s2)
PY
VERIF_REPO="$d" "$@" || echo "exit=$?"
rm -rf "$d"
