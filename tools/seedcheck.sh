#!/bin/bash
# usage: seedcheck.sh <ID> <a|b> [extra props...]   — confirm a seeded change and run the checks against it
id=$1; x=$2; shift 2
out=/tmp/seed/$id.out
dst=/verif/seeded/${id}${x}
mkdir -p $dst
cp $out/$x.patch.diff $dst/patch.diff; cp $out/$x.demo.py $dst/demo.py; cp $out/$x.meta.json $dst/meta.agent.json 2>/dev/null
cd /repo || exit 9
git diff --quiet || { echo "/repo not clean"; exit 9; }
# demo on clean tree (run from /repo so that the demo's sys.path.insert(0, cwd) picks /repo)
( cd /repo && timeout 600 /venv/bin/python $dst/demo.py >/tmp/seed_demo_clean.txt 2>&1 ); c0=$?
git apply $dst/patch.diff || { echo "patch does not apply"; exit 9; }
SO=qubovert/sim/_canneal.cpython-312-x86_64-linux-gnu.so
if git diff --name-only | grep -q '\.c$'; then
  echo "(C change: the demo needs a rebuilt extension; the checks rebuild it themselves)"
  cp $SO /tmp/seed_so_backup; /venv/bin/python setup.py build_ext --inplace -q >/dev/null 2>&1
fi
( cd /repo && timeout 600 /venv/bin/python $dst/demo.py >/tmp/seed_demo_mut.txt 2>&1 ); c1=$?
if [ -f /tmp/seed_so_backup ]; then cp /tmp/seed_so_backup $SO; rm -f /tmp/seed_so_backup; rm -rf build; fi
echo "demo clean exit=$c0 mutated exit=$c1"
res=""
for p in $id "$@"; do
  ( cd /verif && timeout 1500 ./check $p --no-evidence > /tmp/seed_check_$p.txt 2>&1 ); e=$?
  nv=$(grep -c '^VIOLATION' /tmp/seed_check_$p.txt)
  echo "check $p exit=$e violations=$nv"; grep -E "^VIOLATION|bounded clause|failed obligation" /tmp/seed_check_$p.txt | cut -c1-220 | head -6
  res="$res $p:$e:$nv"
done
git checkout -- . 
echo "$id$x demo_clean=$c0 demo_mut=$c1 checks=$res" >> /verif/seeded/RESULTS.txt
