#!/bin/bash
# usage: seedcheck.sh <ID> <a|b|c|d> [extra props...]   — confirm a seeded change and run the checks against it
# (a, b: round 1, /tmp/seed/<ID>.out; c, d: round 2, /tmp/seed/<ID>.out2; e, f: round 3, /tmp/seed/<ID>.out3)
id=$1; x=$2; shift 2
out=/tmp/seed/$id.out
case $x in c|d) out=/tmp/seed/$id.out2;; e|f) out=/tmp/seed/$id.out3;; g|h) out=/tmp/seed/$id.out4;; i|j|k) out=/tmp/seed/$id.out5;; esac
dst=/verif/seeded/${id}${x}
mkdir -p $dst
cp $out/$x.patch.diff $dst/patch.diff; cp $out/$x.demo.py $dst/demo.py; cp $out/$x.meta.json $dst/meta.agent.json 2>/dev/null
cd /repo || exit 9
git diff --quiet || { echo "/repo not clean"; exit 9; }
# own confirmation of the test suite with the patch, in the scratch worktree /tmp/clean (never in /repo)
ts="not run"
if [ -d /tmp/clean ] && git -C /tmp/clean diff --quiet; then
  git -C /tmp/clean apply $dst/patch.diff && {
    if git -C /tmp/clean diff --name-only | grep -q '\.c$'; then ( cd /tmp/clean && /venv/bin/python setup.py build_ext --inplace -q >/dev/null 2>&1 ); cbuilt=1; fi
    ts=$( cd /tmp/clean && timeout 1800 /venv/bin/python -m pytest -q -p no:cacheprovider --timeout=900 -n 6 2>&1 | tail -1 )
    git -C /tmp/clean checkout -- .
    if [ -n "$cbuilt" ]; then ( cd /tmp/clean && /venv/bin/python setup.py build_ext --inplace -q >/dev/null 2>&1; rm -rf build ); fi
  }
fi
echo "test suite with patch (own run): $ts"
# demo on clean tree (run from /repo so that the demo's sys.path.insert(0, cwd) picks /repo)
( cd /repo && timeout 600 /venv/bin/python $dst/demo.py >/tmp/seed_demo_clean.txt 2>&1 ); c0=$?
git apply $dst/patch.diff || { echo "patch does not apply"; exit 9; }
SO=qubovert/sim/_canneal.cpython-312-x86_64-linux-gnu.so
if git diff --name-only | grep -q '\.c$'; then
  echo "(C change: the demo needs a rebuilt extension; the checks rebuild it themselves)"
  cp $SO /tmp/seed_so_backup; /venv/bin/python setup.py build_ext --inplace -q >/dev/null 2>&1
fi
( cd /repo && timeout 600 /venv/bin/python $dst/demo.py >/tmp/seed_demo_mut.txt 2>&1 ); c1=$?
if [ -f /tmp/seed_so_backup ]; then cp /tmp/seed_so_backup $SO; rm -f /tmp/seed_so_backup; rm -rf build; fi
echo "demo clean exit=$c0 mutated exit=$c1"
res=""
for p in $id "$@"; do
  ( cd /verif && timeout 1500 ./check $p --no-evidence > /tmp/seed_check_$p.txt 2>&1 ); e=$?
  nv=$(grep -c '^VIOLATION' /tmp/seed_check_$p.txt)
  echo "check $p exit=$e violations=$nv"; grep -E "^VIOLATION|bounded clause|failed obligation" /tmp/seed_check_$p.txt | cut -c1-220 | head -6
  grep -E "^VIOLATION|bounded clause|failed obligation|quick:" /tmp/seed_check_$p.txt | cut -c1-300 > $dst/check_$p.txt
  res="$res $p:$e:$nv"
done
git checkout -- . 
echo "$id$x demo_clean=$c0 demo_mut=$c1 checks=$res" >> /verif/seeded/RESULTS.txt
python3 - "$dst" "$id" "$c0" "$c1" "$res" "$ts" <<'PY'
import json, sys, os, glob
dst, pid, c0, c1, res, ts = sys.argv[1:7]
agent = {}
try:
    agent = json.load(open(os.path.join(dst, "meta.agent.json")))
except Exception:
    pass
caught = {}
for f in glob.glob(os.path.join(dst, "check_*.txt")):
    lines = [l.strip() for l in open(f) if l.strip()]
    caught[os.path.basename(f)[6:-4]] = {"violations": sum(1 for l in lines if l.startswith("VIOLATION")),
                                         "by": sorted(set(l.split(":")[0].replace("bounded clause ", "") for l in lines if l.startswith("bounded clause")) |
                                                      set("obligation " + l.split("failed obligation ")[1].split(" ")[0] for l in lines if "failed obligation" in l))[:12]}
meta = {"property": pid, "what": agent.get("what"), "needs": agent.get("needs"),
        "source": "independent sub-agent given only the property text and a scratch worktree",
        "confirmed": {"demo_exit_on_clean_tree": int(c0), "demo_exit_with_patch": int(c1),
                      "test_suite_with_patch_own_run": ts,
                      "test_suite_with_patch_agent_run": "; ".join(map(str, agent.get("ran", [])))[:600]},
        "ran": ["git -C /repo apply patch.diff", "/venv/bin/python demo.py (cwd /repo)", "./check %s" % pid, "git -C /repo checkout -- ."],
        "checks": caught}
json.dump(meta, open(os.path.join(dst, "meta.json"), "w"), indent=1)
PY
