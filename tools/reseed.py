#!/usr/bin/env python3
"""Re-run the checks against the seeded changes (seeded/<id>/patch.diff) on scratch copies of /repo (VERIF_REPO),
in parallel, without touching /repo.  usage: reseed.py [prefix ...] [-j N]
Writes seeded/<id>/recheck.json: exit code, VIOLATION count, the failed obligations and bounded clauses."""
import concurrent.futures as cf
import json
import os
import re
import shutil
import subprocess
import sys
import tempfile

VERIF = os.path.dirname(os.path.dirname(os.path.abspath(__file__)))
SEEDED = os.path.join(VERIF, "seeded")


def one(sid):
    d = os.path.join(SEEDED, sid)
    patch = os.path.join(d, "patch.diff")
    if not os.path.exists(patch):
        return sid, None
    meta = {}
    try:
        meta = json.load(open(os.path.join(d, "meta.json")))
    except Exception:
        pass
    prop = meta.get("property") or sid[:3]
    scratch = tempfile.mkdtemp(prefix="rs_%s_" % sid, dir="/tmp")
    try:
        subprocess.run(["cp", "-r", "/repo/.", scratch], check=True)
        r = subprocess.run(["git", "apply", patch], cwd=scratch, capture_output=True, text=True)
        if r.returncode != 0:
            r = subprocess.run(["patch", "-p1", "-i", patch], cwd=scratch, capture_output=True, text=True)
            if r.returncode != 0:
                return sid, {"error": "patch does not apply: " + (r.stdout + r.stderr)[-300:]}
        env = dict(os.environ, VERIF_REPO=scratch)
        r = subprocess.run([os.path.join(VERIF, "check"), prop, "--no-evidence"], cwd=VERIF, env=env,
                           capture_output=True, text=True, timeout=3000)
        out = r.stdout + r.stderr
        obl = sorted(set(re.findall(r"failed obligation (\S+)", out)))
        cl = sorted(set(re.findall(r"bounded clause (\S+?):", out)))
        res = {"property": prop, "exit": r.returncode, "violations": len(re.findall(r"^VIOLATION", out, re.M)),
               "failed_obligations": [o.split("/", 1)[1][:140] for o in obl][:12], "n_failed_obligations": len(obl),
               "bounded_clauses": cl[:12], "summary": [l for l in out.split("\n") if " quick: " in l][-1:]}
        json.dump(res, open(os.path.join(d, "recheck.json"), "w"), indent=1)
        if meta and "--update-meta" in sys.argv:
            meta.setdefault("checks", {})[prop] = {
                "violations": res["violations"],
                "by": res["bounded_clauses"] + ["obligation " + prop + "/" + o for o in res["failed_obligations"]][:12]}
            meta["rechecked"] = "tools/reseed.py on a scratch copy of /repo (VERIF_REPO), current machinery"
            json.dump(meta, open(os.path.join(d, "meta.json"), "w"), indent=1)
        return sid, res
    finally:
        shutil.rmtree(scratch, ignore_errors=True)


def main():
    args = [a for a in sys.argv[1:] if not a.startswith("-")]
    j = [int(a[2:]) for a in sys.argv[1:] if a.startswith("-j")]
    ids = sorted(x for x in os.listdir(SEEDED) if os.path.isdir(os.path.join(SEEDED, x)))
    if args:
        ids = [x for x in ids if any(x.startswith(a) for a in args)]
    with cf.ThreadPoolExecutor(max_workers=(j[0] if j else 2)) as ex:
        for sid, res in ex.map(one, ids):
            if res is None:
                continue
            print(sid, "exit=%s viol=%s obligations=%s clauses=%s %s" % (
                res.get("exit"), res.get("violations"), res.get("n_failed_obligations"), len(res.get("bounded_clauses", [])),
                res.get("error", "")), flush=True)


if __name__ == "__main__":
    main()
