#!/usr/bin/env python3
"""Regenerate seeded/README.md from the meta.json files written by tools/seedcheck.sh."""
import glob
import json
import os

ROOT = os.path.join(os.path.dirname(os.path.dirname(os.path.abspath(__file__))), "seeded")


def cell(s, n):
    s = " ".join(str(s or "").split()).replace("|", "/")
    return s[:n]


def main():
    rows = []
    for d in sorted(glob.glob(os.path.join(ROOT, "C[0-9][0-9][a-z]"))):
        sid = os.path.basename(d)
        try:
            m = json.load(open(os.path.join(d, "meta.json")))
        except Exception:
            rows.append("| %s | (no meta.json) | | | |" % sid)
            continue
        chk = m.get("checks", {}).get(m["property"], {})
        conf = m.get("confirmed", {})
        suite = conf.get("test_suite_with_patch_own_run") or "agent run only"
        rows.append("| %s | %s | %s | %s | %s | %s |" % (
            sid, cell(m.get("what"), 150), cell(m.get("needs"), 120), chk.get("violations", "?"),
            cell(", ".join(chk.get("by", [])), 170), cell(suite, 40)))
    n = len(rows)
    det = 0
    for d in sorted(glob.glob(os.path.join(ROOT, "C[0-9][0-9][a-z]"))):
        try:
            m = json.load(open(os.path.join(d, "meta.json")))
            if m.get("checks", {}).get(m["property"], {}).get("violations", 0) > 0:
                det += 1
        except Exception:
            pass
    out = ["# Seeded property-breaking changes", "",
           "Each directory holds `patch.diff`, `demo.py` (exits 0 on the unchanged tree, 1 with the patch; run from the "
           "repository root), `meta.json`, and the relevant lines of the check output (`check_<ID>.txt`). The changes were "
           "written by independent sub-agents that saw only the property text and a scratch worktree (a, b: round 1; "
           "c, d: round 2, asked to use other mechanisms than a, b). Each was confirmed here by `tools/seedcheck.sh`: the "
           "demo passes on the clean tree and fails with the patch; the unedited test suite with the patch gives the "
           "same 398 passes (round 2: run here in a scratch worktree, last column; round 1: run by the agent).", "",
           "%d of %d detected by the check of their property (state of the last run of seedcheck for each seed)." % (det, n), "",
           "| seed | change | needs | VIOLATION lines | caught by | test suite with patch |", "|---|---|---|---|---|---|"] + rows
    open(os.path.join(ROOT, "README.md"), "w").write("\n".join(out) + "\n")
    print("%d/%d" % (det, n))


if __name__ == "__main__":
    main()
