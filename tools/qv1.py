#!/usr/bin/env python3
"""dev tool: verify contracts whose qualname contains a substring; prints obligations that are not discharged"""
import sys, os
sys.path.insert(0, os.path.dirname(os.path.dirname(os.path.abspath(__file__))))
from vf.qvc.source import SourceDB
from vf.qvc import contracts as C
pat = sys.argv[1] if len(sys.argv) > 1 else ""
verbose = "-v" in sys.argv
db = SourceDB()
reg = C.load_contracts()
bad = 0
for qn, c in reg.items():
    if pat not in qn or c.trusted:
        continue
    for i in range(len(c.instances)):
        r = C.verify_instance(db, reg, c, i)
        nd = sum(1 for o in r['obligations'] if o['status'] == 'discharged')
        print("%-70s %-28s %s paths=%d obl=%d/%d %.2fs %s" % (qn.split(':')[1], str(c.instances[i])[:28], r['status'], r['paths'], nd, len(r['obligations']), r['wall_s'], r['unsupported'] or ''))
        for o in r['obligations']:
            if o['status'] != 'discharged' or verbose:
                bad += o['status'] != 'discharged'
                print('    ', o['status'], o['name'], o['time_s'], o.get('detail', ''), o.get('note', ''))
                if o.get('model') and o['status'] != 'discharged':
                    print('       model:', dict(list(o['model'].items())[:14]))
sys.exit(1 if bad else 0)
