#!/usr/bin/env python3
"""dev tool: verify (in parallel) the contracts whose qualname contains a substring; prints what is not discharged"""
import sys, os, time
sys.path.insert(0, os.path.dirname(os.path.dirname(os.path.abspath(__file__))))
import concurrent.futures as cf, multiprocessing as mp
from vf.qvc import driver
from vf.qvc import contracts as C
pat = sys.argv[1] if len(sys.argv) > 1 else ""
verbose = "-v" in sys.argv
reg = C.load_contracts()
jobs = [(qn, i) for qn, c in reg.items() if pat in qn and not c.trusted for i in range(len(c.instances))]
t0 = time.time()
with cf.ProcessPoolExecutor(max_workers=min(16, max(1, len(jobs))), mp_context=mp.get_context("fork")) as ex:
    results = list(ex.map(driver._work, jobs))
bad = 0
for (qn, i), r in zip(jobs, results):
    c = reg[qn]
    nd = sum(1 for o in r['obligations'] if o['status'] == 'discharged')
    print("%-70s %-28s %s paths=%d obl=%d/%d %.2fs %s" % (qn.split(':')[1], str(c.instances[i])[:28], "ok" if r['status'] == 'ok' else r['status'], r['paths'], nd, len(r['obligations']), r.get('wall_s', 0), (r['unsupported'] or '')[:300]))
    for o in r['obligations']:
        if o['status'] != 'discharged' or verbose:
            bad += o['status'] != 'discharged'
            print('    ', o['status'], o['name'], o['time_s'], o.get('backend'), o.get('detail', ''), o.get('note', ''))
            if o.get('model') and o['status'] != 'discharged':
                print('       model:', dict(list(o['model'].items())[:14]))
print("total wall %.1fs" % (time.time() - t0))
sys.exit(1 if bad else 0)
