#!/bin/bash
# Offline setup: overlay venv with z3/cvc5/jsonschema on top of /venv (which has qubovert editable + numpy + sympy).
set -e
cd "$(dirname "$0")"
export PIP_NO_INDEX=1 PIP_DISABLE_PIP_VERSION_CHECK=1
if [ ! -x .venv/bin/python ] || ! .venv/bin/python -c "import z3, cvc5, jsonschema, qubovert, numpy, sympy" 2>/dev/null; then
  rm -rf .venv
  /venv/bin/python -m venv .venv
  .venv/bin/pip install -q --no-index --find-links /opt/veriftools/wheels z3-solver cvc5 jsonschema deal icontract
  SP=$(.venv/bin/python -c "import sysconfig; print(sysconfig.get_paths()['purelib'])")
  echo "import site; site.addsitedir('/venv/lib/python3.12/site-packages')" > "$SP/zz_repo_overlay.pth"
fi
.venv/bin/python -c "import z3, cvc5, jsonschema, qubovert, numpy, sympy; print('setup ok: z3', z3.get_version_string())"
