"""C03 (PCSO): the equality constraint as a composition of contracts (puso_to_pubo, PCBO.add_constraint_eq_zero,
pubo_to_puso, +=). The ghost spin assignment z = 1 - 2x covers variables and ancilla spins."""
from vf.qvc.contracts import contract

M = "qubovert._pcso:"
BND = ["none", "tuple:real,real", "tuple:none,real", "tuple:real,none", "tuple:none,none"]
_F = "(den(self) - old(den(self)))"

contract(M + "_empty_pcbo", props=["C03"], instances=[{"pcso": "model:PCSO"}],
         returns="fresh:model:PCBO",
         ensures=["is_empty(result)", "result._ancilla == pcso._ancilla", "isfresh(result)", "wf(result)"])

contract(M + "PCSO.add_constraint_eq_zero", props=["C03", "C19"],
         instances=[{"self": "model:PCSO", "H": h, "lam": "real", "bounds": b, "suppress_warnings": "const:False"}
                    for h in ("termdict", "model:PUSO", "model:PCSO", "model:QUSO") for b in BND],
         requires=["wf(self)", "lam > 0", "isint(sden(H))", "encloses(bounds, sden(H))",
                   "wf(H) if not typeis(H, 'dict') else True", "distinct(self, H)"],
         returns="param:self", modifies=["self"],
         ensures=[_F + " >= 0",
                  "implies(sden(H) == 0, %s == 0)" % _F,
                  "implies(sden(H) != 0, %s >= lam)" % _F,
                  "self._ancilla == old(self._ancilla)",
                  "wf(self)", "result is self"])
