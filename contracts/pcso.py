"""C03 (PCSO): the equality constraint as a composition of contracts (puso_to_pubo, PCBO.add_constraint_eq_zero,
pubo_to_puso, +=). The ghost spin assignment z = 1 - 2x covers variables and ancilla spins."""
from vf.qvc.contracts import contract

M = "qubovert._pcso:"
BND = ["none", "tuple:real,real", "tuple:none,real", "tuple:real,none", "tuple:none,none"]
_F = "(den(self) - old(den(self)))"

contract(M + "_empty_pcbo", props=["C03", "C14"], instances=[{"pcso": "model:PCSO"}],
         returns="fresh:model:PCBO",
         ensures=["is_empty(result)", "result._ancilla == pcso._ancilla", "isfresh(result)", "wf(result)"])

contract(M + "PCSO.add_constraint_eq_zero", props=["C03", "C14", "C16", "C19"], taint=["lam"],
         instances=[{"self": "model:PCSO", "H": h, "lam": "real", "bounds": b, "suppress_warnings": "bool"}
                    for h in ("termdict", "model:PUSO", "model:PCSO", "model:QUSO") for b in BND],
         requires=["wf(self)", "lam > 0", "isint(sden(H))", "encloses(bounds, sden(H))",
                   "wf(H) if not typeis(H, 'dict') else True", "distinct(self, H)"],
         returns="param:self", modifies=["self"],
         ensures=[_F + " >= 0",
                  "implies(sden(H) == 0, %s == 0)" % _F,
                  "implies(sden(H) != 0, %s >= lam)" % _F,
                  "self._ancilla == old(self._ancilla)",
                  "wf(self)", "result is self", "implies(old(bk(self)), bk(self))", "implies(old(keys_ancbelow(self, gn())) and keys_ancbelow(H, gn()) and gn() >= self._ancilla, keys_ancbelow(self, gn()))"])

# ---------------------------------------------------------------------------------- inequalities: same composition
_N = "(self._ancilla - old(self._ancilla))"


def _ineq(name, holds, wit):
    contract(M + "PCSO." + name, props=["C03", "C14", "C16", "C19"], taint=["lam"],
             instances=[{"self": "model:PCSO", "H": h, "lam": "real", "log_trick": "bool", "bounds": b,
                         "suppress_warnings": "bool"}
                        for h in ("termdict", "model:PUSO", "model:PCSO") for b in ("none", "tuple:real,real", "tuple:none,real")],
             requires=["wf(self)", "lam > 0", "isint(sden(H))", "encloses(bounds, sden(H))",
                       "wf(H) if not typeis(H, 'dict') else True", "distinct(self, H)",
                       # H is integer-valued, in particular at the all-(+1) spin assignment (sum of its coefficients)
                       "int_at_origin(H, True)"],
             returns="param:self", modifies=["self"],
             ensures=[_F + " >= 0",
                      "implies(not (%s) and not warned_unsat(), %s >= lam)" % (holds, _F),
                      "implies((%s) and %s == 0, %s == 0)" % (holds, _N, _F),
                      "implies((%s) and log_trick and slackval(old(self._ancilla), %s, True) == %s, %s == 0)"
                      % (holds, _N, wit, _F),
                      "self._ancilla >= old(self._ancilla)", "wf(self)", "result is self", "implies(old(bk(self)), bk(self))", "implies(old(keys_ancbelow(self, gn())) and keys_ancbelow(H, gn()) and gn() >= self._ancilla, keys_ancbelow(self, gn()))"])


_ineq("add_constraint_le_zero", "sden(H) <= 0", "-sden(H)")
_ineq("add_constraint_lt_zero", "sden(H) < 0", "-sden(H) - 1")
_ineq("add_constraint_ge_zero", "sden(H) >= 0", "sden(H)")
_ineq("add_constraint_gt_zero", "sden(H) > 0", "sden(H) - 1")

contract(M + "PCSO.add_constraint_ne_zero", props=["C03", "C14", "C16", "C19"], taint=["lam"],
         instances=[{"self": "model:PCSO", "H": h, "lam": "real", "log_trick": "bool", "bounds": b,
                     "suppress_warnings": "bool"}
                    for h in ("termdict", "model:PUSO", "model:PCSO") for b in ("none", "tuple:real,real", "tuple:none,real")],
         requires=["wf(self)", "lam > 0", "isint(sden(H))", "encloses(bounds, sden(H))",
                   "wf(H) if not typeis(H, 'dict') else True", "distinct(self, H)", "int_at_origin(H, True)"],
         returns="param:self", modifies=["self"],
         ensures=[_F + " >= 0",
                  "implies(sden(H) == 0 and not warned_unsat(), %s >= lam)" % _F,
                  "implies(sden(H) != 0 and %s == 0, %s == 0)" % (_N, _F),
                  "self._ancilla >= old(self._ancilla)", "wf(self)", "result is self", "implies(old(bk(self)), bk(self))", "implies(old(keys_ancbelow(self, gn())) and keys_ancbelow(H, gn()) and gn() >= self._ancilla, keys_ancbelow(self, gn()))"])
