"""C01: the pieces of degree reduction that are within reach: the default penalty and (via C06) the AND gadget.
The body of PUBO._reduce_degree (pair search with break, key rebuilding) is outside the supported subset and is
decided by the bounded clauses only."""
from vf.qvc.contracts import contract

contract("qubovert._pubo:PUBO.default_lam", props=["C01"],
         instances=[{"v": "real"}], returns="real",
         ensures=["result >= v", "result >= -v", "result >= 1"],
         note="the default penalty dominates |v|, which is the hypothesis of the 'never undercuts' clause")
