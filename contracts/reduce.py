"""C01: degree reduction.

Ghost assignments: x on the integer labels (the reduced form D and the re-keyed model), a on the model's own labels,
linked by a(l) == x(mapping[l]) (`rlinked`).  F := den(D') - den(D) is what the call adds to D, at x.

  never undercuts (default penalty):   F >= aden(self)            for every assignment x of model variables and ancillas
  extends exactly:                     cons(reductions) ==> F == aden(self)
                                       (cons: x[z] == x[p]*x[q] for every reduction (p, q) -> z the call made)
  self, pairs unchanged (frame); for a QUBOMatrix target no key longer than 2 is ever written (no KeyError path)

Within the proof the pair-frequency table is an opaque table (it only steers which pair is reduced first): the
statements hold whatever pair the heuristic picks.  `pairs` hints and callable penalties are left to the bounded
clauses.  The 'consequently' sentence of the property (same minimum, minimisers convert to minimisers) follows from
the two clauses by the Lean lemma L16."""
from vf.qvc.contracts import contract

contract("qubovert._pubo:PUBO.default_lam", props=["C01"],
         instances=[{"v": "real"}], returns="real",
         ensures=["result >= v", "result >= -v", "result >= 1"],
         note="the default penalty dominates |v|, which is the hypothesis of the 'never undercuts' clause")

_F = "(bden(D) - old(bden(D)))"
_BP = ("((klen({vis}) == 0) if best_pair[1] is None else (inkey(best_pair[1][0], key) and inkey(best_pair[1][1], key) "
       "and not has(reductions, best_pair[1])))")

contract("qubovert._pubo:PUBO._reduce_degree", props=["C01"],
         instances=[{"self": "model:" + c, "D": "model:" + d, "deg": g, "lam": l, "pairs": "none"}
                    for c in ("PUBO", "PCBO")
                    for d, g in (("PUBO", "const:2"), ("PUBO", "none"), ("PUBO", "int"))
                    for l in ("none", "real")] +
                   # with pair hints: an arbitrary set of pairs (membership uninterpreted)
                   [{"self": "model:PUBO", "D": "model:PUBO", "deg": "const:2", "lam": "none", "pairs": "keyset"},
                    {"self": "model:PCBO", "D": "model:PUBO", "deg": "int", "lam": "real", "pairs": "keyset"}],
         requires=["wf(self)", "wf(D)", "distinct(self, D)", "rlinked(self._mapping)",
                   "keys_within(self, lset(self._mapping))", "mapvals_ok(self._mapping)",
                   "lam is None or lam > 0",
                   # with deg=None the target degree is the model's own degree attribute: the shapes verified are
                   # those where it is at least 2 (a smaller one never triggers a reduction on a model whose degree
                   # attribute bounds its keys - that case is left to the bounded clauses)
                   "deg is not None or self._degree >= 2"],
         raises=[("ValueError", "deg is not None and deg < 2")],
         returns="none", modifies=["D"],
         ensures=["implies(lam is None, %s >= aden(self))" % _F,
                  "implies(cons(final('reductions')), %s == aden(self))" % _F, "wf(D)",
                  # the ancilla labels the call drew are not labels of the model: every one is above the largest
                  # integer the mapping uses (and below the final counter)
                  "vals_in(final('reductions'), maxkey(self._reverse_mapping) + 1, final('ancilla'))"],
         quick_instances=[0, 9],
         loops={1: {"invariant": "bden(mapped_self) == aden(visited)"},
                2: {"invariant": "True"},
                3: {"invariant": "True"},
                4: {"invariant": "implies(cons(reductions), %s == bden(visited)) and "
                                 "implies(lam is None, %s >= bden(visited)) and wf(D) and " % (_F, _F) +
                                 "vals_in(reductions, maxkey(self._reverse_mapping) + 1, ancilla) and ancilla >= maxkey(self._reverse_mapping) + 1",
                    "vars": {"reductions": "inttable"}},
                "w1": {"invariant": "implies(cons(reductions), %s == bden(visited4) and bmono(key) == bmono(pre(key))) and "
                                    "implies(lam is None, %s + v * bmono(key) >= bden(visited4) + v * bmono(pre(key))) and wf(D) and " % (_F, _F) +
                                    "vals_in(reductions, maxkey(self._reverse_mapping) + 1, ancilla) and ancilla >= maxkey(self._reverse_mapping) + 1"},
                5: {"invariant": "not previously_used and not in_pairs and " + _BP.format(vis="visited"),
                    "vars": {"best_pair": "bestpair2"}},
                6: {"invariant": "not previously_used and not in_pairs and inkey(x, key) and " +
                                 "((klen(visited5) == 0 and klen(visited) == 0) if best_pair[1] is None else "
                                 "(inkey(best_pair[1][0], key) and inkey(best_pair[1][1], key) and not has(reductions, best_pair[1])))",
                    "vars": {"best_pair": "bestpair2"}},
                7: {"invariant": "bmono(key) == bmono(without(visited, x, y)) * (xv(z) if z_inserted else 1)"}},
         budget={"paths": 600, "time": 1500, "parallel": 3},
         note="nested pair search with break, while loop per term, key rebuilding")
