"""Sidecar contracts for jtiosue/qubovert, keyed by dotted qualname (never by line number)."""
