"""C18: normalize (function and method).

"Every coefficient of the result equals the original coefficient times one common factor and the largest
coefficient magnitude equals the target": the common factor is value / maxabs(D), stated without division as
    forall q.  lookup(result, q) * maxabs(D) == value * lookup(D, q)
and the largest magnitude as maxabs(result) == |value|.  maxabs is the theory function of folds.maxabs_of (upper
bound of every |coefficient|, attained by an item).  Preconditions are what the code needs not to raise: a
non-empty dict with some non-zero coefficient (max() of an empty sequence / division by zero otherwise)."""
from vf.qvc.contracts import contract

BOOLG = ["termdict", "model:PUBO", "model:QUBO", "model:PCBO", "model:PUBOMatrix", "model:QUBOMatrix"]
SPING = ["model:PUSO", "model:QUSO", "model:PCSO", "model:PUSOMatrix", "model:QUSOMatrix"]


def _rt(env, eng):
    D = env["D"]
    return "fresh:model:" + D.cls.name if hasattr(D, "cls") else "termdict"


_SCALED = ("forall_key(lambda q: lookup({res}, q) * maxabs({src}) == value * lookup({src}, q) and "
           "has({res}, q) == (has({src}, q) and (typeis(D, 'dict') or lookup({res}, q) != 0)))")

contract("qubovert.utils._normalize:normalize", props=["C18", "C19"],
         instances=[{"D": g, "value": "real"} for g in BOOLG + SPING],
         requires=["wf(D) if not typeis(D, 'dict') else True", "size(D) > 0", "maxabs(D) > 0"],
         returns=_rt,
         ensures=[_SCALED.format(res="result", src="D"),
                  "implies(value != 0, maxabs(result) == (value if value >= 0 else -value))",
                  "sameclass(result, D)", "isfresh(result)",
                  "wf(result) if not typeis(D, 'dict') else True"],
         loops={1: {"invariant":
                    "forall_key(lambda q: lookup(res, q) * maxabs(D) == (value * lookup(coll, q) if has(visited, q) else 0) "
                    "and has(res, q) == (has(visited, q) and (typeis(D, 'dict') or lookup(res, q) != 0))) and "
                    "(wf(res) if not typeis(D, 'dict') else True) and mult * maxabs(D) == value"}})

# the method scales in place (a key whose scaled value is zero is removed); an empty model is left alone
from contracts.dictarith import STORE_BK, ALL, AF_SELF1

_M0 = "old(maxabs(self))"
contract("qubovert.utils._dict_arithmetic:DictArithmetic.normalize", props=["C18", "C14"],
         instances=[{"self": "model:" + c, "value": "real"} for c in ALL],
         requires=["wf(self)"],
         returns="none", modifies=STORE_BK,
         ensures=["forall_key(lambda q: lookup(self, q) * %s == value * old(lookup(self, q)) and "
                  "has(self, q) == (old(has(self, q)) and lookup(self, q) != 0))" % _M0,
                  "implies(value != 0 and old(size(self)) > 0, maxabs(self) == (value if value >= 0 else -value))",
                  "wf(self)", "implies(old(bk(self)), bk(self))", AF_SELF1],
         loops={1: {"invariant":
                    "forall_key(lambda q: (lookup(self, q) * maxabs(coll) == value * lookup(coll, q) and "
                    "has(self, q) == (has(coll, q) and lookup(self, q) != 0)) if has(visited, q) else "
                    "(has(self, q) == has(coll, q) and lookup(self, q) == lookup(coll, q))) and "
                    "wf(self) and implies(old(bk(self)), bk(self)) and mult * maxabs(coll) == value and " + AF_SELF1}})
