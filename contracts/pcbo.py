"""C02 / C06 (PCBO): bounds, equality constraint, logic-gate constraints.

Ghost assignment x ranges over *all* labels (model variables and ancillas), so the "for every a" clauses are
ordinary postconditions. F := den(self') - den(self) is the added penalty at x."""
from vf.qvc.contracts import contract

M = "qubovert._pcbo:"
PK = ["termdict", "model:PUBO", "model:PCBO", "model:QUBO"]
BND = ["none", "tuple:real,real", "tuple:none,real", "tuple:real,none", "tuple:none,none"]

contract(M + "_get_bounds", props=["C02", "C15"],
         instances=[{"P": p, "bounds": b} for p in ("model:PUBO", "termdict") for b in BND],
         requires=["encloses(bounds, bden(P))"],
         returns="tuple:real,real",
         ensures=["result[0] <= bden(P)", "bden(P) <= result[1]",
                  "implies(allconst(P), True)"])

contract(M + "_special_constraints_eq_zero", props=["C02"], trusted=True,
         instances=[{"pcbo": "model:PCBO", "P": "model:PUBO", "lam": "real"}],
         returns="bool", modifies=["pcbo"],
         ensures=["implies(not result, same_store(pcbo, old(store(pcbo))))",
                  "implies(result, den(pcbo) - old(den(pcbo)) >= 0)",
                  "implies(result and bden(P) == 0, den(pcbo) == old(den(pcbo)))",
                  "implies(result and bden(P) != 0, den(pcbo) - old(den(pcbo)) >= lam)",
                  "wf(pcbo)", "pcbo._ancilla == old(pcbo._ancilla)"],
         note="syntactic special form a - b*c == 0 (reads key/value order of a two-term model): contract assumed, "
              "checked by the bounded stand-in (C02 special-form clauses)")

_F = "(den(self) - old(den(self)))"
contract(M + "PCBO.add_constraint_eq_zero", props=["C02", "C06", "C19"],
         instances=[{"self": "model:PCBO", "P": p, "lam": "real", "bounds": b, "suppress_warnings": "const:False"}
                    for p in PK for b in BND],
         requires=["wf(self)", "lam > 0", "isint(bden(P))", "encloses(bounds, bden(P))",
                   "wf(P) if not typeis(P, 'dict') else True", "distinct(self, P)"],
         returns="param:self", modifies=["self"],
         ensures=[_F + " >= 0",
                  "implies(bden(P) == 0, %s == 0)" % _F,
                  "implies(bden(P) != 0, %s >= lam)" % _F,
                  "self._ancilla == old(self._ancilla)",
                  "wf(self)", "result is self"])


# ---------------------------------------------------------------------------------- logic gates (C06)
OPK = ["label", "termdict", "model:PUBO", "model:PCBO"]


def _ops(n):
    combos = [("label",) * n]
    for pos in range(n):
        for k in ("termdict", "model:PUBO", "model:PCBO"):
            c = ["label"] * n
            c[pos] = k
            combos.append(tuple(c))
    return ["tuple:" + ",".join(c) for c in combos]


def _gate(name, truth, arities, first=None):
    """truth: spec expression (over `variables`, and `a` for eq-forms) that is 1 when the gate constraint holds"""
    inst = []
    for n in arities:
        for ops in _ops(n):
            if first is None:
                inst.append({"self": "model:PCBO", "variables": ops, "lam": "real"})
            else:
                for ak in ("label", "model:PUBO"):
                    inst.append({"self": "model:PCBO", "a": ak, "variables": ops, "lam": "real"})
    allops = "variables" if first is None else "(a,) + variables"
    contract(M + "PCBO." + name, props=["C06"],
             instances=inst,
             requires=["wf(self)", "lam > 0", "opsvalid(%s)" % allops, "all01(%s)" % allops,
                       "distinct_from(self, %s)" % allops],
             returns="param:self", modifies=["self"],
             ensures=[_F + " >= 0",
                      "implies(%s, %s == 0)" % (truth, _F),
                      "implies(not (%s), %s >= lam)" % (truth, _F),
                      "self._ancilla == old(self._ancilla)", "wf(self)", "result is self"])


def _gate1(name, truth, two=False):
    inst = []
    for ak in OPK:
        if two:
            for bk in ("label", "model:PUBO"):
                inst.append({"self": "model:PCBO", "a": ak, "b": bk, "lam": "real"})
        else:
            inst.append({"self": "model:PCBO", "a": ak, "lam": "real"})
    allops = "(a, b)" if two else "(a,)"
    contract(M + "PCBO." + name, props=["C06"],
             instances=inst,
             requires=["wf(self)", "lam > 0", "opsvalid(%s)" % allops, "all01(%s)" % allops,
                       "distinct_from(self, %s)" % allops],
             returns="param:self", modifies=["self"],
             ensures=[_F + " >= 0",
                      "implies(%s, %s == 0)" % (truth, _F),
                      "implies(not (%s), %s >= lam)" % (truth, _F),
                      "self._ancilla == old(self._ancilla)", "wf(self)", "result is self"])


_gate("add_constraint_AND", "andf(variables) == 1", (1, 2, 3))
_gate("add_constraint_OR", "orf(variables) == 1", (1, 2, 3))
_gate("add_constraint_XOR", "xorf(variables) == 1", (1, 2, 3))
_gate("add_constraint_NAND", "andf(variables) == 0", (1, 2, 3))
_gate("add_constraint_NOR", "orf(variables) == 0", (1, 2, 3))
_gate("add_constraint_XNOR", "xorf(variables) == 0", (1, 2, 3))
_gate1("add_constraint_BUFFER", "opden(a) == 1")
_gate1("add_constraint_NOT", "opden(a) == 0")
_gate("add_constraint_eq_AND", "opden(a) == andf(variables)", (2, 3), first="a")
_gate("add_constraint_eq_OR", "opden(a) == orf(variables)", (2, 3), first="a")
_gate("add_constraint_eq_XOR", "opden(a) == xorf(variables)", (2, 3), first="a")
_gate("add_constraint_eq_NAND", "opden(a) == 1 - andf(variables)", (2, 3), first="a")
_gate("add_constraint_eq_NOR", "opden(a) == 1 - orf(variables)", (2, 3), first="a")
_gate("add_constraint_eq_XNOR", "opden(a) == 1 - xorf(variables)", (2, 3), first="a")
_gate1("add_constraint_eq_BUFFER", "opden(a) == opden(b)", two=True)
_gate1("add_constraint_eq_NOT", "opden(a) == 1 - opden(b)", two=True)
