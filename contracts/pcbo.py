"""C02 / C06 (PCBO): bounds, equality constraint, logic-gate constraints.

Ghost assignment x ranges over *all* labels (model variables and ancillas), so the "for every a" clauses are
ordinary postconditions. F := den(self') - den(self) is the added penalty at x."""
from vf.qvc.contracts import contract

M = "qubovert._pcbo:"
PK = ["termdict", "model:PUBO", "model:PCBO", "model:QUBO"]
BND = ["none", "tuple:real,real", "tuple:none,real", "tuple:real,none", "tuple:none,none"]

contract(M + "_get_bounds", props=["C02", "C15"],
         instances=[{"P": p, "bounds": b} for p in ("model:PUBO", "termdict") for b in BND],
         requires=["encloses(bounds, bden(P))"],
         returns="tuple:real,real",
         ensures=["result[0] <= bden(P)", "bden(P) <= result[1]",
                  "implies(allconst(P), True)"])

contract(M + "_special_constraints_eq_zero", props=["C02"], trusted=True,
         instances=[{"pcbo": "model:PCBO", "P": "model:PUBO", "lam": "real"}],
         returns="bool", modifies=["pcbo"],
         ensures=["implies(not result, same_store(pcbo, old(store(pcbo))))",
                  "implies(result, den(pcbo) - old(den(pcbo)) >= 0)",
                  "implies(result and bden(P) == 0, den(pcbo) == old(den(pcbo)))",
                  "implies(result and bden(P) != 0, den(pcbo) - old(den(pcbo)) >= lam)",
                  "wf(pcbo)"],
         note="syntactic special form a - b*c == 0 (reads key/value order of a two-term model): contract assumed, "
              "checked by the bounded stand-in (C02 special-form clauses)")

_F = "(den(self) - old(den(self)))"
contract(M + "PCBO.add_constraint_eq_zero", props=["C02", "C06", "C19"],
         instances=[{"self": "model:PCBO", "P": p, "lam": "real", "bounds": b, "suppress_warnings": "const:False"}
                    for p in PK for b in BND],
         requires=["wf(self)", "lam > 0", "isint(bden(P))", "encloses(bounds, bden(P))",
                   "wf(P) if not typeis(P, 'dict') else True", "distinct(self, P)"],
         returns="param:self", modifies=["self"],
         ensures=[_F + " >= 0",
                  "implies(bden(P) == 0, %s == 0)" % _F,
                  "implies(bden(P) != 0 and not warned_unsat(), %s >= lam)" % _F,
                  "wf(self)", "result is self"])
