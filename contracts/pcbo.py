"""C02 / C06 (PCBO): bounds, equality constraint, logic-gate constraints.

Ghost assignment x ranges over *all* labels (model variables and ancillas), so the "for every a" clauses are
ordinary postconditions. F := den(self') - den(self) is the added penalty at x."""
from vf.qvc.contracts import contract

M = "qubovert._pcbo:"
PK = ["termdict", "model:PUBO", "model:PCBO", "model:QUBO"]
BND = ["none", "tuple:real,real", "tuple:none,real", "tuple:real,none", "tuple:none,none"]

contract(M + "_get_bounds", props=["C02", "C15"],
         instances=[{"P": p, "bounds": b} for p in ("model:PUBO", "termdict") for b in BND],
         requires=["encloses(bounds, bden(P))"],
         returns="tuple:real,real",
         ensures=["result[0] <= bden(P)", "bden(P) <= result[1]",
                  "implies(allconst(P), True)"])

contract(M + "_special_constraints_eq_zero", props=["C02", "C03", "C06", "C08", "C14"],
         instances=[{"pcbo": "model:PCBO", "P": "model:PUBO", "lam": "real"}],
         requires=["wf(pcbo)", "wf(P)", "lam > 0", "distinct(pcbo, P)"],
         returns="bool", modifies=["pcbo"],
         ensures=["implies(not result, same_store(pcbo, old(store(pcbo))))",
                  "implies(result, den(pcbo) - old(den(pcbo)) >= 0)",
                  "implies(result and bden(P) == 0, den(pcbo) == old(den(pcbo)))",
                  "implies(result and bden(P) != 0, den(pcbo) - old(den(pcbo)) >= lam)",
                  "wf(pcbo)", "pcbo._ancilla == old(pcbo._ancilla)", "implies(old(bk(pcbo)), bk(pcbo))",
                  "implies(old(keys_ancbelow(pcbo, gn())) and keys_ancbelow(P, gn()) and gn() >= pcbo._ancilla, keys_ancbelow(pcbo, gn()))"],
         note="syntactic special form v*a - v*b*c == 0, read off the key/value order of a two-term model (L11-enum)")

_F = "(den(self) - old(den(self)))"


def _afg(obj, arg, cnt=None):
    """ancilla freshness, generic in the ghost bound gn(): if no key of the model and of the argument mentions an
    ancilla name '__a<j>' with j >= gn(), and gn() is at least the ancilla counter after the call, then no key of
    the model does afterwards.  With gn() := the counter this is the invariant 'every constraint ancilla present
    has a number below the counter', so the ancillas a later call draws from the counter are new."""
    return "implies(old(keys_ancbelow(%s, gn())) and %s and gn() >= %s._ancilla, keys_ancbelow(%s, gn()))" % (
        obj, arg, obj, obj)


contract(M + "PCBO.add_constraint_eq_zero", props=["C02", "C06", "C14", "C16", "C19"], taint=["lam"],
         instances=[{"self": "model:PCBO", "P": p, "lam": "real", "bounds": b, "suppress_warnings": "bool"}
                    for p in PK for b in BND],
         requires=["wf(self)", "lam > 0", "isint(bden(P))", "encloses(bounds, bden(P))",
                   "wf(P) if not typeis(P, 'dict') else True", "distinct(self, P)"],
         returns="param:self", modifies=["self"],
         ensures=[_F + " >= 0",
                  "implies(bden(P) == 0, %s == 0)" % _F,
                  "implies(bden(P) != 0, %s >= lam)" % _F,
                  "self._ancilla == old(self._ancilla)",
                  "wf(self)", "result is self", "implies(old(bk(self)), bk(self))", _afg("self", "keys_ancbelow(P, gn())")])


# ---------------------------------------------------------------------------------- logic gates (C06)
OPK = ["label", "termdict", "model:PUBO", "model:PCBO"]


def _ops(n):
    combos = [("label",) * n]
    for pos in range(n):
        for k in ("termdict", "model:PUBO", "model:PCBO"):
            c = ["label"] * n
            c[pos] = k
            combos.append(tuple(c))
    if n == 2:
        combos.append(("model:PUBO", "model:PUBO"))      # OR(AND(*k1), AND(*k2)) in the special forms of <=
    return ["tuple:" + ",".join(c) for c in combos]


def _gate(name, truth, arities, first=None):
    """truth: spec expression (over `variables`, and `a` for eq-forms) that is 1 when the gate constraint holds"""
    inst = []
    for n in arities:
        for ops in _ops(n):
            if first is None:
                inst.append({"self": "model:PCBO", "variables": ops, "lam": "real"})
            else:
                for ak in ("label", "model:PUBO"):
                    inst.append({"self": "model:PCBO", "a": ak, "variables": ops, "lam": "real"})
    allops = "variables" if first is None else "(a,) + variables"
    contract(M + "PCBO." + name, props=["C06", "C16"], taint=["lam"],
             instances=inst,
             requires=["wf(self)", "lam > 0", "opsvalid(%s)" % allops, "all01(%s)" % allops,
                       "distinct_from(self, %s)" % allops],
             returns="param:self", modifies=["self"],
             ensures=[_F + " >= 0",
                      "implies(%s, %s == 0)" % (truth, _F),
                      "implies(not (%s), %s >= lam)" % (truth, _F),
                      "self._ancilla == old(self._ancilla)", "wf(self)", "result is self",
                      _afg("self", "ops_ancbelow(%s, gn())" % allops)])


def _gate1(name, truth, two=False):
    inst = []
    for ak in OPK:
        if two:
            for bk in ("label", "model:PUBO"):
                inst.append({"self": "model:PCBO", "a": ak, "b": bk, "lam": "real"})
        else:
            inst.append({"self": "model:PCBO", "a": ak, "lam": "real"})
    allops = "(a, b)" if two else "(a,)"
    contract(M + "PCBO." + name, props=["C06", "C16"], taint=["lam"],
             instances=inst,
             requires=["wf(self)", "lam > 0", "opsvalid(%s)" % allops, "all01(%s)" % allops,
                       "distinct_from(self, %s)" % allops],
             returns="param:self", modifies=["self"],
             ensures=[_F + " >= 0",
                      "implies(%s, %s == 0)" % (truth, _F),
                      "implies(not (%s), %s >= lam)" % (truth, _F),
                      "self._ancilla == old(self._ancilla)", "wf(self)", "result is self",
                      _afg("self", "ops_ancbelow(%s, gn())" % allops)])


_gate("add_constraint_AND", "andf(variables) == 1", (1, 2, 3))
_gate("add_constraint_OR", "orf(variables) == 1", (1, 2, 3))
_gate("add_constraint_XOR", "xorf(variables) == 1", (1, 2, 3))
_gate("add_constraint_NAND", "andf(variables) == 0", (1, 2, 3))
# NOR, XNOR and the eq-forms built on a nested `PCBO().add_constraint_G(...)` (eq_OR/eq_NOR with more than two
# operands, eq_XOR, eq_XNOR, eq_NOT) use the *exact* polynomial of the inner penalty; the contracts here only give
# the three inequalities, so those methods are not under contract (bounded clauses C06.* cover them).
_gate1("add_constraint_BUFFER", "opden(a) == 1")
_gate1("add_constraint_NOT", "opden(a) == 0")
_gate("add_constraint_eq_AND", "opden(a) == andf(variables)", (2, 3), first="a")
_gate("add_constraint_eq_OR", "opden(a) == orf(variables)", (2,), first="a")
_gate("add_constraint_eq_NAND", "opden(a) == 1 - andf(variables)", (2, 3), first="a")
_gate("add_constraint_eq_NOR", "opden(a) == 1 - orf(variables)", (2,), first="a")
_gate1("add_constraint_eq_BUFFER", "opden(a) == opden(b)", two=True)

# ---------------------------------------------------------------------------------- inequality constraints (C02)
# n := self._ancilla - old(self._ancilla) ancillas '__a<a0>'.. are created; the ghost assignment covers them.
# Clause (2) "min over a of F = 0 when the relation holds" is stated in witness form: for the log-trick slack,
# if the ancilla bits encode -P(x) (slackval == -bden(P)) then F == 0; that such a setting exists for every integer
# in [0, cap] is lemma L6 (assumed, exercised by the bounded clauses). The unary (log_trick=False) witness is
# bounded only, because the unary special form encodes a different quantity in its ancillas.
contract("qubovert.utils._binary_helpers:num_bits", props=["C02"],
         instances=[{"val": "real", "log_trick": "bool"}],
         raises=[("ValueError", "val < 0")], returns="int",
         ensures=["result >= 0", "slackcap(result, log_trick) >= val", "implies(val == 0, result == 0)",
                  "implies(not log_trick, result < val + 1)"],      # unary: exactly ceil(val)
         note="verified by body against the built-in semantics of math.ceil (c - 1 < v <= c) and int.bit_length "
              "(2^(b-1) <= n < 2^b): 2^bit_length(ceil v) - 1 >= v, resp. ceil(v) >= v (L8 is the same fact in Lean)")

_N = "(self._ancilla - old(self._ancilla))"
contract(M + "_special_constraints_le_zero", props=["C02", "C03", "C08", "C14"],
         instances=[{"pcbo": "model:PCBO", "P": "model:PUBO", "lam": "real", "log_trick": "bool", "bounds": "tuple:real,real"}],
         requires=["wf(pcbo)", "wf(P)", "lam > 0", "distinct(pcbo, P)", "isint(bden(P))", "encloses(bounds, bden(P))",
                   "int_at_origin(P)"],
         returns="bool", modifies=["pcbo"],
         ensures=["implies(not result, same_store(pcbo, old(store(pcbo))) and pcbo._ancilla == old(pcbo._ancilla))",
                  "implies(result, den(pcbo) - old(den(pcbo)) >= 0)",
                  "implies(result and bden(P) > 0, den(pcbo) - old(den(pcbo)) >= lam)",      # special forms never warn
                  "implies(result and bden(P) <= 0 and pcbo._ancilla == old(pcbo._ancilla), den(pcbo) == old(den(pcbo)))",
                  "implies(result and log_trick, pcbo._ancilla == old(pcbo._ancilla))",
                  "pcbo._ancilla >= old(pcbo._ancilla)", "wf(pcbo)", "implies(old(bk(pcbo)), bk(pcbo))",
                  "implies(old(keys_ancbelow(pcbo, gn())) and keys_ancbelow(P, gn()) and gn() >= pcbo._ancilla, keys_ancbelow(pcbo, gn()))"],
         loops={1: {"invariant": "implies(gn() >= pcbo._ancilla, keys_ancbelow(ancillas, gn())) and "
                                 "bden(ancillas) == slackval(pre(pcbo._ancilla), visited, False) and "
                                 "pcbo._ancilla == pre(pcbo._ancilla) + visited and wf(ancillas) and "
                                 "slackval(pre(pcbo._ancilla), visited, False) >= 0 and "
                                 "slackval(pre(pcbo._ancilla), visited, False) <= slackcap(visited, False) and "
                                 "slack_next(pre(pcbo._ancilla), visited, False) == slack_next(pre(pcbo._ancilla), visited, False)",
                    "modifies": ["pcbo._ancilla"]}},
         note="the four syntactic special forms of <= (sum <= 1, unary slack, OR form, x <= y): read key order and "
              "exact coefficient patterns of small models (L11-enum, L12-count)")


def _ineq(name, holds, loops=None):
    contract(M + "PCBO." + name, props=["C02", "C14", "C16", "C19"], taint=["lam"],
             instances=[{"self": "model:PCBO", "P": p, "lam": "real", "log_trick": "bool", "bounds": b,
                         "suppress_warnings": "bool"}
                        for p in ("termdict", "model:PUBO", "model:PCBO") for b in ("none", "tuple:real,real", "tuple:none,real")],
             requires=["wf(self)", "lam > 0", "isint(bden(P))", "encloses(bounds, bden(P))",
                       "wf(P) if not typeis(P, 'dict') else True", "distinct(self, P)",
                       # P is integer-valued (the property's premise), in particular at the origin: its constant term
                       "int_at_origin(P)"],
             returns="param:self", modifies=["self"],
             ensures=[_F + " >= 0", _afg("self", "keys_ancbelow(P, gn())"),
                      "implies(not (%s) and not warned_unsat(), %s >= lam)" % (holds, _F),
                      "implies((%s) and %s == 0, %s == 0)" % (holds, _N, _F),
                      "implies((%s) and log_trick and slackval(old(self._ancilla), %s, True) == %s, %s == 0)"
                      % (holds, _N, "{WIT}", _F),
                      "self._ancilla >= old(self._ancilla)", "wf(self)", "result is self",
                      "implies(old(bk(self)), bk(self))"],
             loops=loops or {})


# placeholder substitution of the witness value per relation
def _ineq2(name, holds, wit, loops=None):
    _ineq(name, holds, loops)
    from vf.qvc.contracts import REGISTRY
    c = REGISTRY[M + "PCBO." + name]
    c.ensures = [e.replace("{WIT}", wit) for e in c.ensures]


_ineq2("add_constraint_le_zero", "bden(P) <= 0", "-bden(P)",
       loops={1: {"invariant": "implies(pre(keys_ancbelow(P, gn())) and gn() >= self._ancilla, keys_ancbelow(P, gn())) and "
                               "bden(P) == pre(bden(P)) + slackval(pre(self._ancilla), visited, log_trick) and "
                               "max_val == pre(max_val) + slackcap(visited, log_trick) and "
                               "self._ancilla == pre(self._ancilla) + visited and wf(P) and "
                               "slackval(pre(self._ancilla), visited, log_trick) >= 0 and "
                               "slackval(pre(self._ancilla), visited, log_trick) <= slackcap(visited, log_trick) and "
                               "slack_next(pre(self._ancilla), visited, log_trick) == slack_next(pre(self._ancilla), visited, log_trick)",
                  "modifies": ["self._ancilla"]}})
_ineq2("add_constraint_lt_zero", "bden(P) < 0", "-bden(P) - 1")
_ineq2("add_constraint_ge_zero", "bden(P) >= 0", "bden(P)")
_ineq2("add_constraint_gt_zero", "bden(P) > 0", "bden(P) - 1")

# != 0 : non-negativity, the penalty on violating assignments, and exactness without ancillas. The witness form of
# clause (2) differs per branch (it is inherited from > / < or uses the sign ancilla) and stays bounded.
_SGN = "(slackval(pre(self._ancilla), visited, log_trick) if xv(anclabel(pre(self._ancilla) - 1)) == 1 else " \
       "-slackval(pre(self._ancilla), visited, log_trick))"
contract(M + "PCBO.add_constraint_ne_zero", props=["C02", "C14", "C16", "C19"], taint=["lam"],
         instances=[{"self": "model:PCBO", "P": p, "lam": "real", "log_trick": "bool", "bounds": b,
                     "suppress_warnings": "bool"}
                    for p in ("termdict", "model:PUBO", "model:PCBO") for b in ("none", "tuple:real,real", "tuple:none,real")],
         requires=["wf(self)", "lam > 0", "isint(bden(P))", "encloses(bounds, bden(P))",
                   "wf(P) if not typeis(P, 'dict') else True", "distinct(self, P)", "int_at_origin(P)"],
         returns="param:self", modifies=["self"],
         ensures=[_F + " >= 0", _afg("self", "keys_ancbelow(P, gn())"),
                  "implies(bden(P) == 0 and not warned_unsat(), %s >= lam)" % _F,
                  "implies(bden(P) != 0 and %s == 0, %s == 0)" % (_N, _F),
                  "self._ancilla >= old(self._ancilla)", "wf(self)", "result is self", "implies(old(bk(self)), bk(self))"],
         loops={1: {"invariant": "implies(pre(keys_ancbelow(P, gn())) and gn() >= self._ancilla, keys_ancbelow(P, gn())) and "
                                 "bden(P) == pre(bden(P)) + " + _SGN + " and "
                                 "max_val == pre(max_val) + slackcap(visited, log_trick) and "
                                 "min_val == pre(min_val) - slackcap(visited, log_trick) and "
                                 "self._ancilla == pre(self._ancilla) + visited and wf(P) and "
                                 "slackval(pre(self._ancilla), visited, log_trick) >= 0 and "
                                 "slackval(pre(self._ancilla), visited, log_trick) <= slackcap(visited, log_trick) and "
                                 "slack_next(pre(self._ancilla), visited, log_trick) == slack_next(pre(self._ancilla), visited, log_trick)",
                    "modifies": ["self._ancilla"]}})

# ---------------------------------------------------------------------------------- is_solution_valid (C02/C03/C06/C08)
# "is_solution_valid(x) is true exactly when every recorded constraint holds at x": for arbitrary lists of recorded
# constraints (abstract objects with a value at the assignment), one list per relation.
_VALID = " and ".join("cons_all(self, '%s', '%s')" % kr for kr in
                      (("eq", "=="), ("ne", "!="), ("lt", "<"), ("le", "<="), ("gt", ">"), ("ge", ">=")))
contract(M + "PCBO.is_solution_valid", props=["C02", "C03", "C06", "C08"],
         instances=[{"self": "cmodel:PCBO", "solution": "bassign"}, {"self": "cmodel:PCSO", "solution": "sassign"}],
         returns="bool", ensures=["iff(result, %s)" % _VALID],
         note="recorded constraints abstracted to multisets of objects with a value at the assignment; "
              "`solution` is the ghost assignment (it covers every variable of the constraints)")
contract("qubovert._pcso:PCSO.is_solution_valid", props=["C03"],
         instances=[{"self": "cmodel:PCSO", "solution": "sassign"}],
         returns="bool", ensures=["iff(result, %s)" % _VALID])
