"""C04: convert_solution undoes the relabelling, for dict / list / tuple solutions in boolean or spin form.

A solution is an indexed container (vf/qvc/solth.py) with values all in {0, 1} (boolean form) or all in {1, -1}
(spin form) - the property's "given in boolean or spin form".  is_solution_spin decides the form (an all-ones
solution is ambiguous: the `spin` hint decides, as documented); the helpers map the values through the fixed
correspondence 0 <-> 1, 1 <-> -1; convert_solution then returns the dict  label -> value  over the model's
variables:  result[reverse_mapping[i]] == value of index i in the model's own domain, for every integer i the mapping uses,
and nothing else.  With x := result this is x[l] = s[mapping[l]], the `maplinked` relation
under which the enumeration contracts (contracts/relabel.py) give  M.value(x) == enumerated.value(s).

Precondition on the model: mapping is the inverse of reverse_mapping on the integers the latter uses (injective
enumeration - a consequence of the C14 invariants bk and mapinv for an automatically built mapping, and true of a
mapping declared with set_mapping, gaps included), and the solution has an entry for every such integer.
After the repair bc846f0 the result is built from the items of the reverse mapping (it used to run over
range(num_binary_variables) and raised KeyError for a declared mapping with gaps)."""
from vf.qvc.contracts import contract

SOLS = ["sol:dict", "sol:list", "sol:tuple"]
FORM = "sol_all_in({0}, 0, 1) or sol_all_in({0}, 1, -1)"
ISSPIN = "(sol_has({0}, -1) or ({1} and not sol_has({0}, 0)))"

contract("qubovert.utils._binary_helpers:is_solution_spin", props=["C04"],
         instances=[{"solution": s, "default": "bool"} for s in SOLS],
         requires=[FORM.format("solution")],
         returns="bool", ensures=["iff(result, %s)" % ISSPIN.format("solution", "default")],
         loops={1: {"invariant": "idx_none(visited, solution, 0) and idx_none(visited, solution, -1)"}})


def _sol_rt(arg):
    return lambda env, eng: "sol:" + env[arg].container


contract("qubovert.utils._conversions:spin_to_boolean", props=["C04"],
         instances=[{"z": s} for s in SOLS],
         requires=["sol_all_in(z, 1, -1)"], returns=_sol_rt("z"),
         ensures=["sol_len(result) == sol_len(z)", "sameclass(result, z)",
                  "forall_idx(sol_len(z), lambda i: 2 * sol_at(result, i) == 1 - sol_at(z, i))"])
contract("qubovert.utils._conversions:boolean_to_spin", props=["C04"],
         instances=[{"x": s} for s in SOLS],
         requires=["sol_all_in(x, 0, 1)"], returns=_sol_rt("x"),
         ensures=["sol_len(result) == sol_len(x)", "sameclass(result, x)",
                  "forall_idx(sol_len(x), lambda i: sol_at(result, i) == 1 - 2 * sol_at(x, i))"])

_N = "self._num_binary_variables"
_RMAP_OK = ("forall_idx(%s, lambda i: has_key(self._reverse_mapping, i) and "
            "has_key(self._mapping, map_at(self._reverse_mapping, i)) and "
            "label_at(self._mapping, map_at(self._reverse_mapping, i)) == i)" % _N)
# the C14 invariants: counter = number of mapped labels = next label (bk), mapping / reverse mapping mutually inverse
# enumerations of 0 .. next_label - 1 (mapinv) - both proved for construction, item assignment, += -= and update
# the solution covers every integer the mapping uses; the mapping is injective (a declared mapping may have gaps)
_COVERS = "forall_mapped(self._reverse_mapping, lambda i: 0 <= i and i < sol_len(solution))"
_INJ = ("forall_mapped(self._reverse_mapping, lambda i: has_key(self._mapping, map_at(self._reverse_mapping, i)) and "
        "label_at(self._mapping, map_at(self._reverse_mapping, i)) == i)")
_REQ = [FORM.format("solution"), _COVERS, _INJ]


def _conv(qn, classes, value_expr):
    contract(qn, props=["C04", "C19"],
             instances=[{"self": "model:" + c, "solution": s, "spin": "bool"} for c in classes for s in SOLS],
             requires=_REQ, returns="valmap",
             ensures=["forall_mapped(self._reverse_mapping, lambda i: has_key(result, map_at(self._reverse_mapping, i)) and "
                      "label_at(result, map_at(self._reverse_mapping, i)) == (%s))" % value_expr,
                      "only_images_of(result, self._reverse_mapping)", "isfresh(result)"])


_B = "((1 - sol_at(solution, i)) / 2 if %s else sol_at(solution, i))" % ISSPIN.format("solution", "spin")
_S = "(sol_at(solution, i) if %s else 1 - 2 * sol_at(solution, i))" % ISSPIN.format("solution", "spin")
_conv("qubovert._qubo:QUBO.convert_solution", ["QUBO", "PUBO", "PCBO"], _B)
_conv("qubovert._pubo:PUBO.convert_solution", ["PUBO", "PCBO"], _B)
_conv("qubovert._quso:QUSO.convert_solution", ["QUSO", "PUSO", "PCSO"], _S)
_conv("qubovert._puso:PUSO.convert_solution", ["PUSO", "PCSO"], _S)
