"""C07: sat expression builders compute their truth functions (operands: labels, raw dicts, boolean models)."""
import itertools
from vf.qvc.contracts import contract

M = "qubovert.sat._satisfiability:"
OPK = ["label", "termdict", "model:PUBO", "model:QUBO", "model:PCBO"]

contract(M + "BUFFER", props=["C07", "C06", "C19"],
         instances=[{"x": k} for k in OPK + ["model:PUBOMatrix", "model:QUBOMatrix"]],
         requires=["opsvalid((x,))"],
         returns=lambda env, eng: "fresh:model:" + (env["x"].cls.name if hasattr(env["x"], "cls") else "PUBO"),
         ensures=["bden(result) == opden(x)", "wf(result)", "isfresh(result)",
                  "implies(ops_ancbelow((x,), gn()), keys_ancbelow(result, gn()))"])

contract(M + "NOT", props=["C07", "C06", "C19"],
         instances=[{"x": k} for k in OPK],
         requires=["opsvalid((x,))"],
         returns=lambda env, eng: "fresh:model:" + (env["x"].cls.name if hasattr(env["x"], "cls") else "PUBO"),
         ensures=["bden(result) == 1 - opden(x)", "wf(result)", "isfresh(result)",
                  "implies(ops_ancbelow((x,), gn()), keys_ancbelow(result, gn()))"])


def _tuples(maxn):
    out = [{"variables": "tuple:"}]
    # arity 1..maxn; operand kinds: all labels, and each position replaced by a dict / model kind
    for n in range(1, maxn + 1):
        combos = [("label",) * n]
        for pos in range(n):
            for k in ("termdict", "model:PUBO", "model:PCBO"):
                c = ["label"] * n
                c[pos] = k
                combos.append(tuple(c))
        if n >= 2:
            combos.append(("model:PUBO",) * n)
            combos.append(("termdict", "model:PCBO") + ("label",) * (n - 2))
        for c in combos:
            out.append({"variables": "tuple:" + ",".join(c)})
    return out


_AFV = "implies(ops_ancbelow(variables, gn()), keys_ancbelow(result, gn()))"


def _restype(env, eng):
    # type of the model operand that ends up on the left of the arithmetic (first operand), PUBO for labels/dicts
    vs = env["variables"]
    if not isinstance(vs, tuple):          # *key: labels only
        return "fresh:model:PUBO"
    if vs and hasattr(vs[0], "cls"):
        return "fresh:model:" + vs[0].cls.name
    return "fresh:model:PUBO"


for name, f in (("AND", "andf"), ("OR", "orf"), ("XOR", "xorf")):
    contract(M + name, props=["C07", "C06", "C19"],
             # AND is also verified for `AND(*key)`: any number of label operands given as a symbolic key (used by the
             # special forms of PCBO.add_constraint_le_zero); its loop is peeled once because P starts as the int 1
             instances=_tuples(3) + ([{"variables": "labelkey"}] if name == "AND" else []),
             requires=["opsvalid(variables)", "all01(variables)"],
             returns=_restype,
             ensures=["bden(result) == %s(variables)" % f, "wf(result)", "isfresh(result)", _AFV],
             decreases="len(variables)",
             loops={1: {"peel": True, "invariant": "bden(P) == andf(visited) and wf(P) and isfresh(P) and typeis(P, 'PUBO') and "
                                                   "implies(ops_ancbelow(visited, gn()), keys_ancbelow(P, gn()))"}}
             if name == "AND" else {},
             note="arities 0..3 with mixed operand kinds; the recursive call is used by contract")

for name, f in (("NAND", "andf"), ("NOR", "orf"), ("XNOR", "xorf")):
    contract(M + name, props=["C07", "C06", "C19"],
             instances=_tuples(3),
             requires=["opsvalid(variables)", "all01(variables)"],
             returns=_restype,
             ensures=["bden(result) == 1 - %s(variables)" % f, "wf(result)", "isfresh(result)", _AFV])
