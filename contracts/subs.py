"""C16 / C19: subs on a model whose coefficients are plain numbers (the deductive engine's coefficients are reals:
`v.subs` raises AttributeError and the coefficient is kept) is a copy of the same class; the receiver is unchanged
(frame obligation), PCBO / PCSO keep their ancilla counter.  Symbolic (sympy) coefficients are outside the engine:
the commutation clause itself is carried by the non-interference obligations (DESIGN 6/C16) and the bounded clauses."""
from vf.qvc.contracts import contract
from contracts.dictarith import ALL, AF_RESULT1

contract("qubovert.utils._dict_arithmetic:DictArithmetic.subs", props=["C16", "C19"],
         instances=[{"self": "model:" + c, "args": "tuple:", "kwargs": "emptydict"} for c in ALL],
         requires=["wf(self)"],
         returns=lambda env, eng: "fresh:model:" + env["self"].cls.name,
         ensures=["den(result) == den(self)", "wf(result)", "isfresh(result)", "sameclass(result, self)", AF_RESULT1],
         loops={1: {"invariant": "den(d) == den_as(d, visited) and wf(d) and "
                                 "forall_key(lambda q: implies(has(d, q), has(visited, q))) and "
                                 "implies(keys_ancbelow(self, gn()), keys_ancbelow(d, gn()))"}})

for mod, cls in (("qubovert._pcbo", "PCBO"), ("qubovert._pcso", "PCSO")):
    contract("%s:%s.subs" % (mod, cls), props=["C16", "C19", "C14"],
             instances=[{"self": "model:" + c, "args": "tuple:", "kwargs": "emptydict"}
                        for c in (("PCBO", "PCSO") if cls == "PCBO" else ("PCSO",))],
             requires=["wf(self)"], returns=lambda env, eng: "fresh:model:" + env["self"].cls.name,
             ensures=["den(result) == den(self)", "wf(result)", "isfresh(result)", "sameclass(result, self)",
                      "result._ancilla == self._ancilla", AF_RESULT1])
