"""C05 base layer: item access, canonicalisation and arithmetic of the ten model classes.

Class-polymorphic methods are verified once per concrete class that inherits them."""
from vf.qvc.contracts import contract

LABELLED = ["PUBO", "PUSO", "QUBO", "QUSO", "PCBO", "PCSO"]
MATRIX = ["PUBOMatrix", "PUSOMatrix", "QUBOMatrix", "QUSOMatrix"]
ALL = LABELLED + MATRIX
BOOL = ["PUBO", "QUBO", "PCBO", "PUBOMatrix", "QUBOMatrix"]
SPIN = ["PUSO", "QUSO", "PCSO", "PUSOMatrix", "QUSOMatrix"]

BK = ["self._degree", "self._variables", "self._num_binary_variables"]
BK_BO = BK + ["self._mapping", "self._reverse_mapping", "self._next_label"]

# ---------------------------------------------------------------------------------- key validity / canonical keys
# Leaves on the Matrix side test `isinstance(k, int) and k >= 0` per label: labels are abstract in qvc, so the
# Matrix validity test is the uninterpreted predicate matvalid(key); its contract is ASSUMED here and checked by the
# bounded stand-in (C05.canonical / C05.keyerror clauses).
contract("qubovert.utils._pubomatrix:PUBOMatrix._check_key_valid", props=["C05"], trusted=True,
         instances=[{"key": "key"}], returns="none",
         raises=[("KeyError", "not keyvalid('PUBOMatrix', key)")],
         note="Matrix key validity (all labels non-negative ints) abstracted as matvalid(key); bounded-checked")

for cls in ("PUBO", "PUSO"):
    contract("qubovert._%s:%s._check_key_valid" % (cls.lower(), cls), props=["C05"],
             instances=[{"key": "key"}], returns="none")

contract("qubovert._qubo:QUBO._check_key_valid", props=["C05"], instances=[{"key": "key"}], returns="none",
         raises=[("KeyError", "not keyvalid('QUBO', key)")])
contract("qubovert._quso:QUSO._check_key_valid", props=["C05"], instances=[{"key": "key"}], returns="none",
         raises=[("KeyError", "not keyvalid('QUSO', key)")])
contract("qubovert.utils._qubomatrix:QUBOMatrix._check_key_valid", props=["C05"], instances=[{"key": "key"}],
         raises=[("KeyError", "not keyvalid('QUBOMatrix', key)")], returns="key", ensures=["result == bsq(key)"])
contract("qubovert.utils._qusomatrix:QUSOMatrix._check_key_valid", props=["C05"], instances=[{"key": "key"}],
         raises=[("KeyError", "not keyvalid('QUSOMatrix', key)")], returns="key", ensures=["result == ssq(key)"])

contract("qubovert.utils._pubomatrix:PUBOMatrix.squash_key", props=["C05"],
         instances=[{"cls": "class:" + c, "key": "key"} for c in BOOL],
         raises=[("KeyError", "not keyvalid(cls, key)")], returns="key", ensures=["result == sq(cls, key)"])
contract("qubovert.utils._pusomatrix:PUSOMatrix.squash_key", props=["C05"],
         instances=[{"cls": "class:" + c, "key": "key"} for c in SPIN],
         raises=[("KeyError", "not keyvalid(cls, key)")], returns="key", ensures=["result == sq(cls, key)"])

# ---------------------------------------------------------------------------------- item access
contract("qubovert.utils._dict_arithmetic:DictArithmetic.__getitem__", props=["C05"],
         instances=[{"self": "model:" + c, "key": "key"} for c in ALL],
         returns="real", ensures=["result == lookup(self, key)"])
contract("qubovert.utils._dict_arithmetic:DictArithmetic.__setitem__", props=["C05"],
         instances=[{"self": "model:" + c, "key": "key", "value": "real"} for c in ALL],
         returns="none", effects=[("store(self)", "store_put(store(self), key, value)")])

contract("qubovert.utils._pubomatrix:PUBOMatrix.__getitem__", props=["C05"],
         instances=[{"self": "model:" + c, "key": "key"} for c in ALL],
         raises=[("KeyError", "not keyvalid(self, key)")],
         returns="real", ensures=["result == lookup(self, sq(self, key))"])

contract("qubovert.utils._pubomatrix:PUBOMatrix.__setitem__", props=["C05", "C14"],
         instances=[{"self": "model:" + c, "key": "key", "value": "real"} for c in ALL],
         raises=[("KeyError", "not keyvalid(self, key)")],
         returns="none", effects=[("store(self)", "store_put(store(self), sq(self, key), value)")],
         modifies=BK,
         loops={1: {"invariant": "True"}})

contract("qubovert.utils._bo_parentclass:BO.__setitem__", props=["C05", "C14"],
         instances=[{"self": "model:" + c, "key": "key", "value": "real"} for c in LABELLED],
         raises=[("KeyError", "not keyvalid(self, key)")],
         returns="none", effects=[("store(self)", "store_put(store(self), sq(self, key), value)")],
         modifies=BK_BO,
         loops={1: {"invariant": "True"}})
