"""C05 base layer: item access, canonicalisation and arithmetic of the ten model classes.

Class-polymorphic methods are verified once per concrete class that inherits them."""
from vf.qvc.contracts import contract

LABELLED = ["PUBO", "PUSO", "QUBO", "QUSO", "PCBO", "PCSO"]
MATRIX = ["PUBOMatrix", "PUSOMatrix", "QUBOMatrix", "QUSOMatrix"]
ALL = LABELLED + MATRIX
BOOL = ["PUBO", "QUBO", "PCBO", "PUBOMatrix", "QUBOMatrix"]
SPIN = ["PUSO", "QUSO", "PCSO", "PUSOMatrix", "QUSOMatrix"]

# ancilla freshness travels through arithmetic: if no key of the operands mentions an ancilla name '__a<j>' with
# j >= gn() (gn(): ghost bound, arbitrary), no key of the result does
AF_INPLACE = "implies(old(keys_ancbelow(self, gn())) and keys_ancbelow(other, gn()), keys_ancbelow(self, gn()))"
AF_RESULT2 = "implies(keys_ancbelow(self, gn()) and keys_ancbelow(other, gn()), keys_ancbelow(result, gn()))"
AF_RESULT1 = "implies(keys_ancbelow(self, gn()), keys_ancbelow(result, gn()))"
AF_SELF1 = "implies(old(keys_ancbelow(self, gn())), keys_ancbelow(self, gn()))"

BK = ["self._degree", "self._variables", "self._num_binary_variables"]
BK_BO = BK + ["self._mapping", "self._reverse_mapping", "self._next_label"]
STORE_BK = ["self.<store>"] + BK_BO       # the terms and the variable bookkeeping, nothing else of the object

# ---------------------------------------------------------------------------------- key validity / canonical keys
# Leaves on the Matrix side test `isinstance(k, int) and k >= 0` per label: labels are abstract in qvc, so the
# Matrix validity test is the uninterpreted predicate matvalid(key); its contract is ASSUMED here and checked by the
# bounded stand-in (C05.canonical / C05.keyerror clauses).
contract("qubovert.utils._pubomatrix:PUBOMatrix._check_key_valid", props=["C05"], trusted=True,
         instances=[{"key": "key"}], returns="none",
         raises=[("KeyError", "not keyvalid('PUBOMatrix', key)")],
         note="Matrix key validity (all labels non-negative ints) abstracted as matvalid(key); bounded-checked")

for cls in ("PUBO", "PUSO"):
    contract("qubovert._%s:%s._check_key_valid" % (cls.lower(), cls), props=["C05"],
             instances=[{"key": "key"}], returns="none")

contract("qubovert._qubo:QUBO._check_key_valid", props=["C05"], instances=[{"key": "key"}], returns="none",
         raises=[("KeyError", "not keyvalid('QUBO', key)")])
contract("qubovert._quso:QUSO._check_key_valid", props=["C05"], instances=[{"key": "key"}], returns="none",
         raises=[("KeyError", "not keyvalid('QUSO', key)")])
contract("qubovert.utils._qubomatrix:QUBOMatrix._check_key_valid", props=["C05"], instances=[{"key": "key"}],
         raises=[("KeyError", "not keyvalid('QUBOMatrix', key)")], returns="key", ensures=["result == bsq(key)"])
contract("qubovert.utils._qusomatrix:QUSOMatrix._check_key_valid", props=["C05"], instances=[{"key": "key"}],
         raises=[("KeyError", "not keyvalid('QUSOMatrix', key)")], returns="key", ensures=["result == ssq(key)"])

contract("qubovert.utils._pubomatrix:PUBOMatrix.squash_key", props=["C05"],
         instances=[{"cls": "class:" + c, "key": "key"} for c in BOOL],
         raises=[("KeyError", "not keyvalid(cls, key)")], returns="key", ensures=["result == sq(cls, key)"])
contract("qubovert.utils._pusomatrix:PUSOMatrix.squash_key", props=["C05"],
         instances=[{"cls": "class:" + c, "key": "key"} for c in SPIN],
         raises=[("KeyError", "not keyvalid(cls, key)")], returns="key", ensures=["result == sq(cls, key)"])

# ---------------------------------------------------------------------------------- item access
contract("qubovert.utils._dict_arithmetic:DictArithmetic.__getitem__", props=["C05"],
         instances=[{"self": "model:" + c, "key": "key"} for c in ALL],
         returns="real", ensures=["result == lookup(self, key)"])
contract("qubovert.utils._dict_arithmetic:DictArithmetic.__setitem__", props=["C05"],
         instances=[{"self": "model:" + c, "key": "key", "value": "real"} for c in ALL],
         returns="none", effects=[("store(self)", "store_put(store(self), key, value)")])

contract("qubovert.utils._pubomatrix:PUBOMatrix.__getitem__", props=["C05"],
         instances=[{"self": "model:" + c, "key": "key"} for c in ALL],
         raises=[("KeyError", "not keyvalid(self, key)")],
         returns="real", ensures=["result == lookup(self, sq(self, key))"])

_VARS_GROW = [
    "implies(value == 0, seteq(self._variables, old(self._variables)) and "
    "self._num_binary_variables == old(self._num_binary_variables) and self._degree == old(self._degree))",
    "implies(value != 0, seteq(self._variables, union(old(self._variables), members(sq(self, key)))))",
    "implies(value != 0, self._degree >= klen(sq(self, key)))", "self._degree >= old(self._degree)",
    # exactly: the degree is raised to the length of the canonical key, and only by a non-zero value
    "implies(value != 0, self._degree == (old(self._degree) if old(self._degree) >= klen(sq(self, key)) else klen(sq(self, key))))",
    # the reported variables stay an upper bound of the labels of the stored keys
    "implies(old(keys_within(self, self._variables)), keys_within(self, self._variables))",
    # the counter follows the set: if it was its cardinality before, it is afterwards
    "self._num_binary_variables - setcard(self._variables) == "
    "old(self._num_binary_variables) - old(setcard(self._variables))",
]

contract("qubovert.utils._pubomatrix:PUBOMatrix.__setitem__", props=["C05", "C14"],
         instances=[{"self": "model:" + c, "key": "key", "value": "real"} for c in ALL],
         raises=[("KeyError", "not keyvalid(self, key)")],
         returns="none", effects=[("store(self)", "store_put(store(self), sq(self, key), value)")],
         modifies=BK, ensures=_VARS_GROW,
         loops={1: {"invariant": "seteq(self._variables, union(pre(self._variables), members(visited))) and "
                                 "self._num_binary_variables - setcard(self._variables) == "
                                 "pre(self._num_binary_variables) - pre(setcard(self._variables))"}})

_UNMAPPED = ("same_store(self._mapping, {0}(store(self._mapping))) and "
             "same_store(self._reverse_mapping, {0}(store(self._reverse_mapping))) and self._next_label == {0}(self._next_label)")
_MAP_INV = [
    # mapping and reverse mapping stay mutually inverse enumerations of 0 .. next_label - 1
    "implies(old(mapinv(self)), mapinv(self))",
    # a key without labels (the constant term) enumerates nothing
    "implies(klen(key) == 0, %s)" % _UNMAPPED.format("old"),
    # mapping enumerates exactly the reported variables, and the next free label is the number of mapped labels
    "implies(old(seteq(lset(self._mapping), self._variables)), seteq(lset(self._mapping), self._variables))",
    "implies(old(domcard(self._mapping) == self._next_label), domcard(self._mapping) == self._next_label)",
]

contract("qubovert.utils._bo_parentclass:BO.__setitem__", props=["C05", "C14"],
         instances=[{"self": "model:" + c, "key": "key", "value": "real"} for c in LABELLED],
         raises=[("KeyError", "not keyvalid(self, key)")],
         returns="none", effects=[("store(self)", "store_put(store(self), sq(self, key), value)")],
         modifies=BK_BO, ensures=_VARS_GROW + _MAP_INV,
         loops={1: {"invariant": "seteq(lset(self._mapping), union(pre(lset(self._mapping)), "
                                 "inter(self._variables, members(visited)))) and "
                                 "domcard(self._mapping) - self._next_label == pre(domcard(self._mapping)) - pre(self._next_label) and "
                                 "implies(klen(key) == 0, %s) and implies(pre(mapinv(self)), mapinv(self))" % _UNMAPPED.format("pre")}})

# ---------------------------------------------------------------------------------- construction, clear, copy
RESET = BK_BO + ["self._name", "self._ancilla", "self._constraints"]
PTYPES = ["PUBO", "PUSO", "PCBO", "PCSO", "PUBOMatrix", "PUSOMatrix"]


def _shape_init(eng, loc):
    from vf.qvc.values import DictVal, PObj
    args, kwargs = loc.get("args", ()), loc.get("kwargs", {})
    if kwargs:
        return False
    if len(args) == 0:
        return True
    return len(args) == 1 and isinstance(args[0], (DictVal, PObj)) and (not isinstance(args[0], PObj) or args[0].store is not None)


contract("qubovert.utils._dict_arithmetic:DictArithmetic.__init__", props=["C05", "C14", "C19"],
         instances=[{"self": "newmodel:" + c, "args": a, "kwargs": "emptydict"} for c in ALL
                    for a in ["tuple:", "tuple:termdict"] + ["tuple:model:" + o for o in (BOOL if c in BOOL else SPIN)]],
         call_when=_shape_init,
         requires=["is_empty(self)", "len(args) == 0 or keysvalid(self, args[0])", "len(args) == 0 or distinct(self, args[0])",
                   "bk(self)", "mapinv(self)"],
         returns="none", modifies=["self"],
         ensures=["den(self) == (den_as(self, args[0]) if len(args) == 1 else 0)", "wf(self)",
                  "len(args) == 1 or is_empty(self)", "bk(self)", "mapinv(self)",
                  "len(args) == 0 or implies(keys_ancbelow(args[0], gn()), keys_ancbelow(self, gn()))"],
         loops={1: {"invariant": "den(self) == den_as(self, visited) and wf(self) and bk(self) and mapinv(self) and "
                                 "implies(keys_ancbelow(args[0], gn()), keys_ancbelow(self, gn()))"}})

contract("qubovert.utils._pubomatrix:PUBOMatrix.clear", props=["C05", "C14"],
         instances=[{"self": "model:" + c} for c in ALL],
         returns="none", effects=[("store(self)", "empty_store()")], modifies=RESET, ensures=["bk(self)", "mapinv(self)"])

contract("qubovert.utils._dict_arithmetic:DictArithmetic.copy", props=["C05", "C14", "C19"],
         instances=[{"self": "model:" + c} for c in ALL],
         requires=["wf(self)"],
         returns=lambda env, eng: "fresh:model:" + env["self"].cls.name,
         ensures=["den(result) == den(self)", "wf(result)", "isfresh(result)", "sameclass(result, self)", "bk(result)",
                  "mapinv(result)", "anc_of(result) == anc_of(self)", AF_RESULT1])

# ---------------------------------------------------------------------------------- in-place arithmetic
def _others(c):
    # the other operand: a raw term dict, a number, or a model of *any* class of the same kind (boolean / spin) -
    # PCBO += PUBO, PUBO * PCBO and the like occur inside the constraint methods
    same = BOOL if c in BOOL else SPIN
    return ["termdict", "real"] + ["model:" + o for o in same]


for op, sign in (("__iadd__", "+"), ("__isub__", "-")):
    contract("qubovert.utils._dict_arithmetic:DictArithmetic." + op, props=["C05", "C14"],
             instances=[{"self": "model:" + c, "other": o} for c in ALL for o in _others(c)],
             requires=["wf(self)", "isnumber(other) or keysvalid(self, other)",
                       "isnumber(other) or distinct(self, other)"],
             returns="param:self", modifies=STORE_BK,
             ensures=["den(self) == old(den(self)) %s (other if isnumber(other) else den_as(self, other))" % sign,
                      "wf(self)", "result is self", "implies(old(bk(self)), bk(self))", AF_INPLACE,
                      "implies(old(mapinv(self)), mapinv(self))"],
             loops={1: {"invariant": "den(self) == old(den(self)) %s den_as(self, visited) and wf(self) and "
                                     "implies(old(bk(self)), bk(self)) and implies(old(mapinv(self)), mapinv(self)) and " % sign + AF_INPLACE}})

contract("qubovert.utils._dict_arithmetic:DictArithmetic.__imul__", props=["C05", "C14"],
         instances=[{"self": "model:" + c, "other": o} for c in PTYPES for o in _others(c)] +
                   [{"self": "model:" + c, "other": "real"} for c in ("QUBO", "QUSO", "QUBOMatrix", "QUSOMatrix")],
         requires=["wf(self)", "isnumber(other) or keysvalid(self, other)",
                   "isnumber(other) or distinct(self, other)"],
         returns="param:self", modifies=STORE_BK,
         ensures=["den(self) == old(den(self)) * (other if isnumber(other) else den_as(self, other))",
                  "wf(self)", "result is self", "implies(old(bk(self)), bk(self))", AF_INPLACE,
                  "implies(old(mapinv(self)), mapinv(self))"],
         loops={1: {"invariant": "den(self) == den_as(self, visited) * den_as(self, other) and wf(self) and implies(old(bk(self)), bk(self)) and implies(old(mapinv(self)), mapinv(self)) and " + AF_INPLACE},
                2: {"invariant": "den(self) == den_as(self, visited1) * den_as(self, other) + "
                                 "v * mono_as(self, k) * den_as(self, visited2) and wf(self) and implies(old(bk(self)), bk(self)) and implies(old(mapinv(self)), mapinv(self)) and " + AF_INPLACE},
                3: {"invariant": "den(self) == den_as(self, coll) + (other - 1) * den_as(self, visited) and wf(self) and implies(old(bk(self)), bk(self)) and implies(old(mapinv(self)), mapinv(self)) and " + AF_SELF1 + " and "
                                 "forall_key(lambda q: implies(not has(visited, q), has(self, q) == has(coll, q) and "
                                 "lookup(self, q) == lookup(coll, q)))"}})

contract("qubovert.utils._dict_arithmetic:DictArithmetic.__itruediv__", props=["C05", "C14"],
         instances=[{"self": "model:" + c, "other": "real"} for c in ALL],
         requires=["wf(self)", "other != 0"],
         returns="param:self", modifies=STORE_BK,
         ensures=["den(self) * other == old(den(self))", "wf(self)", "result is self", "implies(old(bk(self)), bk(self))", AF_SELF1,
                  "implies(old(mapinv(self)), mapinv(self))"],
         loops={1: {"invariant": "den(self) * other == den_as(self, coll) * other + (1 - other) * den_as(self, visited) and wf(self) and implies(old(bk(self)), bk(self)) and implies(old(mapinv(self)), mapinv(self)) and " + AF_SELF1 + " and "
                                 "forall_key(lambda q: implies(not has(visited, q), has(self, q) == has(coll, q) and "
                                 "lookup(self, q) == lookup(coll, q)))"}})

contract("qubovert.utils._dict_arithmetic:DictArithmetic.__ipow__", props=["C05", "C14"],
         instances=[{"self": "model:" + c, "exponent": "const:%d" % e} for c in PTYPES for e in (1, 2, 3)] +
                   [{"self": "model:" + c, "exponent": "const:1"} for c in ("QUBO", "QUSO", "QUBOMatrix", "QUSOMatrix")],
         requires=["wf(self)"],
         returns="param:self", modifies=STORE_BK,
         ensures=["den(self) == old(den(self)) ** exponent", "wf(self)", "result is self", "implies(old(bk(self)), bk(self))", AF_SELF1,
                  "implies(old(mapinv(self)), mapinv(self))"],
         note="exponents 1..3 (concretely unrolled); symbolic exponents are left to the bounded stand-in")
contract("qubovert.utils._dict_arithmetic:DictArithmetic.__ipow__#err", props=["C05"], trusted=True,
         instances=[], note="placeholder") if False else None

# ---------------------------------------------------------------------------------- copying wrappers
def _wrap(name, instances, ens, extra_req=(), minv=False):
    binary = any("other" in i for i in instances)
    contract("qubovert.utils._dict_arithmetic:DictArithmetic." + name, props=["C05", "C19"],
             instances=instances,
             requires=["wf(self)"] + list(extra_req),
             returns=lambda env, eng: "fresh:model:" + env["self"].cls.name,
             ensures=[ens, "wf(result)", "isfresh(result)", "sameclass(result, self)", "bk(result)"] +
                     (["mapinv(result)"] if minv else []) + [AF_RESULT2 if binary else AF_RESULT1])


_OTH = "(other if isnumber(other) else den_as(self, other))"
_REQ = ["isnumber(other) or keysvalid(self, other)", "isnumber(other) or distinct(self, other)"]
_all_oth = [{"self": "model:" + c, "other": o} for c in ALL for o in _others(c)]
_p_oth = [{"self": "model:" + c, "other": o} for c in PTYPES for o in _others(c)] + \
         [{"self": "model:" + c, "other": "real"} for c in ("QUBO", "QUSO", "QUBOMatrix", "QUSOMatrix")]
_wrap("__add__", _all_oth, "den(result) == den(self) + " + _OTH, _REQ)
_wrap("__radd__", _all_oth, "den(result) == den(self) + " + _OTH, _REQ)
_wrap("__sub__", _all_oth, "den(result) == den(self) - " + _OTH, _REQ)
_wrap("__rsub__", _all_oth, "den(result) == " + _OTH + " - den(self)", _REQ)
_wrap("__mul__", _p_oth, "den(result) == den(self) * " + _OTH, _REQ)
_wrap("__rmul__", _p_oth, "den(result) == den(self) * " + _OTH, _REQ)
_wrap("__truediv__", [{"self": "model:" + c, "other": "real"} for c in ALL], "den(result) * other == den(self)", ["other != 0"])
_wrap("__pow__", [{"self": "model:" + c, "exponent": "const:%d" % e} for c in PTYPES for e in (1, 2, 3)],
      "den(result) == den(self) ** exponent")
_wrap("__neg__", [{"self": "model:" + c} for c in ALL], "den(result) == -den(self)")
_wrap("__pos__", [{"self": "model:" + c} for c in ALL], "den(result) == den(self)")

# ---------------------------------------------------------------------------------- update / refresh (C14)
contract("qubovert.utils._dict_arithmetic:DictArithmetic.update", props=["C14"],
         instances=[{"self": "model:" + c, "args": a, "kwargs": "emptydict"}
                    for c in ("PUBO", "PUSO", "QUBO", "QUSO", "PUBOMatrix", "PUSOMatrix", "QUBOMatrix", "QUSOMatrix")
                    for a in ("tuple:termdict", "tuple:model:" + c)],
         requires=["wf(self)", "keysvalid(self, args[0])", "distinct(self, args[0])"],
         returns="none", modifies=STORE_BK,
         ensures=["wf(self)", "implies(old(bk(self)), bk(self))", "implies(old(mapinv(self)), mapinv(self))"],
         loops={1: {"invariant": "wf(self) and implies(old(bk(self)), bk(self)) and implies(old(mapinv(self)), mapinv(self))"}})

contract("qubovert.utils._pubomatrix:PUBOMatrix.refresh", props=["C14"],
         instances=[{"self": "model:" + c} for c in ALL],
         requires=["wf(self)"],
         returns="none", modifies=["self"],
         ensures=["den(self) == old(den(self))", "wf(self)", "bk(self)", "anc_of(self) == old(anc_of(self))", AF_SELF1],
         note="refresh() leaves the represented function unchanged and re-establishes the bookkeeping invariant; "
              "exactness of variables/degree after refresh is bounded (C14.refresh_exact)")
