"""C19: the read-only views of a model are independent copies ("mapping, reverse_mapping, variables ... return
objects independent of the model"): the result is a fresh object with the same contents, and the model is unchanged
(frame obligation).  Since the result is fresh, a later edit of it cannot reach the model and vice versa."""
from vf.qvc.contracts import contract
from contracts.dictarith import LABELLED, ALL

B = "qubovert.utils._bo_parentclass:BO."
contract(B + "mapping", props=["C19", "C14"], instances=[{"self": "model:" + c} for c in LABELLED],
         effects=[("result", "dictcopy(self._mapping)")], ensures=["isfresh(result)", "same_store(result, self._mapping)"])
contract(B + "reverse_mapping", props=["C19", "C14"], instances=[{"self": "model:" + c} for c in LABELLED],
         effects=[("result", "dictcopy(self._reverse_mapping)")],
         ensures=["isfresh(result)", "same_store(result, self._reverse_mapping)"])

P = "qubovert.utils._pubomatrix:PUBOMatrix."
contract(P + "variables", props=["C19", "C14"], instances=[{"self": "model:" + c} for c in ALL],
         effects=[("result", "setcopy(self._variables)")], ensures=["isfresh(result)", "seteq(result, self._variables)"])
for cls, mod in (("PCBO", "qubovert._pcbo"), ("PCSO", "qubovert._pcso")):
    contract("%s:%s.num_ancillas" % (mod, cls), props=["C19", "C14"], instances=[{"self": "model:" + cls}],
             returns="int", ensures=["result == self._ancilla"])
