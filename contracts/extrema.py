"""C15 (and the enclosure premise of C02/C03): approximate extrema."""
from vf.qvc.contracts import contract

_DICTLIKE_B = [{"P": "termdict"}, {"P": "model:PUBO"}, {"P": "model:QUBO"}, {"P": "model:PCBO"},
               {"P": "model:PUBOMatrix"}, {"P": "model:QUBOMatrix"}]
_DICTLIKE_S = [{"H": "termdict"}, {"H": "model:PUSO"}, {"H": "model:QUSO"}, {"H": "model:PCSO"},
               {"H": "model:PUSOMatrix"}, {"H": "model:QUSOMatrix"}]

contract(
    "qubovert.utils._approximate_extrema:approximate_pubo_extrema",
    props=["C15", "C02"],
    instances=_DICTLIKE_B,
    returns="tuple:real,real",
    ensures=["result[0] <= bden(P)", "bden(P) <= result[1]",
             "implies(allconst(P), result[0] == bden(P) and result[1] == bden(P))"],
    loops={1: {"invariant": "min_ <= bden(visited) and bden(visited) <= max_ and "
                            "implies(allconst(visited), min_ == bden(visited) and max_ == bden(visited))"}},
)

contract(
    "qubovert.utils._approximate_extrema:approximate_puso_extrema",
    props=["C15", "C03"],
    instances=_DICTLIKE_S,
    returns="tuple:real,real",
    ensures=["result[0] <= sden(H)", "sden(H) <= result[1]",
             "implies(allconst(H), result[0] == sden(H) and result[1] == sden(H))"],
    loops={1: {"invariant": "min_ <= sden(visited) and sden(visited) <= max_ and "
                            "implies(allconst(visited), min_ == sden(visited) and max_ == sden(visited))"}},
)
