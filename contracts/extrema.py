"""C15 (and the enclosure premise of C02/C03): approximate extrema."""
from vf.qvc.contracts import contract

_DICTLIKE_B = [{"P": "termdict"}, {"P": "model:PUBO"}, {"P": "model:QUBO"}, {"P": "model:PCBO"},
               {"P": "model:PUBOMatrix"}, {"P": "model:QUBOMatrix"}]
_DICTLIKE_S = [{"H": "termdict"}, {"H": "model:PUSO"}, {"H": "model:QUSO"}, {"H": "model:PCSO"},
               {"H": "model:PUSOMatrix"}, {"H": "model:QUSOMatrix"}]

contract(
    "qubovert.utils._approximate_extrema:approximate_pubo_extrema",
    props=["C15", "C02"],
    instances=_DICTLIKE_B,
    returns="tuple:real,real",
    ensures=["result[0] <= bden(P)", "bden(P) <= result[1]",
             "implies(allconst(P), result[0] == bden(P) and result[1] == bden(P))"],
    loops={1: {"invariant": "min_ <= bden(visited) and bden(visited) <= max_ and "
                            "implies(allconst(visited), min_ == bden(visited) and max_ == bden(visited))"}},
)

contract(
    "qubovert.utils._approximate_extrema:approximate_puso_extrema",
    props=["C15", "C03"],
    instances=_DICTLIKE_S,
    returns="tuple:real,real",
    ensures=["result[0] <= sden(H)", "sden(H) <= result[1]",
             "implies(allconst(H), result[0] == sden(H) and result[1] == sden(H))"],
    loops={1: {"invariant": "min_ <= sden(visited) and sden(visited) <= max_ and "
                            "implies(allconst(visited), min_ == sden(visited) and max_ == sden(visited))"}},
)

# the two degree-2 names are the same functions
contract("qubovert.utils._approximate_extrema:approximate_qubo_extrema", props=["C15"],
         instances=[{"Q": d["P"]} for d in _DICTLIKE_B], returns="tuple:real,real",
         ensures=["result[0] <= bden(Q)", "bden(Q) <= result[1]",
                  "implies(allconst(Q), result[0] == bden(Q) and result[1] == bden(Q))"])
contract("qubovert.utils._approximate_extrema:approximate_quso_extrema", props=["C15"],
         instances=[{"L": d["H"]} for d in _DICTLIKE_S], returns="tuple:real,real",
         ensures=["result[0] <= sden(L)", "sden(L) <= result[1]",
                  "implies(allconst(L), result[0] == sden(L) and result[1] == sden(L))"])

# ---- anneal_temperature_range: T0 >= Tf >= 0, (0, 0) for a model without variables
# A model object is required to report (at least) the labels of its stored keys as variables - the C14 invariant.
_ADM = ("start_flip_prob < 0 or start_flip_prob >= 1 or end_flip_prob < 0 or end_flip_prob >= 1 or "
        "end_flip_prob > start_flip_prob")
contract("qubovert.sim._anneal_temperature_range:anneal_temperature_range", props=["C15"],
         instances=[{"model": d["H"], "start_flip_prob": "real", "end_flip_prob": "real", "spin": "const:True"}
                    for d in _DICTLIKE_S] +
                   [{"model": d["P"], "start_flip_prob": "real", "end_flip_prob": "real", "spin": "const:False"}
                    for d in _DICTLIKE_B],
         requires=["wf(model) if not typeis(model, 'dict') else True",
                   "keys_within(model, model._variables) if not typeis(model, 'dict') else True"],
         raises=[("ValueError", _ADM)],
         returns="tuple:real,real",
         ensures=["result[0] >= result[1]", "result[1] >= 0",
                  "implies(allconst(model), result[0] == 0 and result[1] == 0)"],
         note="log is an uninterpreted monotone function, negative on (0, 1); min / max / sum over the terms are the "
              "extremal folds of vf/qvc/folds.py (bounds instantiated at witness keys and labels)")
