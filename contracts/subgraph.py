"""C18: subvalue / subgraph fold fixed variables into the coefficients.

The ghost assignment is the *extended* assignment: it takes the substituted values on the fixed labels
(valslinked / connlinked); the result has no fixed label left (keys_avoid), so its value at the ghost assignment is
its value at the assignment of the remaining variables."""
from vf.qvc.contracts import contract

M = "qubovert.utils._subgraph:"
BOOLG = ["termdict", "model:PUBO", "model:QUBO", "model:PCBO", "model:PUBOMatrix", "model:QUBOMatrix"]
SPING = ["model:PUSO", "model:QUSO", "model:PCSO", "model:PUSOMatrix", "model:QUSOMatrix"]


def _rt(env, eng):
    G = env["G"]
    return "fresh:model:" + G.cls.name if hasattr(G, "cls") else "termdict"



contract(M + "subvalue", props=["C18", "C19"],
         instances=[{"values": "valmap", "G": g} for g in BOOLG + SPING],
         requires=["wf(G) if not typeis(G, 'dict') else True",
                   "valslinked(values, isspin(G))"],
         returns=_rt,
         ensures=["denlike(G, result) == denlike(G, G)", "sameclass(result, G)",
                  "keys_avoid(result, lset(values))"],
         loops={1: {"invariant": "denlike(G, D) == denlike(G, visited) and keys_avoid(D, lset(values)) and "
                                 "(wf(D) if not typeis(G, 'dict') else True)"}})

contract(M + "subgraph", props=["C18", "C19"],
         instances=[{"G": g, "nodes": "labelset", "connections": c} for g in BOOLG + SPING for c in ("valmap", "none")],
         requires=["wf(G) if not typeis(G, 'dict') else True",
                   "connlinked(nodes, connections, isspin(G))"],
         returns=_rt,
         ensures=["denlike(G, result) == denlike(G, G) - constpart(G)", "sameclass(result, G)",
                  "keys_within(result, nodes)"],
         loops={1: {"invariant": "denlike(G, D) == denlike(G, visited) - constpart(visited) and keys_within(D, nodes) and "
                                 "(wf(D) if not typeis(G, 'dict') else True)"}})

# the methods delegate
contract("qubovert.utils._dict_arithmetic:DictArithmetic.subvalue", props=["C18"],
         instances=[{"self": g, "values": "valmap"} for g in BOOLG[1:] + SPING],
         requires=["wf(self)", "valslinked(values, isspin(self))"],
         returns=lambda env, eng: "fresh:model:" + env["self"].cls.name,
         ensures=["den(result) == den(self)", "sameclass(result, self)", "keys_avoid(result, lset(values))"])
contract("qubovert.utils._dict_arithmetic:DictArithmetic.subgraph", props=["C18"],
         instances=[{"self": g, "nodes": "labelset", "connections": c} for g in BOOLG[1:] + SPING for c in ("valmap", "none")],
         requires=["wf(self)", "connlinked(nodes, connections, isspin(self))"],
         returns=lambda env, eng: "fresh:model:" + env["self"].cls.name,
         ensures=["den(result) == den(self) - constpart(self)", "sameclass(result, self)", "keys_within(result, nodes)"])
