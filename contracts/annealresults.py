"""C13: AnnealResults keeps `best` minimal under every list operation (multiset abstraction, vf/qvc/lists.py).

inv(self) = best_ok(self): best is None exactly when the collection is empty, otherwise best is an element whose
value is the minimum. Derived collections are built by the constructor loop of appends, so their invariant is the
constructor's postcondition whatever the source iterable yields. Order-dependent clauses (sort order, slice
contents, to_boolean/to_spin round trip on states) are bounded only."""
from vf.qvc.contracts import contract

M = "qubovert.sim._anneal_results:"
R = "results"

contract(M + "_recompute_best", props=["C13"], instances=[{"results": R}],
         returns="optrid", ensures=["best_ok(results, result)"],
         loops={1: {"invariant": "best_ok(visited, best)", "vars": {"best": "optrid"}}})

contract(M + "AnnealResults.__init__", props=["C13"],
         instances=[{"self": "newresults", "iterable": k} for k in ("const:()", "resiter", R)],
         returns="none", modifies=["self"], ensures=["best_ok(self)"],
         loops={1: {"invariant": "best_ok(self)"}})

for name, inst in (("append", {"self": R, "result": "rid"}),
                   ("insert", {"self": R, "index": "int", "result": "rid"}),
                   ("add_state", {"self": R, "state": "none", "value": "real", "spin": "bool"}),
                   ("clear", {"self": R})):
    contract(M + "AnnealResults." + name, props=["C13"], instances=[inst],
             requires=["best_ok(self)"], returns="none", modifies=["self"], ensures=["best_ok(self)"])

contract(M + "AnnealResults.remove", props=["C13"], instances=[{"self": R, "result": "rid"}],
         requires=["best_ok(self)"], returns="none", modifies=["self"], ensures=["best_ok(self)"],
         may_raise=["ValueError"])      # list.remove may raise ValueError exactly as a plain list does
contract(M + "AnnealResults.pop", props=["C13"], instances=[{"self": R, "index": "int"}],
         requires=["best_ok(self)"], returns="rid", modifies=["self"], ensures=["best_ok(self)"],
         may_raise=["IndexError"])
for name in ("__setitem__", "__delitem__"):
    for idx in ("int", "slice"):
        pass
contract(M + "AnnealResults.sort", props=["C13"], instances=[{"self": R}], inherited=[],
         requires=["best_ok(self)"], returns="none", modifies=["self"], ensures=["best_ok(self)"],
         note="inherited from list: a permutation, checked through the trusted list specification")
contract(M + "AnnealResults.__setitem__", props=["C13"], inherited=["index", "value"],
         instances=[{"self": R, "index": "int", "value": "rid"}, {"self": R, "index": "slice", "value": "resiter"}],
         requires=["best_ok(self)"], returns="none", modifies=["self"], ensures=["best_ok(self)"],
         may_raise=["IndexError"])
contract(M + "AnnealResults.__delitem__", props=["C13"], inherited=["index"],
         instances=[{"self": R, "index": "int"}, {"self": R, "index": "slice"}],
         requires=["best_ok(self)"], returns="none", modifies=["self"], ensures=["best_ok(self)"],
         may_raise=["IndexError"])

for name in ("extend", "__iadd__"):
    contract(M + "AnnealResults." + name, props=["C13"],
             instances=[{"self": R, "other": R}, {"self": R, "other": "resiter"}],
             requires=["best_ok(self)", "best_ok(other) if typeis(other, 'AnnealResults') else True",
                       "distinct(self, other)"],
             returns=("param:self" if name == "__iadd__" else "none"), modifies=["self"], ensures=["best_ok(self)"],
             loops={1: {"invariant": "best_ok(self)"}})

def _slice_index(eng, loc):
    i = loc.get("index")
    return getattr(i, "t", None) == "slice"


for name, inst in (("copy", {"self": R}), ("to_boolean", {"self": R}), ("to_spin", {"self": R}),
                   ("__add__", {"self": R, "other": "resiter"}), ("__mul__", {"self": R, "other": "int"}),
                   ("__getitem__", {"self": R, "index": "slice"})):
    contract(M + "AnnealResults." + name, props=["C13"], instances=[inst],
             requires=["best_ok(self)"], returns="fresh:results",
             ensures=["best_ok(result)", "typeis(result, 'AnnealResults')"],
             # res[i] with an integer index is not summarised by this contract: the body is executed at the call site
             # (list.__getitem__ of the list specification: IndexError or an element of the record)
             call_when=(_slice_index if name == "__getitem__" else None))
