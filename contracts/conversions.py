"""C04: boolean/spin conversions preserve the function under the fixed correspondence x = (1 - z) / 2."""
from vf.qvc.contracts import contract

M = "qubovert.utils._conversions:"


def _rtype(matrix_in, matrix_out, labelled_out):
    def f(env, eng):
        from vf.qvc.builtins import class_name_of
        v = [x for x in env.values()][0]
        return "fresh:model:" + (matrix_out if class_name_of(eng, v) == matrix_in else labelled_out)
    return f


def _typerule(arg, matrix_in, matrix_out, labelled_out):
    return "typeis(result, '%s') if typeis(%s, '%s') else typeis(result, '%s')" % (matrix_out, arg, matrix_in, labelled_out)


# ---------------------------------------------------------------- quadratic closed forms
contract(M + "qubo_to_quso", props=["C04", "C19"],
         instances=[{"Q": k} for k in ("termdict", "model:QUBOMatrix", "model:QUBO", "model:PUBO", "model:PUBOMatrix")],
         requires=["wf(Q) if not typeis(Q, 'dict') else True", "keysvalid('QUBO', Q)"],
         returns=_rtype("QUBOMatrix", "QUSOMatrix", "QUSO"),
         ensures=["sden(result) == bden(Q)", "wf(result)", "isfresh(result)", _typerule("Q", "QUBOMatrix", "QUSOMatrix", "QUSO")],
         loops={1: {"invariant": "sden(L) == bden(visited) and wf(L)"}})

contract(M + "quso_to_qubo", props=["C04", "C19"],
         instances=[{"L": k} for k in ("termdict", "model:QUSOMatrix", "model:QUSO", "model:PUSO", "model:PUSOMatrix")],
         requires=["wf(L) if not typeis(L, 'dict') else True", "keysvalid('QUSO', L)"],
         returns=_rtype("QUSOMatrix", "QUBOMatrix", "QUBO"),
         ensures=["bden(result) == sden(L)", "wf(result)", "isfresh(result)", _typerule("L", "QUSOMatrix", "QUBOMatrix", "QUBO")],
         loops={1: {"invariant": "bden(Q) == sden(visited) and wf(Q)"}})

# ---------------------------------------------------------------- term-by-term expansions (recursive generators)
contract(M + "pubo_to_puso.<locals>.generate_new_key_value", props=["C04", "C19"],
         instances=[{"k": "key"}],
         gen={"item": ("key", "value"), "kinds": ("key", "real"), "sum": "value * smono(key)", "total": "bmono(k)",
              "each": "implies(matvalid(k), matvalid(key)) and keyanc(key) <= keyanc(k) and klen(key) <= klen(k)"},
         decreases="klen(k)",
         loops={1: {"invariant": "yielded == xv(k[0]) * visited"}})

contract(M + "puso_to_pubo.<locals>.generate_new_key_value", props=["C04", "C19"],
         instances=[{"k": "key"}],
         gen={"item": ("key", "value"), "kinds": ("key", "real"), "sum": "value * bmono(key)", "total": "smono(k)",
              "each": "implies(matvalid(k), matvalid(key)) and keyanc(key) <= keyanc(k)"},
         decreases="klen(k)",
         loops={1: {"invariant": "yielded == zv(k[0]) * visited"}})

contract(M + "pubo_to_puso", props=["C04", "C19"],
         instances=[{"P": k} for k in ("termdict", "model:PUBOMatrix", "model:PUBO", "model:PCBO", "model:QUBO", "model:QUBOMatrix")],
         requires=["wf(P) if not typeis(P, 'dict') else True"],
         returns=_rtype("PUBOMatrix", "PUSOMatrix", "PUSO"),
         ensures=["sden(result) == bden(P)", "wf(result)", "isfresh(result)", _typerule("P", "PUBOMatrix", "PUSOMatrix", "PUSO"),
                  "implies(keys_ancbelow(P, gn()), keys_ancbelow(result, gn()))",
                  # the result reports (at least) the labels of its terms as variables, and a model without
                  # non-constant terms converts to one without
                  "keys_within(result, result._variables)", "implies(allconst(P), allconst(result))"],
         loops={1: {"invariant": "sden(H) == bden(visited) and wf(H) and implies(keys_ancbelow(P, gn()), keys_ancbelow(H, gn())) and "
                                 "keys_within(H, H._variables) and implies(allconst(visited), allconst(H))"},
                2: {"invariant": "sden(H) == bden(visited1) + v * visited and wf(H) and implies(keys_ancbelow(P, gn()), keys_ancbelow(H, gn())) and "
                                 "keys_within(H, H._variables) and implies(allconst(visited1) and klen(k) == 0, allconst(H))"}})

contract(M + "puso_to_pubo", props=["C04", "C19"],
         instances=[{"H": k} for k in ("termdict", "model:PUSOMatrix", "model:PUSO", "model:PCSO", "model:QUSO", "model:QUSOMatrix")],
         requires=["wf(H) if not typeis(H, 'dict') else True"],
         returns=_rtype("PUSOMatrix", "PUBOMatrix", "PUBO"),
         ensures=["bden(result) == sden(H)", "wf(result)", "isfresh(result)", _typerule("H", "PUSOMatrix", "PUBOMatrix", "PUBO"),
                  "implies(keys_ancbelow(H, gn()), keys_ancbelow(result, gn()))"],
         loops={1: {"invariant": "bden(P) == sden(visited) and wf(P) and implies(keys_ancbelow(H, gn()), keys_ancbelow(P, gn()))"},
                2: {"invariant": "bden(P) == sden(visited1) + v * visited and wf(P) and implies(keys_ancbelow(H, gn()), keys_ancbelow(P, gn()))"}})
