"""C05: value functions and .value methods equal direct evaluation of the polynomial.

The assignment argument is the ghost assignment itself (x[i] == xval(i), z[i] == zval(i)); it is total, i.e. the
contracts assume the assignment covers every label of the model (the property's domain)."""
from vf.qvc.contracts import contract

_B = ["termdict", "model:PUBO", "model:QUBO", "model:PCBO", "model:PUBOMatrix", "model:QUBOMatrix"]
_S = ["termdict", "model:PUSO", "model:QUSO", "model:PCSO", "model:PUSOMatrix", "model:QUSOMatrix"]


def _inst(argname, akinds, dname, dkinds):
    return [{argname: a, dname: d} for a in akinds for d in dkinds]


contract("qubovert.utils._values:pubo_value", props=["C05"],
         instances=_inst("x", ["bassign", "bassign_seq"], "P", _B),
         returns="real", ensures=["result == bden(P)"], comps={1: {"fold": "bden"}})

contract("qubovert.utils._values:qubo_value", props=["C05"],
         instances=_inst("x", ["bassign", "bassign_seq"], "Q", _B),
         requires=["deg2(Q)"],
         returns="real", ensures=["result == bden(Q)"], comps={1: {"fold": "bden"}})

contract("qubovert.utils._values:puso_value", props=["C05"],
         instances=_inst("z", ["sassign", "sassign_seq"], "H", _S),
         returns="real", ensures=["result == sden(H)"], comps={1: {"fold": "sden"}})

contract("qubovert.utils._values:quso_value", props=["C05"],
         instances=_inst("z", ["sassign", "sassign_seq"], "L", _S),
         requires=["deg2(L)"],
         returns="real", ensures=["result == sden(L)"], comps={1: {"fold": "sden"}})

# .value methods dispatch to the value functions (checked against the callee contracts)
for cls, arg in (("PUBOMatrix", "x"), ("QUBOMatrix", "x")):
    for k in ("PUBOMatrix", "PUBO", "PCBO") if cls == "PUBOMatrix" else ("QUBOMatrix", "QUBO"):
        pass

contract("qubovert.utils._pubomatrix:PUBOMatrix.value", props=["C05"],
         instances=[{"self": "model:" + k, "x": a} for k in ("PUBOMatrix", "PUBO", "PCBO") for a in ("bassign", "bassign_seq")],
         returns="real", ensures=["result == bden(self)"])
contract("qubovert.utils._qubomatrix:QUBOMatrix.value", props=["C05"],
         instances=[{"self": "model:" + k, "x": a} for k in ("QUBOMatrix", "QUBO") for a in ("bassign", "bassign_seq")],
         requires=["wf(self)"],
         returns="real", ensures=["result == bden(self)"])
contract("qubovert.utils._pusomatrix:PUSOMatrix.value", props=["C05"],
         instances=[{"self": "model:" + k, "z": a} for k in ("PUSOMatrix", "PUSO", "PCSO") for a in ("sassign", "sassign_seq")],
         returns="real", ensures=["result == sden(self)"])
contract("qubovert.utils._qusomatrix:QUSOMatrix.value", props=["C05"],
         instances=[{"self": "model:" + k, "z": a} for k in ("QUSOMatrix", "QUSO") for a in ("sassign", "sassign_seq")],
         requires=["wf(self)"],
         returns="real", ensures=["result == sden(self)"])
