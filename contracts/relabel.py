"""C04: enumeration of a labelled model (labels replaced by their mapping integers) preserves the function.

Two ghost assignments: a on the integer labels of the enumerated model, and x := a o mapping on the model's own
labels (`maplinked`). The precondition is the C14 invariant that every label of a stored key is mapped."""
from vf.qvc.contracts import contract

_REQ = ["wf(self)", "maplinked(self._mapping)", "keys_within(self, lset(self._mapping))", "mapvals_ok(self._mapping)"]

contract("qubovert._qubo:QUBO.to_qubo", props=["C04", "C19"],
         instances=[{"self": "model:QUBO"}], requires=_REQ,
         returns="fresh:model:QUBOMatrix",
         ensures=["aden(result) == bden(self)", "wf(result)", "isfresh(result)", "typeis(result, 'QUBOMatrix')"],
         loops={1: {"invariant": "aden(Q) == bden(visited) and wf(Q)"}})

contract("qubovert._quso:QUSO.to_quso", props=["C04", "C19"],
         instances=[{"self": "model:QUSO"}], requires=_REQ,
         returns="fresh:model:QUSOMatrix",
         ensures=["asden(result) == sden(self)", "wf(result)", "isfresh(result)", "typeis(result, 'QUSOMatrix')"],
         loops={1: {"invariant": "asden(L) == sden(visited) and wf(L)"}})

contract("qubovert._puso:PUSO._to_puso", props=["C04", "C19"],
         instances=[{"self": "model:PUSO"}, {"self": "model:PCSO"}], requires=_REQ,
         returns="fresh:model:PUSOMatrix",
         ensures=["asden(result) == sden(self)", "wf(result)", "isfresh(result)", "typeis(result, 'PUSOMatrix')",
                  "implies(deg2(self), deg2(result))"],
         loops={1: {"invariant": "asden(H) == sden(visited) and wf(H) and implies(deg2(self), deg2(H))"}})

# ---------------------------------------------------------------- compositions (no degree reduction involved)
def _c(qn, cls, ens, rtype, req=(), inst=None):
    contract(qn, props=["C04", "C19"], instances=[inst or {"self": "model:" + c} for c in cls],
             requires=_REQ + list(req), returns="fresh:model:" + rtype,
             ensures=[ens, "wf(result)", "isfresh(result)", "typeis(result, '%s')" % rtype])


_c("qubovert._qubo:QUBO.to_pubo", ["QUBO"], "aden(result) == bden(self)", "PUBOMatrix")
_c("qubovert._quso:QUSO.to_puso", ["QUSO"], "asden(result) == sden(self)", "PUSOMatrix")

# Conversions defaults: each class overrides one of the pair and inherits the other
contract("qubovert.utils._conversions:Conversions.to_quso", props=["C04", "C19"],
         instances=[{"self": "model:QUBO", "args": "tuple:", "kwargs": "emptydict"}], requires=_REQ,
         returns="fresh:model:QUSOMatrix",
         ensures=["asden(result) == bden(self)", "wf(result)", "isfresh(result)", "typeis(result, 'QUSOMatrix')"])
contract("qubovert.utils._conversions:Conversions.to_qubo", props=["C04", "C19"],
         instances=[{"self": "model:QUSO", "args": "tuple:", "kwargs": "emptydict"}], requires=_REQ,
         returns="fresh:model:QUBOMatrix",
         ensures=["aden(result) == sden(self)", "wf(result)", "isfresh(result)", "typeis(result, 'QUBOMatrix')"])
contract("qubovert.utils._conversions:Conversions.to_puso", props=["C04", "C19"],
         instances=[{"self": "model:QUBO", "args": "tuple:", "kwargs": "emptydict"}], requires=_REQ,
         returns="fresh:model:PUSOMatrix",
         ensures=["asden(result) == bden(self)", "wf(result)", "isfresh(result)", "typeis(result, 'PUSOMatrix')"])
contract("qubovert.utils._conversions:Conversions.to_pubo", props=["C04", "C19"],
         instances=[{"self": "model:QUSO", "args": "tuple:", "kwargs": "emptydict"}], requires=_REQ,
         returns="fresh:model:PUBOMatrix",
         ensures=["aden(result) == sden(self)", "wf(result)", "isfresh(result)", "typeis(result, 'PUBOMatrix')"])

# PUSO / PCSO: spin forms that need no reduction
contract("qubovert._puso:PUSO.to_puso", props=["C04", "C19"],
         instances=[{"self": "model:" + c, "deg": "none", "lam": "none", "pairs": "none"} for c in ("PUSO", "PCSO")],
         requires=_REQ, returns="fresh:model:PUSOMatrix",
         ensures=["asden(result) == sden(self)", "wf(result)", "isfresh(result)", "typeis(result, 'PUSOMatrix')"])
contract("qubovert._puso:PUSO.to_quso", props=["C04", "C19"],
         instances=[{"self": "model:" + c, "lam": "none", "pairs": "none"} for c in ("PUSO", "PCSO")],
         requires=_REQ + ["self._degree <= 2", "deg2(self)"], returns="fresh:model:QUSOMatrix",
         ensures=["asden(result) == sden(self)", "wf(result)", "isfresh(result)", "typeis(result, 'QUSOMatrix')"])

# to_enumerated dispatches on the class name: to_qubo / to_quso / to_puso here (to_pubo of PUBO / PCBO goes through
# the degree-reduction routine, which is not under contract)
for cls, ens, rt in (("QUBO", "aden(result) == bden(self)", "QUBOMatrix"),
                     ("QUSO", "asden(result) == sden(self)", "QUSOMatrix"),
                     ("PUSO", "asden(result) == sden(self)", "PUSOMatrix"),
                     ("PCSO", "asden(result) == sden(self)", "PUSOMatrix")):
    pass
contract("qubovert.utils._bo_parentclass:BO.to_enumerated", props=["C04", "C19"],
         instances=[{"self": "model:" + c} for c in ("QUBO", "QUSO", "PUSO", "PCSO")],
         requires=_REQ,
         returns=lambda env, eng: "fresh:model:" + {"QUBO": "QUBOMatrix", "QUSO": "QUSOMatrix"}.get(env["self"].cls.name, "PUSOMatrix"),
         ensures=["(asden(result) == sden(self)) if isspin(self) else (aden(result) == bden(self))", "wf(result)", "isfresh(result)",
                  "typeis(result, 'QUBOMatrix') if typeis(self, 'QUBO') else (typeis(result, 'QUSOMatrix') if typeis(self, 'QUSO') "
                  "else typeis(result, 'PUSOMatrix'))"])
