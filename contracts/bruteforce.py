"""C09: the brute-force solvers return an optimal valid assignment (all of them with all_solutions) and leave the
model as they found it.

Theory: vf/qvc/enumth.py.  itertools.product is the trusted specification "every tuple of domain^N exactly once";
the tuples are the elements t of an abstract sort with bf_product(spin, N) their set; the assignment the solver
builds from a tuple is identified with the tuple; `valid` and `value` are arbitrary pure functions (VALID(t),
VALUE(t, contents of D)).  S below is the set of all enumerated tuples.

  objective:  result[0] is None  <=>  no tuple of S is valid;  otherwise result[0] <= value(t) for every valid t in S
  solution:   (not all_solutions) result[1] is the assignment of a valid tuple of S whose value is result[0];
              {} when nothing is valid
  all:        (all_solutions) result[1] holds exactly the valid tuples of S with value result[0], once each
              (as a multiset - the order of the list is not claimed); [] when nothing is valid
  constant:   a model without non-constant terms yields (its constant, {}) resp. (its constant, [{}])
  frame:      D is unchanged (the offset is popped and re-inserted): the generated `frame` obligation

Not expressed here (bounded clauses C09.*): that the assignment's key set is exactly the model's variables (the
dict comprehension over the mapping is abstracted), distinct tuples giving distinct assignments (needs the mapping
to be injective, C14), the order of the all_solutions list."""
from vf.qvc.contracts import contract

M = "qubovert.utils._solve_bruteforce:"
MODELS = ["PUBO", "QUBO", "PCBO", "PUSO", "QUSO", "PCSO", "PUBOMatrix", "QUBOMatrix", "PUSOMatrix", "QUSOMatrix"]
DKINDS = ["termdict"] + ["model:" + m for m in MODELS]

S = "bf_product(spin, bf_n(D))"
NC = "not allconst(D)"
VV = "valid, value"


def _ens(D, spin, valid, value):
    """postcondition of the solver core, for a model expression D, a spin flag and the two functions"""
    S = "bf_product(%s, bf_n(%s))" % (spin, D)
    NC = "not allconst(%s)" % D
    a = (D, valid, value)
    return [
        # ---- constant or empty model
        "implies(allconst(%s), result[0] == constpart(%s))" % (D, D),
        "implies(allconst(%s) and not all_solutions, bf_nosol(result[1]))" % D,
        "implies(allconst(%s) and all_solutions, bf_one_empty(result[1]))" % D,
        # ---- objective: None iff nothing is valid; otherwise the minimum over the valid tuples, attained
        "implies(%s, iff(result[0] is None, bf_none_valid(%s, %s)))" % (NC, S, valid),
        "implies(%s, (bf_is_min(result[0], %s, %s, %s, %s) and bf_attained(result[0], %s, %s, %s, %s)) "
        "if result[0] is not None else True)" % ((NC, S) + a + (S,) + a),
        # ---- one solution
        "implies(%s and not all_solutions, bf_attains(result[1], result[0], %s, %s, %s, %s) if result[0] is not None "
        "else bf_nosol(result[1]))" % ((NC, S) + a),
        # ---- all solutions
        "implies(%s and all_solutions, bf_list_is(result[1], result[0], %s, %s, %s, %s) if result[0] is not None "
        "else bf_nolist(result[1]))" % ((NC, S) + a)]


_REQ = ["wf({0}) if not typeis({0}, 'dict') else True", "({0}._degree >= 0) if not typeis({0}, 'dict') else True"]

contract(M + "_solve_bruteforce", props=["C09", "C19"],
         instances=[{"D": d, "all_solutions": "bool", "valid": "asgpred", "spin": "bool", "value": "asgfun"}
                    for d in DKINDS],
         requires=[r.format("D") for r in _REQ],
         returns="bfresult",
         ensures=_ens("D", "spin", "valid", "value"),
         loops={1: {"invariant": "seteq(var, keylabels(visited))"},
                2: {"invariant":
                    "iff(best[0] is None, bf_none_valid(visited, valid)) and "
                    "((bf_is_min(best[0], visited, D, valid, value) and bf_attains(best[1], best[0], visited, D, valid, value)) "
                    "if best[0] is not None else bf_nosol(best[1])) and "
                    "(bf_sols_ok(all_sols, best[0], visited, D, valid, value) if all_solutions else True)",
                    "vars": {"best": "bestpair"}}},
         note="the enumeration loop by invariant over the set of visited tuples; valid / value abstract")

# ---- the four public functions: the core with the right domain and the right value function
for fname, arg, spin, vf in (("solve_pubo_bruteforce", "P", "False", "pubo_value"),
                             ("solve_qubo_bruteforce", "Q", "False", "qubo_value"),
                             ("solve_puso_bruteforce", "H", "True", "puso_value"),
                             ("solve_quso_bruteforce", "L", "True", "quso_value")):
    contract(M + fname, props=["C09", "C19"],
             instances=[{arg: d, "all_solutions": "bool", "valid": "asgpred"} for d in DKINDS],
             requires=[r.format(arg) for r in _REQ],
             returns="bfresult",
             ensures=_ens(arg, spin, "valid", "valuefn('%s')" % vf))

# ---- the solve_bruteforce methods: the solution part of the matching function, with the model's own validity test
for mod, cls, spin, vf, kinds in (
        ("qubovert.utils._pubomatrix", "PUBOMatrix", "False", "pubo_value", ["PUBOMatrix", "PUBO", "PCBO"]),
        ("qubovert.utils._qubomatrix", "QUBOMatrix", "False", "qubo_value", ["QUBOMatrix", "QUBO"]),
        ("qubovert.utils._pusomatrix", "PUSOMatrix", "True", "puso_value", ["PUSOMatrix", "PUSO", "PCSO"]),
        ("qubovert.utils._qusomatrix", "QUSOMatrix", "True", "quso_value", ["QUSOMatrix", "QUSO"])):
    S_ = "bf_product(%s, bf_n(self))" % spin
    a_ = "%s, self, validfn_of(self), valuefn('%s')" % (S_, vf)
    contract("%s:%s.solve_bruteforce" % (mod, cls), props=["C09", "C19"],
             instances=[{"self": "model:" + k, "all_solutions": "bool"} for k in kinds],
             requires=[r.format("self") for r in _REQ],
             returns="bfsolution",
             ensures=["implies(allconst(self) and not all_solutions, bf_nosol(result))",
                      "implies(allconst(self) and all_solutions, bf_one_empty(result))",
                      "implies(not allconst(self) and not all_solutions, bf_solution_ok(result, %s))" % a_,
                      "implies(not allconst(self) and all_solutions, bf_solutions_ok(result, %s))" % a_])
