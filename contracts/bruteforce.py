"""C09: the brute-force solvers return an optimal valid assignment (all of them with all_solutions) and leave the
model as they found it.

Theory: vf/qvc/enumth.py.  itertools.product is the trusted specification "every tuple of domain^N exactly once";
the tuples are the elements t of an abstract sort with bf_product(spin, N) their set; the assignment the solver
builds from a tuple is identified with the tuple; `valid` and `value` are arbitrary pure functions (VALID(t),
VALUE(t, contents of D)).  S below is the set of all enumerated tuples.

  objective:  result[0] is None  <=>  no tuple of S is valid;  otherwise result[0] <= value(t) for every valid t in S
  solution:   (not all_solutions) result[1] is the assignment of a valid tuple of S whose value is result[0];
              {} when nothing is valid
  all:        (all_solutions) result[1] holds exactly the valid tuples of S with value result[0], once each
              (as a multiset - the order of the list is not claimed); [] when nothing is valid
  constant:   a model without non-constant terms yields (its constant, {}) resp. (its constant, [{}])
  frame:      D is unchanged (the offset is popped and re-inserted): the generated `frame` obligation

Not expressed here (bounded clauses C09.*): that the assignment's key set is exactly the model's variables (the
dict comprehension over the mapping is abstracted), distinct tuples giving distinct assignments (needs the mapping
to be injective, C14), the order of the all_solutions list."""
from vf.qvc.contracts import contract

M = "qubovert.utils._solve_bruteforce:"
MODELS = ["PUBO", "QUBO", "PCBO", "PUSO", "QUSO", "PCSO", "PUBOMatrix", "QUBOMatrix", "PUSOMatrix", "QUSOMatrix"]
DKINDS = ["termdict"] + ["model:" + m for m in MODELS]

S = "bf_product(spin, bf_n(D))"
NC = "not allconst(D)"

contract(M + "_solve_bruteforce", props=["C09", "C19"],
         instances=[{"D": d, "all_solutions": "bool", "valid": "asgpred", "spin": "bool", "value": "asgfun"}
                    for d in DKINDS],
         requires=["wf(D) if not typeis(D, 'dict') else True",
                   "(D._degree >= 0) if not typeis(D, 'dict') else True"],
         returns=None,
         ensures=[
             # ---- constant or empty model
             "implies(allconst(D), result[0] == constpart(D))",
             "implies(allconst(D) and not all_solutions, bf_nosol(result[1]))",
             "implies(allconst(D) and all_solutions, bf_one_empty(result[1]))",
             # ---- objective
             "implies(%s, iff(result[0] is None, bf_none_valid(%s)))" % (NC, S),
             "implies(%s, bf_is_min(result[0], %s, D) if result[0] is not None else True)" % (NC, S),
             # ---- one solution
             "implies(%s and not all_solutions, bf_attains(result[1], result[0], %s, D) if result[0] is not None "
             "else bf_nosol(result[1]))" % (NC, S),
             # ---- all solutions
             "implies(%s and all_solutions, bf_list_is(result[1], result[0], %s, D) if result[0] is not None "
             "else bf_nolist(result[1]))" % (NC, S)],
         loops={1: {"invariant": "seteq(var, keylabels(visited))"},
                2: {"invariant":
                    "iff(best[0] is None, bf_none_valid(visited)) and "
                    "((bf_is_min(best[0], visited, D) and bf_attains(best[1], best[0], visited, D)) "
                    "if best[0] is not None else bf_nosol(best[1])) and "
                    "(bf_sols_ok(all_sols, best[0], visited, D) if all_solutions else True)",
                    "vars": {"best": "bestpair"}}},
         note="the enumeration loop by invariant over the set of visited tuples; valid / value abstract")
