"""Per-property metadata used by the evidence writer. Levels are *computed* at run time from what was
actually discharged; `claimed` is only the ceiling (see evidence.py)."""

COMMON_ASSUMPTIONS = [
    "real arithmetic: Python int/float/sympy and C double coefficients are treated as mathematical reals; rounding is not modelled",
    "qvc built-in semantics table (dict/tuple/set/list/len/sorted/sum/max/min/abs/all/any/range/enumerate/isinstance) is trusted and differential-tested against CPython",
    "labels are modelled as integers with equality and one abstract total order standing for ordering_key",
    "no aliasing between distinct parameters unless a contract says so",
    "termination is not proved except where a decreases clause is given",
    "numpy, sympy, itertools, the CPython C-API and the PCG generator are external and unverified",
]

REGISTRY = {p: {"claimed": "other", "design_ref": "DESIGN.md §6/" + p, "assumptions": []} for p in
            ["C%02d" % i for i in range(1, 20)]}

# wall-clock budget (seconds) per bounded clause
BOUNDED_BUDGET = {}

MANIFEST_META = {
    "version": 1,
    "setup_cmd": "./setup.sh",
    "hooks": {
        "guard": "JTIOSUE_QUBOVERT_VERIF",
        "enable": "no hooks: contracts, invariants and ghost state live in /verif/contracts; qvc re-reads /repo sources on every run",
        "baseline_off_cmd": "cd /repo && /venv/bin/python -m pytest -ra -q -p no:cacheprovider --timeout=900 --continue-on-collection-errors",
        "source_commits": [],
        "add_only": True,
    },
    "engines": [
        {"name": "qvc", "path": "vf/qvc", "serves_properties": [],
         "kind_free_text": "own VC generator: symbolic execution of the real Python AST of /repo against sidecar contracts (contracts/), loop invariants, callee contracts at call sites, z3 -> cvc5 portfolio"},
        {"name": "bounded", "path": "vf/bounded", "serves_properties": [],
         "kind_free_text": "bounded stand-in: run-time contracts on the real code over an enumerated small scope (never counted as proved); also the replay engine"},
    ],
    "notes": "see DESIGN.md; ./check <ID> --tier quick|thorough; exit 0 held / 1 VIOLATION / 3 checker error",
}

_NOT_BUILT = "check not built yet in this round (see DESIGN.md §10 build order)"
for _p in REGISTRY:
    REGISTRY[_p]["not_applicable"] = _NOT_BUILT

REGISTRY["C15"].update({
    "not_applicable": None,
    "claimed": "exploration",
    "level_text": "bounded run-time contract over an enumerated small scope of models (deductive obligations to follow)",
    "level_note": "bounded only at this commit; nothing counted as proved",
    "technique": "run-time contract on the real functions over an exhaustive small scope (bounded stand-in)",
})
