"""Evidence writer: /verif/evidence/<id>.json, rewritten on every full run."""
import json
import os

from . import VERIF, REPO
from .registry import COMMON_ASSUMPTIONS


def write_evidence(prop, tier, seed, meta, ded, bounded, violations, known_hit, checker_errors, wall):
    obligations = ded["obligations"] if ded else []
    nob = len(obligations)
    ndis = sum(1 for o in obligations if o["status"] == "discharged")
    by_backend = {}
    solver_time = 0.0
    for o in obligations:
        if o["status"] == "discharged":
            by_backend[o.get("backend", "?")] = by_backend.get(o.get("backend", "?"), 0) + 1
        solver_time += o.get("time_s", 0.0)
    bounded_ok = [r for r in bounded if not r.get("fatal")]
    nev = sum(r["evaluations"] for r in bounded_ok)
    ndist = sum(r["distinct_nontrivial"] for r in bounded_ok)
    samples = []
    for o in obligations[:6]:
        samples.append({"obligation": o["name"], "status": o["status"], "backend": o.get("backend"),
                        "time_s": o.get("time_s")})
    for r in bounded_ok:
        for s in r["samples"][:1]:
            samples.append({"bounded_clause": r["clause"], "case": s})
    claimed = meta.get("claimed", "other")
    if nob and ndis == nob and claimed == "proof":
        level = "proof"
    elif nob:
        level = "other"
    else:
        level = "exploration"
    cov = {
        "obligations": nob,
        "discharged": ndis,
        "by_backend": by_backend,
        "solver_time_s": round(solver_time, 3),
        "checker_cmd": "./check %s --tier %s" % (prop, tier),
        "functions_under_contract": (ded or {}).get("functions", {}),
        "functions_left_reach": (ded or {}).get("left_reach", []),
        "trusted_base": (ded or {}).get("trusted_base", []) + ["z3 4.8/5.1 and cvc5 as SMT back ends",
                                                              "qvc symbolic executor (vf/qvc) incl. its built-in semantics table"],
        "lemmas": (ded or {}).get("lemmas", {}),
        "second_backend": (ded or {}).get("second_backend"),
        "lean_recheck": (ded or {}).get("lean_recheck"),
        "canaries_failed_as_expected": (ded or {}).get("canaries_ok", 0),
        "canaries_total": (ded or {}).get("canaries_total", 0),
        "vacuity_queries": (ded or {}).get("vacuity_queries", 0),
        "bounded_evaluations": nev,
        "bounded_distinct_nontrivial": ndist,
        "bounded_clauses": [{k: r[k] for k in ("clause", "evaluations", "skipped", "distinct", "distinct_nontrivial",
                                               "exhausted_generator", "wall_s", "doc")} for r in bounded_ok],
        "evaluations": max(nev, 0),
        "distinct_nontrivial": ndist,
        "rule": ("bounded stand-in: each clause enumerates (exhaustively where exhausted_generator is true, otherwise "
                 "seeded sampling) a small scope of models/inputs and evaluates the run-time contract on the real "
                 "code; a case is distinct by repr() and non-trivial by the clause's own rule (see clause doc); "
                 "obligations are counted separately and are never added to evaluations"),
        "samples": samples or ["(no cases)"],
        "exhaustive": bool(bounded_ok) and all(r["exhausted_generator"] for r in bounded_ok),
        "explanation": meta.get("explanation", "") or (
            "Deductive part: %d obligations generated from the current /repo source by qvc, %d discharged. "
            "Bounded part: %d run-time contract evaluations on the real code (never counted as proved)."
            % (nob, ndis, nev)),
        "repo_files_sha": (ded or {}).get("files_sha", {}),
        "per_clause_level": meta.get("per_clause_level", {}),
        "known_findings_hit": [m["what"] for m in known_hit],
        "checker_errors": [e[:500] for e in checker_errors],
        "open_obligations": [o["name"] for o in obligations if o["status"] != "discharged"],
    }
    ev = {
        "property_id": prop,
        "tier": tier,
        "seed": seed,
        "level": level,
        "coverage": cov,
        "assumptions": COMMON_ASSUMPTIONS + meta.get("assumptions", []) + (ded or {}).get("assumptions", []),
        "wall_s": round(wall, 2),
        "violations": len(violations),
    }
    os.makedirs(os.path.join(VERIF, "evidence"), exist_ok=True)
    p = os.path.join(VERIF, "evidence", prop + ".json")
    with open(p + ".tmp", "w") as f:
        json.dump(ev, f, indent=1, default=str)
    os.replace(p + ".tmp", p)
    return p
