"""C09 bounded stand-in: brute-force solvers return the exact minimum and exactly the minimisers.

Oracle: common.peval over itertools.product (common.assignments), filtered by a validity predicate that is named
in the case by a string/tuple and built in the check.

Reading of "the model's variables" used here (documented so that nothing more than the property is demanded):
  * plain dict: every label occurring in a key of the dict (a dict has no canonical form);
  * model object: the labels of its stored terms (model classes never store a zero coefficient). Model objects are
    only built by the constructor from a term dict; sequences in which a variable first appears and then cancels
    are not generated, because for them "the model's variables" is ambiguous.
"""
import itertools

from .common import (clause, Fail, Skip, LABELS, INT_LABELS, COEFS, gen_models, all_small_models, raw_keys,
                     variables_of, assignments, peval, qv, cls_of, MATRIX_TYPES, SPIN_TYPES, snapshot)

FNS = ["pubo", "qubo", "puso", "quso"]
SPIN_FN = ("puso", "quso")
# which model types may be handed to which function
FN_TYPES = {
    "pubo": ["PUBO", "PCBO", "QUBO", "PUBOMatrix", "QUBOMatrix"],
    "qubo": ["QUBO", "QUBOMatrix"],
    "puso": ["PUSO", "PCSO", "QUSO", "PUSOMatrix", "QUSOMatrix"],
    "quso": ["QUSO", "QUSOMatrix"],
}
ALL_TYPES = ["QUBO", "QUSO", "PUBO", "PUSO", "PCBO", "PCSO", "QUBOMatrix", "QUSOMatrix", "PUBOMatrix", "PUSOMatrix"]
TIE_COEFS = [-1, 1, 2]


# ---------------------------------------------------------------------------------------------
# helpers
# ---------------------------------------------------------------------------------------------
def _valid(spec):
    """Build the validity predicate named by `spec`. Predicates never raise on unexpected input (x.get)."""
    if spec == "all":
        return lambda x: True
    if spec == "never":
        return lambda x: False
    if spec == "sum<=1":
        return lambda x: sum(x.values()) <= 1
    if spec == "sum>=1":
        return lambda x: sum(x.values()) >= 1
    if spec == "all==1":
        return lambda x: all(v == 1 for v in x.values())
    if spec == "even-ones":
        return lambda x: list(x.values()).count(1) % 2 == 0
    if isinstance(spec, tuple) and spec[0] == "x==1":
        return lambda x: x.get(spec[1]) == 1
    if isinstance(spec, tuple) and spec[0] == "x!=y":
        return lambda x: x.get(spec[1]) != x.get(spec[2])
    raise ValueError("unknown validity spec %r" % (spec,))


def _valid_specs(vs):
    out = ["all", "sum<=1", "sum>=1", "even-ones", "all==1", "never"]
    if vs:
        out.append(("x==1", vs[0]))
    if len(vs) >= 2:
        out.append(("x!=y", vs[0], vs[-1]))
    return out


def _canon(terms, spin):
    """Own canonicalisation of a raw term dict -> ({frozenset: coef != 0}, ambiguous). `ambiguous` is True when
    different raw keys describe the same monomial and cancel to zero (a label is lost by cancellation)."""
    out, seen = {}, {}
    for k, v in terms.items():
        fs = frozenset(i for i in set(k) if k.count(i) % 2) if spin else frozenset(k)
        out[fs] = out.get(fs, 0) + v
        seen[fs] = seen.get(fs, 0) + 1
    amb = any(seen[fs] > 1 and not out[fs] for fs in out)
    return {k: v for k, v in out.items() if v}, amb


def _labels(keys):
    out = []
    for k in keys:
        for i in k:
            if i not in out:
                out.append(i)
    return out


def _fn_of(case):
    return getattr(qv().utils, "solve_%s_bruteforce" % case["fn"])


def _model(case):
    return dict(case["terms"]) if case["type"] == "dict" else cls_of(case["type"])(case["terms"])


def _expected(terms, vs, spin, valid):
    """-> (min value or None, [minimisers]) by direct enumeration with common.peval."""
    best, sols = None, []
    for a in assignments(vs, spin):
        if not valid(a):
            continue
        v = peval(terms, a)
        if best is None or v < best:
            best, sols = v, [a]
        elif v == best:
            sols.append(a)
    return best, sols


def _check_one(obj, sol, terms, vs, spin, valid, best):
    """all_solutions=False: objective is the minimum over valid assignments; solution is an assignment of exactly
    `vs`, valid, and attains it."""
    if best is None:
        if obj is not None:
            return Fail("no valid assignment, objective is %r, expected None" % (obj,), key="novalid-objective")
        return None
    if obj is None or obj != best:
        return Fail("objective %r, true constrained minimum %r" % (obj, best), key="objective")
    f = _check_assignment(sol, vs, spin)
    if f:
        return f
    if not valid(sol):
        return Fail("returned assignment %r is not accepted by `valid`" % (sol,), key="solution-invalid")
    got = peval(terms, sol)
    if got != best:
        return Fail("returned assignment %r has value %r, minimum is %r" % (sol, got, best), key="solution-value")
    return None


def _check_assignment(sol, vs, spin):
    if not isinstance(sol, dict):
        return Fail("solution %r is not a dict" % (sol,), key="solution-type")
    if set(sol) != set(vs) or len(sol) != len(vs):
        return Fail("solution %r is not over exactly the model's variables %r" % (sol, vs), key="solution-domain")
    dom = (1, -1) if spin else (0, 1)
    if any(v not in dom for v in sol.values()):
        return Fail("solution %r has values outside %r" % (sol, dom), key="solution-values")
    return None


def _check_all(obj, sols, vs, spin, best, expected):
    """all_solutions=True: every minimiser exactly once and nothing else."""
    if best is None:
        if obj is not None:
            return Fail("no valid assignment, objective is %r, expected None" % (obj,), key="novalid-objective")
        if vs and sols != []:
            # "every such minimiser exactly once and nothing else": there is none
            return Fail("no valid assignment, but all_solutions=True returned %r (expected no solution)" % (sols,),
                        key="novalid-solutions")
        return None
    if obj is None or obj != best:
        return Fail("objective %r, true constrained minimum %r" % (obj, best), key="objective")
    if not isinstance(sols, list):
        return Fail("all_solutions=True returned %r, not a list" % (sols,), key="solutions-type")
    want = set(frozenset(a.items()) for a in expected)
    got = []
    for s in sols:
        f = _check_assignment(s, vs, spin)
        if f:
            return f
        got.append(frozenset(s.items()))
    if len(set(got)) != len(got):
        return Fail("a minimiser is returned more than once: %r" % (sols,), key="duplicate-minimiser")
    extra = set(got) - want
    if extra:
        return Fail("returned %r which is not a valid minimiser (minimum %r)" % (dict(sorted(extra, key=repr)[0]), best),
                    key="non-minimiser-returned")
    missing = want - set(got)
    if missing:
        return Fail("minimiser %r (value %r) is not returned; got %d of %d"
                    % (dict(sorted(missing, key=repr)[0]), best, len(got), len(want)), key="minimiser-missing")
    return None


def _run(case, M, terms, vs, spin):
    valid = _valid(case["valid"])
    best, expected = _expected(terms, vs, spin, valid)
    obj, sol = _fn_of(case)(M, all_solutions=case["all"], valid=valid)
    if case["all"]:
        return _check_all(obj, sol, vs, spin, best, expected)
    return _check_one(obj, sol, terms, vs, spin, valid, best)


def _nontrivial_core(case):
    """Model has a non-constant term, `valid` accepts some but not all assignments or the objective takes >= 2
    values, and with all_solutions the minimum is attained at least twice (ties)."""
    terms = case["terms"]
    spin = case.get("fn") in SPIN_FN or case.get("type") in SPIN_TYPES
    vs = variables_of(terms)
    if not vs or len(vs) > 6:
        return bool(vs)
    valid = _valid(case.get("valid", "all"))
    best, sols = _expected(terms, vs, spin, valid)
    if best is None:
        return False
    if case.get("all"):
        return len(sols) >= 2
    return len(set(peval(terms, a) for a in assignments(vs, spin))) >= 2


# ---------------------------------------------------------------------------------------------
# 1/2. functions on plain dicts
# ---------------------------------------------------------------------------------------------
def _dict_models(ctx, fn, rng):
    maxlen = 2 if fn in ("qubo", "quso") else 3
    # exhaustive: every dict with <= 2 canonical keys over three mixed labels, coefficients giving ties
    for terms in all_small_models(['b', 0, ('t', 1)], maxlen, [-1, 1], 2):
        yield terms
    # symmetric / all-tie models, offsets, zero coefficients, duplicate monomials that cancel, keys in any order
    a, b, c = 'a', 1, 0
    yield {}
    yield {(): 0}
    yield {(): -2.5}
    yield {(a,): 0}
    yield {(): 3, (a,): 0}
    yield {(a, b): 1, (b, a): -1}
    yield {(a, b): 1, (b, a): -1, (): 2}
    yield {(a,): 1, (a, a): -1, (b,): 0}
    yield {(b, a): 1, (c, b): 1, (a, c): 1}
    yield {(b, a): -1, (c, b): -1, (a, c): -1, (): 1}
    yield {(a,): 1, (b,): 1, (c,): 1, (): -1}
    yield {(c,): -1, (): 4, (a, b): 2, (b,): -1, (a,): -1}
    if maxlen >= 3:
        yield {(a, b, c): 1}
        yield {(a, b, c): -1, (c, a): 1}
        yield {(c, c, a): 2, (b, a, b): -2}
    n = ctx.pick(500, 10000)
    labels = LABELS[:4]
    for terms in gen_models(rng, n, labels, maxlen, TIE_COEFS + [0.5], max_terms=5, raw=True, allow_zero=True):
        yield terms
    for terms in gen_models(rng, n // 3, LABELS, maxlen, [-1, 1], max_terms=6, raw=True):
        yield terms


def _gen_dict(all_solutions):
    def gen(ctx):
        rng = ctx.rng("c09.dict.%s" % all_solutions)
        for fn in FNS:
            k = 0
            for terms in _dict_models(ctx, fn, rng):
                vs = variables_of(terms)
                specs = _valid_specs(vs)
                # every model with "all", plus two rotating other predicates
                chosen = ["all", specs[1 + k % (len(specs) - 1)], specs[1 + (k + 3) % (len(specs) - 1)]]
                k += 1
                for spec in dict.fromkeys(chosen):
                    yield {"fn": fn, "type": "dict", "terms": terms, "valid": spec, "all": all_solutions}
    return gen


def _check_dict(case):
    terms = case["terms"]
    spin = case["fn"] in SPIN_FN
    vs = variables_of(terms)
    if not vs and case["valid"] != "all":
        return Skip("constant model with a restrictive predicate: the two sentences of the property conflict")
    return _run(case, dict(terms), terms, vs, spin)


@clause("C09.minimum_dict", "C09", gen=_gen_dict(False), nontrivial=_nontrivial_core)
def check_minimum_dict(case):
    """solve_{pubo,qubo,puso,quso}_bruteforce on a plain dict (offset or not, keys in any order, repeated labels,
    zero coefficients): the objective equals the minimum over all assignments accepted by `valid` (None if there is
    none), and the returned assignment is over exactly the labels occurring in the dict, accepted by `valid`, and
    attains it. Non-trivial: non-constant model taking >= 2 values with at least one valid assignment."""
    return _check_dict(case)


@clause("C09.all_solutions_dict", "C09", gen=_gen_dict(True), nontrivial=_nontrivial_core)
def check_all_dict(case):
    """With all_solutions=True on a plain dict the functions return the minimum and a list holding every valid
    minimiser exactly once and nothing else. Non-trivial: the minimum is attained by >= 2 valid assignments."""
    return _check_dict(case)


# ---------------------------------------------------------------------------------------------
# 3/4. functions on model objects (constructor from canonical keys, non-zero coefficients)
# ---------------------------------------------------------------------------------------------
def _type_models(ctx, tname, rng, n):
    deg = 2 if tname.startswith("Q") else 3
    labels = INT_LABELS if tname in MATRIX_TYPES else LABELS[:4]
    a, b, c = labels[1], labels[0], labels[2]
    yield {}
    yield {(): 1.5}
    yield {(b, a): 1, (c, b): 1, (a, c): 1}                     # symmetric, many ties
    yield {(a,): 1, (b,): 1, (c,): 1, (): -1}
    yield {(c,): -1, (): 4, (a, b): 2, (b,): -1, (a,): -1}
    if tname in MATRIX_TYPES:
        yield {(3,): 1, (1, 3): -1}                             # labels that are not 0..n-1
    for terms in gen_models(rng, n, labels, deg, TIE_COEFS + [0.5], max_terms=5):
        yield terms


def _gen_models(all_solutions):
    def gen(ctx):
        rng = ctx.rng("c09.models.%s" % all_solutions)
        n = ctx.pick(150, 3000)
        for fn in FNS:
            for tname in FN_TYPES[fn]:
                k = 0
                for terms in _type_models(ctx, tname, rng, n):
                    vs = variables_of(terms)
                    specs = _valid_specs(vs)
                    chosen = ["all", specs[1 + k % (len(specs) - 1)]]
                    k += 1
                    for spec in dict.fromkeys(chosen):
                        yield {"fn": fn, "type": tname, "terms": terms, "valid": spec, "all": all_solutions}
    return gen


def _check_models(case):
    terms = case["terms"]
    spin = case["fn"] in SPIN_FN
    vs = variables_of(terms)
    if not vs and case["valid"] != "all":
        return Skip("constant model with a restrictive predicate")
    return _run(case, _model(case), terms, vs, spin)


@clause("C09.minimum_models", "C09", gen=_gen_models(False), nontrivial=_nontrivial_core)
def check_minimum_models(case):
    """The four functions applied to model objects (QUBO/PUBO/PCBO/QUBOMatrix/PUBOMatrix for the boolean functions,
    QUSO/PUSO/PCSO/QUSOMatrix/PUSOMatrix for the spin ones; solve_qubo/quso only on degree-2 types): objective equals
    the minimum over valid assignments, solution is over exactly the model's variables and attains it.
    Non-trivial: as C09.minimum_dict."""
    return _check_models(case)


@clause("C09.all_solutions_models", "C09", gen=_gen_models(True), nontrivial=_nontrivial_core)
def check_all_models(case):
    """all_solutions=True on model objects: every valid minimiser exactly once and nothing else.
    Non-trivial: >= 2 minimisers."""
    return _check_models(case)


# ---------------------------------------------------------------------------------------------
# 5. the solve_bruteforce methods, incl. PCBO / PCSO where `valid` is is_solution_valid
# ---------------------------------------------------------------------------------------------
_REL = {"eq": lambda v: v == 0, "ne": lambda v: v != 0, "lt": lambda v: v < 0, "le": lambda v: v <= 0,
        "gt": lambda v: v > 0, "ge": lambda v: v >= 0}


def _gen_methods(ctx):
    rng = ctx.rng("c09.methods")
    n = ctx.pick(100, 2000)
    for tname in ALL_TYPES:
        for terms in _type_models(ctx, tname, rng, n):
            for allsol in (False, True):
                yield {"type": tname, "terms": terms, "cons": [], "lam": 0, "all": allsol}
    # constrained models: integer constraints over the objective's own variables
    for tname in ("PCBO", "PCSO"):
        labels = LABELS[:4]
        for terms in gen_models(rng, ctx.pick(400, 8000), labels, 3, TIE_COEFS, max_terms=4, min_terms=2):
            vs = variables_of(terms)
            if len(vs) < 2:
                continue
            cons = []
            for _ in range(rng.randint(1, 2)):
                ks = rng.sample(vs, rng.randint(1, min(3, len(vs))))
                cterms = {(k,): rng.choice([-1, 1, 1, 2]) for k in ks}
                if rng.random() < 0.7:
                    cterms[()] = rng.choice([-2, -1, 1])
                if rng.random() < 0.25 and len(ks) >= 2:
                    cterms[(ks[0], ks[1])] = rng.choice([-1, 1])
                cons.append((rng.choice(sorted(_REL)), cterms))
            # lam == 0: the constraint only filters (no penalty, no ancilla); lam > 0: penalties and ancillas too
            yield {"type": tname, "terms": terms, "cons": cons, "lam": rng.choice([0, 0, 1, 3]),
                   "all": rng.random() < 0.5}
    # infeasible constraint set
    for tname in ("PCBO", "PCSO"):
        for allsol in (False, True):
            yield {"type": tname, "terms": {('a',): 1, ('a', 'b'): -1}, "cons": [("gt", {('a',): 1, (): -2})], "lam": 0,
                   "all": allsol}


def _methods_nontrivial(case):
    return bool(variables_of(case["terms"])) and (bool(case["cons"]) or len(case["terms"]) >= 2)


@clause("C09.methods", "C09", gen=_gen_methods, nontrivial=_methods_nontrivial)
def check_methods(case):
    """M.solve_bruteforce(all_solutions) for every model type: the returned assignment (list of assignments) is over
    exactly the model's variables and minimises the model's stored polynomial over the assignments accepted by
    M.is_solution_valid -- for PCBO/PCSO those whose constraints (evaluated here independently with peval) hold, for
    the other types all assignments; all_solutions=True returns every such minimiser exactly once and nothing else.
    Non-trivial: model has variables and either constraints or >= 2 terms."""
    tname = case["type"]
    spin = tname in SPIN_TYPES
    M = cls_of(tname)(case["terms"])
    for rel, cterms in case["cons"]:
        kw = {"lam": case["lam"], "suppress_warnings": True}
        getattr(M, "add_constraint_%s_zero" % rel)(dict(cterms), **kw)
    poly = dict(M)                                  # the model's stored polynomial (penalties included)
    vs = _labels(poly.keys())
    if hasattr(M, "variables") and set(vs) != set(M.variables):
        return Skip("a variable cancelled out of the stored polynomial: 'the model's variables' is ambiguous")
    if len(vs) > 11:
        return Skip("scope: %d variables" % len(vs))
    cvars = set(_labels(k for _, ct in case["cons"] for k in ct))
    if not cvars <= set(vs):
        return Skip("constraint over a variable that is not in the polynomial")

    def valid(x):
        return all(_REL[rel](peval(ct, x)) for rel, ct in case["cons"])

    best, expected = _expected(poly, vs, spin, valid)
    sol = M.solve_bruteforce(all_solutions=case["all"])
    if best is None:
        return None                 # the methods return only the assignment part; nothing is stated about it
    if case["all"]:
        return _check_all(best, sol, vs, spin, best, expected)
    return _check_one(best, sol, poly, vs, spin, valid, best)


# ---------------------------------------------------------------------------------------------
# 6. no valid assignment / constant / empty model
# ---------------------------------------------------------------------------------------------
def _gen_edge(ctx):
    rng = ctx.rng("c09.edge")
    for fn in FNS:
        for tname in ["dict"] + FN_TYPES[fn]:
            for allsol in (False, True):
                for terms in ({}, {(): 3}, {(): -0.5}, {(): 0}):
                    yield {"fn": fn, "type": tname, "terms": terms, "valid": "all", "all": allsol, "kind": "constant"}
                deg = 2 if (fn in ("qubo", "quso") or tname.startswith("Q")) else 3
                labels = INT_LABELS if tname in MATRIX_TYPES else LABELS[:4]
                for terms in gen_models(rng, ctx.pick(15, 300), labels, deg, COEFS, max_terms=4, min_terms=1):
                    if not variables_of(terms):
                        continue
                    yield {"fn": fn, "type": tname, "terms": terms, "valid": "never", "all": allsol, "kind": "novalid"}
                    vs = variables_of(terms)
                    yield {"fn": fn, "type": tname, "terms": terms, "valid": ("x==1", "no-such-label"),
                           "all": allsol, "kind": "novalid"}
                    if len(vs) >= 1:
                        # x != x never holds
                        yield {"fn": fn, "type": tname, "terms": terms, "valid": ("x!=y", vs[0], vs[0]),
                               "all": allsol, "kind": "novalid"}


@clause("C09.no_valid_and_constant", "C09", gen=_gen_edge, nontrivial=lambda c: True if c["kind"] == "constant"
        else bool(variables_of(c["terms"])))
def check_edge(case):
    """If `valid` accepts no assignment the objective is None. A constant model ({(): c}) yields (c, {}) and the empty
    model (0, {}); with all_solutions=True the assignment part is [{}]. Dicts and every model type.
    Non-trivial: constant cases always; no-valid cases need a model with variables."""
    M = _model(case)
    obj, sol = _fn_of(case)(M, all_solutions=case["all"], valid=_valid(case["valid"]))
    if case["kind"] == "novalid":
        if obj is not None:
            return Fail("no assignment is valid but objective is %r" % (obj,), key="novalid-objective")
        return None
    const = case["terms"].get((), 0)
    if obj != const or obj is None:
        return Fail("constant model %r gives objective %r" % (case["terms"], obj), key="constant-objective")
    want = [{}] if case["all"] else {}
    if sol != want or type(sol) is not type(want):
        return Fail("constant model %r gives assignment %r, expected %r" % (case["terms"], sol, want),
                    key="constant-assignment")
    return None


# ---------------------------------------------------------------------------------------------
# 7. the argument is unchanged
# ---------------------------------------------------------------------------------------------
def _gen_unchanged(ctx):
    rng = ctx.rng("c09.unchanged")
    n = ctx.pick(30, 600)
    for fn in FNS:
        for tname in ["dict"] + FN_TYPES[fn]:
            deg = 2 if (fn in ("qubo", "quso") or tname.startswith("Q")) else 3
            labels = INT_LABELS if tname in MATRIX_TYPES else LABELS[:4]
            fixed = [{}, {(): 2}, {(): 2, (labels[0],): -1}, {(labels[1], labels[0]): 1, (): 0.5, (labels[1],): -1}]
            rnd = list(gen_models(rng, n, labels, deg, COEFS, max_terms=4, raw=(tname == "dict")))
            for terms in fixed + rnd:
                for allsol in (False, True):
                    for spec in ("all", "sum<=1", "never"):
                        yield {"fn": fn, "type": tname, "terms": terms, "valid": spec, "all": allsol}
    # methods
    for tname in ALL_TYPES:
        deg = 2 if tname.startswith("Q") else 3
        labels = INT_LABELS if tname in MATRIX_TYPES else LABELS[:4]
        for terms in gen_models(rng, n, labels, deg, COEFS, max_terms=4):
            yield {"fn": "method", "type": tname, "terms": terms, "valid": "all", "all": rng.random() < 0.5}


@clause("C09.argument_unchanged", "C09", gen=_gen_unchanged,
        nontrivial=lambda c: () in c["terms"] and len(c["terms"]) >= 2)
def check_unchanged(case):
    """The model passed in is unchanged afterwards: same terms and coefficients (for plain dicts the same key set
    including the () offset and the same values; key order is not considered), same type, same bookkeeping
    attributes (mapping, variables, degree, constraints...). Non-trivial: the model has an offset and another term
    (the offset is popped and re-inserted internally)."""
    M = _model(case) if case["type"] != "dict" else dict(case["terms"])
    before = snapshot(M)
    before_items = dict(dict.items(M))
    if case["fn"] == "method":
        M.solve_bruteforce(all_solutions=case["all"])
    else:
        _fn_of(case)(M, all_solutions=case["all"], valid=_valid(case["valid"]))
    after_items = dict(dict.items(M))
    if set(after_items) != set(before_items):
        return Fail("key set changed: before %r, after %r" % (sorted(before_items, key=repr),
                                                               sorted(after_items, key=repr)), key="keys-changed")
    if after_items != before_items:
        return Fail("values changed: before %r, after %r" % (before_items, after_items), key="values-changed")
    if snapshot(M) != before:
        return Fail("bookkeeping state of the model changed", key="state-changed",
                    observed=repr(snapshot(M)), required=repr(before))
    return None


# ---------------------------------------------------------------------------------------------
# 8. model objects whose constructor input has raw keys / zero values (bookkeeping not refreshed)
# ---------------------------------------------------------------------------------------------
def _gen_raw(ctx):
    rng = ctx.rng("c09.raw")
    n = ctx.pick(200, 4000)
    # minimal shapes first
    for tname in ALL_TYPES:
        l0, l1 = (0, 1) if tname in MATRIX_TYPES else ('a', 'b')
        spin = tname in SPIN_TYPES
        shapes = [{(l0,): 0, (l1,): 1}, {(l1,): 1, (l0,): 0}, {(l0, l1): 0, (l1,): -1}, {(l1, l1): 1, (l0,): -1}]
        if spin:
            shapes += [{(l0, l0, l1): 1}, {(l0, l0): 2, (l1,): 1}]
        else:
            shapes += [{(l0, l0, l1): 1}]
        for terms in shapes:
            for allsol in (False, True):
                yield {"type": tname, "terms": terms, "all": allsol, "via": "method"}
                yield {"type": tname, "terms": terms, "all": allsol, "via": "function"}
    for tname in ALL_TYPES:
        maxlen = 2 if tname.startswith("Q") else 3
        labels = INT_LABELS[:3] if tname in MATRIX_TYPES else LABELS[:3]
        keys = raw_keys(labels, maxlen)
        for _ in range(n // 2):
            ks = rng.sample(keys, rng.randint(1, 4))
            terms = {k: rng.choice([-1, 1, 2, 0]) for k in ks}
            yield {"type": tname, "terms": terms, "all": rng.random() < 0.5, "via": rng.choice(["method", "function"])}


def _raw_nontrivial(case):
    spin = case["type"] in SPIN_TYPES
    can, amb = _canon(case["terms"], spin)
    return not amb and set(_labels(k for k in can)) != set(variables_of(case["terms"]))


@clause("C09.raw_constructed_models", "C09", gen=_gen_raw, nontrivial=_raw_nontrivial)
def check_raw(case):
    """"any model type" includes model objects built by the constructor from a dict with zero-valued entries or keys
    with repeated labels. The model's variables are the labels of the terms it stores; solve_bruteforce (method, or
    the matching function with the default `valid`) must return the minimum of the polynomial and an assignment /
    all minimising assignments over exactly those variables. Cases in which two raw keys denote the same monomial and
    cancel are skipped (ambiguous). Failures caused by a label that is registered in M.mapping although no stored
    term uses it carry the key 'zero-valued-label-in-mapping' (zero value) or 'squashed-label-in-mapping'
    (label removed by key squashing). Non-trivial: the raw input names a label that the stored polynomial does not
    contain."""
    tname = case["type"]
    spin = tname in SPIN_TYPES
    can, amb = _canon(case["terms"], spin)
    if amb:
        return Skip("raw keys cancel each other: variables ambiguous")
    M = cls_of(tname)(case["terms"])
    poly = {tuple(sorted(k, key=repr)): v for k, v in can.items()}
    vs = _labels(poly.keys())
    stored = dict(M)
    if set(frozenset(k) for k in stored) != set(can) or any(stored[k] != can[frozenset(k)] for k in stored):
        return Skip("stored terms differ from the canonical form computed here (outside C09)")
    extra = set(getattr(M, "mapping", {})) - set(vs)
    zero_labels = set(_labels(k for k, v in case["terms"].items() if not v)) - set(vs)
    special = None
    if extra:
        special = "zero-valued-label-in-mapping" if extra & zero_labels else "squashed-label-in-mapping"
    best, expected = _expected(poly, vs, spin, lambda x: True)
    fnname = {"QUBO": "qubo", "QUBOMatrix": "qubo", "QUSO": "quso", "QUSOMatrix": "quso", "PUBO": "pubo",
              "PCBO": "pubo", "PUBOMatrix": "pubo", "PUSO": "puso", "PCSO": "puso", "PUSOMatrix": "puso"}[tname]
    try:
        if case["via"] == "method":
            sol = M.solve_bruteforce(all_solutions=case["all"])
            obj = best
        else:
            obj, sol = getattr(qv().utils, "solve_%s_bruteforce" % fnname)(M, all_solutions=case["all"])
    except Exception as e:          # noqa
        if special:
            return Fail("raised %s: %s; M.mapping=%r but the stored terms %r only use %r"
                        % (type(e).__name__, e, M.mapping, stored, vs), key=special)
        raise
    if not vs:
        want = [{}] if case["all"] else {}
        f = None if (sol == want and obj == best) else Fail("constant model gives (%r, %r)" % (obj, sol),
                                                             key="constant-assignment")
    elif case["all"]:
        f = _check_all(obj, sol, vs, spin, best, expected)
    else:
        f = _check_one(obj, sol, poly, vs, spin, lambda x: True, best)
    if f is not None and special:
        f.msg = "%s; M.mapping=%r but the stored terms %r only use %r" % (f.msg, M.mapping, stored, vs)
        f.key = special
    return f


# ---------------------------------------------------------------------------------------------
# 9. Problem.solve_bruteforce (parent class of the problem library): minimisers of to_qubo() mapped through
#    convert_solution
# ---------------------------------------------------------------------------------------------
def _gen_problem(ctx):
    rng = ctx.rng("c09.problem")
    fixed = [[1, 2, 3], [1, 1], [3], [2, 2, 2, 2], [1, 2, 3, 4], [5, 1, 1, 1, 2], [1, 2, 4]]
    for S in fixed:
        for allsol in (False, True):
            yield {"problem": "NumberPartitioning", "S": S, "all": allsol}
    for _ in range(ctx.pick(100, 2000)):
        S = [rng.randint(1, 6) for _ in range(rng.randint(1, 6))]
        yield {"problem": "NumberPartitioning", "S": S, "all": rng.random() < 0.6}


@clause("C09.problem_parentclass", "C09", gen=_gen_problem, nontrivial=lambda c: len(c["S"]) >= 2)
def check_problem(case):
    """Problem.solve_bruteforce (qubovert.problems parent class, exercised through NumberPartitioning, which has no
    slack variables): the result is convert_solution applied to a minimiser of P.to_qubo() -- with
    all_solutions=True to every minimiser exactly once and to nothing else. The minimisers of to_qubo() are
    enumerated here with peval. Instances whose QUBO does not contain every problem variable are skipped.
    Non-trivial: >= 2 numbers."""
    q = qv()
    P = q.problems.NumberPartitioning(list(case["S"]))
    Q = dict(P.to_qubo())
    vs = sorted(_labels(Q.keys()))
    if vs != list(range(P.num_binary_variables)):
        return Skip("a problem variable does not occur in to_qubo(): how it is completed is not part of C09")
    best, expected = _expected(Q, vs, False, lambda x: True)
    want = [P.convert_solution(dict(a)) for a in expected]
    got = P.solve_bruteforce(all_solutions=case["all"])
    if not case["all"]:
        if got not in want:
            return Fail("solve_bruteforce() = %r is not the image of a minimiser of to_qubo(); images: %r"
                        % (got, want), key="problem-solution")
        return None
    if not isinstance(got, list):
        return Fail("all_solutions=True returned %r" % (got,), key="solutions-type")
    if sorted(map(repr, got)) != sorted(map(repr, want)):
        return Fail("all_solutions=True returned %r, expected the images %r of all minimisers" % (got, want),
                    key="problem-all-solutions")
    return None


def _exact(terms, how):
    """coefficients in an exact number type whose distinct values a double cannot tell apart"""
    import fractions
    if how == "bigint":        # integer values around 2**60: neighbouring integers are one double
        out = {k: int(v) for k, v in terms.items()}
        out[()] = out.get((), 0) + 2 ** 60
        return out
    out = {k: fractions.Fraction(int(v), 10 ** 20) for k, v in terms.items()}      # 1 + tiny fractions
    out[()] = out.get((), 0) + 1
    return out


def _gen_exact(ctx):
    rng = ctx.rng("c09.exact")
    for fn in FNS:
        maxlen = 2 if fn in ("qubo", "quso") else 3
        models = [{('a',): 1}, {('a',): -1, ('b',): 2}, {('a', 'b'): 1, ('a',): -1, (): 3}, {(0, 1): -2, (1,): 1, (0,): 1}]
        models += list(gen_models(rng, ctx.pick(40, 800), LABELS[:3], maxlen, [-2, -1, 1, 2, 3], max_terms=4, min_terms=1))
        for terms in models:
            for how in ("bigint", "fraction"):
                for allsol in (False, True):
                    for T in ("dict",) + ((("QUSO", "PUSO") if fn == "quso" else ("PUSO",)) if fn in SPIN_FN
                                          else (("QUBO", "PUBO") if fn == "qubo" else ("PUBO",))):
                        yield {"fn": fn, "type": T, "terms": terms, "exact": how, "valid": "all", "all": allsol}


@clause("C09.exact_coefficients", "C09", gen=_gen_exact, nontrivial=_nontrivial_core)
def check_exact(case):
    """the contract of C09.minimum_* / C09.all_solutions_* for coefficients of an exact real type whose distinct
    values are closer than double precision resolves (Python ints around 2**60, fractions.Fraction around 1 with
    differences of 1e-20): the objective is the exact minimum and only true minimisers are returned. Oracle: exact
    arithmetic. Non-trivial: as C09.minimum_dict."""
    terms = _exact(case["terms"], case["exact"])
    spin = case["fn"] in SPIN_FN
    vs = variables_of(terms)
    M = dict(terms) if case["type"] == "dict" else cls_of(case["type"])(terms)
    return _run(case, M, terms, vs, spin)


def _gen_fresh(ctx):
    for fn in FNS:
        spin = fn in SPIN_FN
        for T in ("dict", "PUSO" if spin else "PUBO"):
            for terms in ({}, {(): 3}, {(): -2}, {('a',): 1}, {('a',): -1, ('b',): 2, (): 1}):
                for allsol in (False, True):
                    yield {"fn": fn, "type": T, "terms": terms, "all": allsol}


@clause("C09.results_are_fresh", "C09", gen=_gen_fresh, nontrivial=lambda c: True)
def check_fresh(case):
    """what a call returns is the caller's: after a first call the returned assignment (or list of assignments) is
    filled with foreign entries by the caller - a later call on an equal model, and a call on another model
    without variables, must still return the correct result ({} resp. [{}] for a model without variables, the
    minimisers otherwise). Oracle: exhaustive enumeration. All cases count as non-trivial."""
    terms = case["terms"]
    spin = case["fn"] in SPIN_FN
    vs = variables_of(terms)
    f = _fn_of(case)

    def model(t):
        return dict(t) if case["type"] == "dict" else cls_of(case["type"])(t)
    obj, sol = f(model(terms), all_solutions=case["all"])
    # the caller uses what it got
    if case["all"]:
        if isinstance(sol, list):
            for s in sol:
                if isinstance(s, dict):
                    s["__foreign"] = 7
            sol.append({"__foreign": 7})
    elif isinstance(sol, dict):
        sol["__foreign"] = 7
    for t2 in (terms, {(): 5}, {}):
        vs2 = variables_of(t2)
        best, expected = _expected(t2, vs2, spin, lambda x: True)
        if not t2:
            best, expected = 0, [{}]
        obj2, sol2 = f(model(t2), all_solutions=case["all"])
        r = _check_all(obj2, sol2, vs2, spin, best, expected) if case["all"] else \
            _check_one(obj2, sol2, t2, vs2, spin, lambda x: True, best)
        if r is not None:
            return Fail("after the caller edited an earlier result, a call on %r: %s" % (t2, r.msg if hasattr(r, "msg") else r),
                        key="result-shared-between-calls")
    return None


def _gen_problem_free(ctx):
    rng = ctx.rng("c09.problem.free")
    # BILP: minimise c.x subject to S x = b; a column that is zero in S and in c is a free variable that does not
    # occur in to_qubo() - leading, interior and trailing positions
    fixed = [([1, 0], [[1, 0]], [1]), ([0, 1], [[0, 1]], [1]), ([0, 1, 0], [[0, 1, 0]], [1]), ([1, 0, 0], [[1, 0, 0]], [0]),
             ([1, 2, 0], [[1, 1, 0]], [1]), ([0, 0, 1], [[0, 0, 1], [0, 0, 2]], [1, 2]), ([2, 0, 1, 0], [[1, 0, 1, 0]], [1])]
    for c, S, b in fixed:
        for allsol in (False, True):
            yield {"problem": "BILP", "c": c, "S": S, "b": b, "all": allsol}
    for n in (1, 2, 3):
        for allsol in (False, True):
            yield {"problem": "ASC", "n": n, "all": allsol}
    for _ in range(ctx.pick(60, 1500)):
        n = rng.randint(2, 4)
        free = set(rng.sample(range(n), rng.randint(1, n - 1)))
        c = [0 if i in free else rng.choice([-2, -1, 1, 2, 3]) for i in range(n)]
        S = [[0 if i in free else rng.choice([0, 1, 1, 2]) for i in range(n)] for _ in range(rng.randint(1, 2))]
        x0 = [rng.randint(0, 1) for _ in range(n)]
        b = [sum(r[i] * x0[i] for i in range(n)) for r in S]
        yield {"problem": "BILP", "c": c, "S": S, "b": b, "all": rng.random() < 0.5}


@clause("C09.problem_free_variables", "C09", gen=_gen_problem_free, nontrivial=lambda c: c["problem"] == "BILP" and len(c["c"]) >= 2)
def check_problem_free(case):
    """Problem.solve_bruteforce (the solve_bruteforce method of the problem library's parent class) on instances
    with variables that do not occur in to_qubo() (BILP with an all-zero column in any position,
    AlternatingSectorsChain(1)): it returns - without raising - an assignment over exactly the problem's
    num_binary_variables variables that is feasible and attains the minimum of the stated problem; with
    all_solutions=True a non-empty list of distinct such assignments. Oracle: enumeration of the stated problem
    (S x = b, minimal c.x) - not of the QUBO. Non-trivial: BILP with >= 2 variables."""
    q = qv()
    if case["problem"] == "ASC":
        P = q.problems.AlternatingSectorsChain(case["n"])
        got = P.solve_bruteforce(all_solutions=case["all"])
        sols = got if case["all"] else [got]
        if case["all"] and (not isinstance(got, list) or not got):
            return Fail("all_solutions=True returned %r" % (got,), key="free-solutions-type")
        for s in sols:
            if len(tuple(s)) != case["n"] or any(v not in (1, -1) for v in s) or len(set(s)) != 1:
                return Fail("AlternatingSectorsChain(%d).solve_bruteforce() gives %r, the ground states are the two "
                            "uniform chains of length %d" % (case["n"], s, case["n"]), key="free-asc")
        return None
    c, S, b = case["c"], case["S"], case["b"]
    n = len(c)
    feas = [x for x in itertools.product((0, 1), repeat=n)
            if all(sum(r[i] * x[i] for i in range(n)) == bj for r, bj in zip(S, b))]
    opt = min(sum(c[i] * x[i] for i in range(n)) for x in feas)
    P = q.problems.BILP(list(c), [list(r) for r in S], list(b))
    # constraint weight strictly above the documented threshold A > B * sum|c| (the default weights promise nothing)
    got = P.solve_bruteforce(all_solutions=case["all"], A=sum(abs(v) for v in c) + 1, B=1)
    if case["all"]:
        if not isinstance(got, list) or not got:
            return Fail("all_solutions=True returned %r" % (got,), key="free-solutions-type")
        sols = got
    else:
        sols = [got]
    seen = set()
    for s in sols:
        x = tuple(int(v) for v in s)
        if len(x) != n or any(v not in (0, 1) for v in x):
            return Fail("solution %r is not a 0/1 vector over the %d variables" % (s, n), key="free-domain")
        if x not in feas:
            return Fail("solution %r does not satisfy S x = b" % (x,), key="free-infeasible")
        if sum(c[i] * x[i] for i in range(n)) != opt:
            return Fail("solution %r has cost %r, optimum %r" % (x, sum(c[i] * x[i] for i in range(n)), opt), key="free-cost")
        if x in seen:
            return Fail("solution %r returned twice" % (x,), key="free-duplicate")
        seen.add(x)
    return None


# ---------------------------------------------------------------------------------------------
# 9. Matrix models (and dicts) after edits that make a variable vanish
# ---------------------------------------------------------------------------------------------
def _gen_cancelled(ctx):
    rng = ctx.rng("c09.cancel")
    n = ctx.pick(60, 1500)
    for tname in MATRIX_TYPES:
        maxdeg = 2 if tname.startswith("Q") else 3
        for terms in gen_models(rng, n, INT_LABELS[:4], maxdeg, [-2, -1, 1, 2, 0.5], max_terms=4, min_terms=2):
            vs = variables_of(terms)
            if len(vs) < 2:
                continue
            yield {"type": tname, "terms": terms, "drop": rng.choice(vs), "all": rng.random() < 0.5,
                   "via": rng.choice(["method", "function"])}


@clause("C09.cancelled_terms_matrix", "C09", gen=_gen_cancelled, nontrivial=lambda c: True)
def check_cancelled(case):
    """A Matrix-type model from which every term containing one label has been subtracted again (M[k] -= v): the
    brute-force solvers (method and function) return the minimum and an assignment / all minimisers over exactly
    the labels of the terms the model still stores - the vanished label must not come back. (For the labelled
    types the reported `variables` are only upper bounds after such edits, so they are not judged here.)"""
    tname = case["type"]
    spin = tname in SPIN_TYPES
    M = cls_of(tname)(case["terms"])
    for k, v in case["terms"].items():
        if case["drop"] in k:
            M[k] -= v
    stored = dict(M)
    if any(case["drop"] in k for k in stored):
        return Skip("label did not vanish")
    vs = _labels(stored.keys())
    q = qv()
    fn = {"QUBOMatrix": q.utils.solve_qubo_bruteforce, "PUBOMatrix": q.utils.solve_pubo_bruteforce,
          "QUSOMatrix": q.utils.solve_quso_bruteforce, "PUSOMatrix": q.utils.solve_puso_bruteforce}[tname]
    best, expected = _expected(stored, vs, spin, lambda a: True)
    if case["via"] == "method":
        sol = M.solve_bruteforce(all_solutions=case["all"])
        obj = best
    else:
        obj, sol = fn(M, all_solutions=case["all"])
    if case["all"]:
        return _check_all(obj, sol, vs, spin, best, expected)
    return _check_one(obj, sol, stored, vs, spin, lambda a: True, best)


# ---------------------------------------------------------------------------------------------
# models whose enumeration was declared with set_mapping / set_reverse_mapping, with gaps
# ---------------------------------------------------------------------------------------------
def _gen_declared(ctx):
    import itertools
    for t in ("QUBO", "PUBO", "PCBO", "QUSO", "PUSO", "PCSO"):
        for rev in (False, True):
            for decl, terms in (({'a': 0, 'b': 2}, {('a', 'b'): 1, ('a',): -2}),
                                ({'a': 0, 'b': 1, 'c': 3}, {('a', 'b'): 1, ('c',): -2, ('b', 'c'): 1}),
                                ({'a': 3, 'b': 1}, {('a',): 1, ('b', 'c'): -3, ('c',): 1})):
                for alls in (False, True):
                    yield {"type": t, "decl": decl, "terms": terms, "rev": rev, "all": alls}


@clause("C09.declared_mapping_gaps", "C09", gen=_gen_declared, nontrivial=lambda c: True)
def check_declared(case):
    """solve_bruteforce on a labelled model whose integer enumeration was declared with gaps (as in the library's own
    test of set_mapping): the objective is the exhaustive minimum, the solution(s) range over exactly the model's
    variables and are exactly the minimisers."""
    import itertools
    from .common import cls_of, peval, variables_of
    T = cls_of(case["type"])
    M = T()
    if case["rev"]:
        M.set_reverse_mapping({v: l for l, v in case["decl"].items()})
    else:
        M.set_mapping(dict(case["decl"]))
    for k, v in case["terms"].items():
        M[k] += v
    spin = case["type"] in ("QUSO", "PUSO", "PCSO")
    vs = sorted(M.variables, key=repr)
    dom = (1, -1) if spin else (0, 1)
    table = [dict(zip(vs, x)) for x in itertools.product(dom, repeat=len(vs))]
    vals = [peval(dict(M), x) for x in table]
    best = min(vals)
    res = M.solve_bruteforce(all_solutions=case["all"])
    sols = res if case["all"] else [res]
    want = [x for x, v in zip(table, vals) if v == best]
    for s_ in sols:
        if set(s_) != set(vs):
            return Fail("solution %r does not range over the variables %r" % (s_, vs), key="declared-domain")
        if s_ not in want:
            return Fail("solution %r is not a minimiser (minimum %r)" % (s_, best), key="declared-not-minimiser")
    if case["all"] and (len(sols) != len(want) or any(w not in sols for w in want)):
        return Fail("all_solutions returned %r, the minimisers are %r" % (sols, want), key="declared-all")
    return None
