"""C15 bounded stand-in: approximate extrema enclose true extrema; anneal_temperature_range."""
import itertools

from .common import (clause, Fail, Skip, Ctx, LABELS, INT_LABELS, COEFS, gen_models, all_small_models,
                     variables_of, assignments, peval, qv, cls_of, BOOL_TYPES, SPIN_TYPES, MATRIX_TYPES,
                     labels_for, close)


def _gen_extrema(ctx):
    # exhaustive small scope over raw dicts (canonical keys), then sampled raw keys with repeats and zero values,
    # each as raw dict and wrapped in every model type of the right kind
    for spin in (False, True):
        fn = "puso" if spin else "pubo"
        for terms in all_small_models(LABELS[:3], 3, [-2, 1, 0.5], 2):
            yield {"fn": fn, "type": "dict", "terms": terms}
        for terms in all_small_models(INT_LABELS[:3], 2, [-1, 2], 2):
            yield {"fn": "quso" if spin else "qubo", "type": "dict", "terms": terms}
    rng = ctx.rng("c15")
    n = ctx.pick(400, 6000)
    for spin in (False, True):
        types = SPIN_TYPES if spin else BOOL_TYPES
        for terms in gen_models(rng, n, LABELS[:4], 4, COEFS, max_terms=5, raw=True, allow_zero=True):
            yield {"fn": "puso" if spin else "pubo", "type": "dict", "terms": terms}
        for t in types:
            deg = 2 if t.startswith("Q") else 4
            for terms in gen_models(rng, n // 4, labels_for(t, 4), deg, COEFS, max_terms=5):
                yield {"fn": ("quso" if spin else "qubo") if deg == 2 else ("puso" if spin else "pubo"),
                       "type": t, "terms": terms}


def _coerce(terms, ctype):
    """real coefficients of another numeric type (the property says: real coefficients)"""
    if not ctype:
        return terms
    import fractions
    import numpy as np
    conv = {"fraction": lambda v: fractions.Fraction(v).limit_denominator(64), "np_int64": lambda v: np.int64(int(2 * v)),
            # exact values that a double cannot hold: thirds, and integers beyond 2**53
            "fraction_thirds": lambda v: fractions.Fraction(int(round(4 * v)), 9),
            "bigint": lambda v: int(round(2 * v)) * (2 ** 53 + 1),
            # doubles a hair off an integer / half-integer: multiples of 2**-40, so that every sum the library and the
            # oracle form is exact in double arithmetic and the enclosure can be compared without tolerance
            "dyadic_up": lambda v: float(v) + 2.0 ** -40, "dyadic_down": lambda v: float(v) - 2.0 ** -40,
            "np_float64": np.float64, "np_float32": np.float32}[ctype]
    return {k: conv(v) for k, v in terms.items()}


def _gen_numeric_types(ctx):
    rng = ctx.rng("c15.types")
    n = ctx.pick(60, 1500)
    for ctype in ("fraction", "np_int64", "np_float64", "np_float32", "fraction_thirds", "bigint", "dyadic_up", "dyadic_down"):
        for spin in (False, True):
            yield {"fn": "puso" if spin else "pubo", "type": "dict", "terms": {(): 2.5}, "ctype": ctype}
            yield {"fn": "puso" if spin else "pubo", "type": "dict", "terms": {('a',): -1.5, ('a', 'b'): 2, (): 1}, "ctype": ctype}
            for terms in gen_models(rng, n, LABELS[:4], 3, COEFS, max_terms=4, min_terms=1):
                yield {"fn": "puso" if spin else "pubo", "type": "dict", "terms": terms, "ctype": ctype}
            for t in (SPIN_TYPES if spin else BOOL_TYPES)[:2]:
                for terms in gen_models(rng, n // 4, labels_for(t, 3), 2, COEFS, max_terms=3, min_terms=1):
                    yield {"fn": "quso" if spin else "qubo", "type": t, "terms": terms, "ctype": ctype}


def _nontrivial(case):
    return any(k for k in case["terms"]) and len(case["terms"]) >= 1


@clause("C15.extrema_enclose", "C15", gen=_gen_extrema, nontrivial=_nontrivial)
def check_extrema(case):
    """approximate_*_extrema(M) = (lo, hi) with lo <= M(x) <= hi for all assignments; lo == hi == constant for a
    constant model. Non-trivial: model has a non-constant term."""
    q = qv()
    fn = getattr(q.utils, "approximate_%s_extrema" % case["fn"])
    spin = case["fn"] in ("puso", "quso")
    terms = _coerce(case["terms"], case.get("ctype"))
    M = terms if case["type"] == "dict" else cls_of(case["type"])(terms)
    before = dict(M)
    lo, hi = fn(M)
    if dict(M) != before:
        return Fail("argument mutated", key="mutated")
    vs = variables_of(terms)
    vals = [peval(terms, x) for x in assignments(vs, spin)]
    # exact number types are compared exactly (the enclosure of an exact model must not be rounded to doubles)
    tol = 0 if case.get("ctype") in ("fraction", "fraction_thirds", "bigint", "dyadic_up", "dyadic_down") else 1e-9
    if lo > min(vals) + tol or hi < max(vals) - tol:
        return Fail("enclosure (%r, %r) does not contain [%r, %r]" % (lo, hi, min(vals), max(vals)), key="enclosure")
    if all(not k or not v for k, v in dict(M).items()) and not (lo == hi == dict(M).get((), 0)):
        # constant model (as stored): both bounds equal the constant
        return Fail("constant model: got (%r, %r), constant %r" % (lo, hi, dict(M).get((), 0)), key="constant")
    return None


@clause("C15.extrema_numeric_types", "C15", gen=_gen_numeric_types, nontrivial=_nontrivial)
def check_extrema_types(case):
    """the enclosure clause for real coefficients that are not int/float instances: fractions.Fraction,
    numpy.int64, numpy.float64, numpy.float32 (same contract as C15.extrema_enclose)."""
    return check_extrema(case)


def _gen_mutation(ctx):
    rng = ctx.rng("c15.mut")
    n = ctx.pick(40, 800)
    for spin in (False, True):
        for t in (SPIN_TYPES if spin else BOOL_TYPES):
            deg = 2 if t.startswith("Q") else 3
            labels = labels_for(t, 3)
            yield {"spin": spin, "type": t, "terms": {(): 3}, "edits": [[(), -6]]}
            yield {"spin": spin, "type": t, "terms": {(labels[0],): 1, (): 9}, "edits": [[(labels[0],), 11], [(), -2]]}
            for terms in gen_models(rng, n // 4, labels, deg, COEFS, max_terms=4, min_terms=1):
                ks = list(terms)
                edits = [[rng.choice(ks), rng.choice([10, -7, 0.5, 25])] for _ in range(rng.choice([1, 2]))]
                yield {"spin": spin, "type": t, "terms": terms, "edits": edits}


@clause("C15.extrema_after_mutation", "C15", gen=_gen_mutation, nontrivial=lambda c: any(k for k in c["terms"]))
def check_extrema_after_mutation(case):
    """the enclosure holds for the model *as it is when the function is called*: extrema are queried, a stored
    coefficient (or the offset) of the same model object is overwritten in place - the number of terms stays the
    same - and the extrema are queried again; each answer must enclose the true extrema of the model at that
    moment (and equal the constant for a constant model). Non-trivial: the model has a non-constant term."""
    q = qv()
    spin = case["spin"]
    t = case["type"]
    deg2 = t.startswith("Q")
    fn = getattr(q.utils, "approximate_%s_extrema" % (("quso" if spin else "qubo") if deg2 else ("puso" if spin else "pubo")))
    M = cls_of(t)(case["terms"])
    steps = [None] + [tuple(e) for e in case["edits"]]
    for e in steps:
        if e is not None:
            M[tuple(e[0])] = e[1]
        cur = {k: v for k, v in dict(M).items()}
        lo, hi = fn(M)
        vs = variables_of(cur)
        vals = [peval(cur, x) for x in assignments(vs, spin)]
        if lo > min(vals) + 1e-9 or hi < max(vals) - 1e-9:
            return Fail("after edits up to %r: enclosure (%r, %r) does not contain [%r, %r] of %r"
                        % (e, lo, hi, min(vals), max(vals), cur), key="stale-enclosure")
        if all(not k or not v for k, v in cur.items()) and not (lo == hi == cur.get((), 0)):
            return Fail("after edits up to %r: constant model %r gives (%r, %r)" % (e, cur, lo, hi), key="stale-constant")
    return None


def _gen_trange(ctx):
    rng = ctx.rng("c15t")
    probs = [(0.5, 0.01), (0.9, 0.9), (0.3, 0.0), (0.0, 0.0), (0.99, 0.5), (0.5, 0.5)]
    n = ctx.pick(120, 2000)
    for spin in (False, True):
        types = (SPIN_TYPES if spin else BOOL_TYPES) + ["dict"]
        yield {"spin": spin, "type": "dict", "terms": {}, "p": (0.5, 0.01)}
        yield {"spin": spin, "type": "dict", "terms": {(): 3}, "p": (0.5, 0.01)}
        # plain dicts may store explicit zero coefficients: a model all of whose non-constant entries are 0 is a
        # model without variables
        for terms in ({(0,): 0}, {(0, 1): 0.0, (): 4}, {('a',): 0, ('a', 'b'): 0}, {('a',): 0, ('b',): 2}):
            for p in probs[:3]:
                yield {"spin": spin, "type": "dict", "terms": terms, "p": p}
        for terms in gen_models(rng, n // 6, LABELS[:3], 2, [0, 0, 1, -2], max_terms=3, raw=True, allow_zero=True):
            yield {"spin": spin, "type": "dict", "terms": terms, "p": rng.choice(probs)}
        for t in types:
            deg = 2 if t.startswith("Q") else 3
            labels = labels_for(t, 4) if t != "dict" else LABELS[:4]
            for terms in gen_models(rng, n // len(types), labels, deg, COEFS, max_terms=4):
                yield {"spin": spin, "type": t, "terms": terms, "p": rng.choice(probs)}
    for p in [(-0.1, 0.01), (0.5, 1.0), (1.0, 0.5), (0.1, 0.5), (0.5, -0.2)]:
        yield {"spin": True, "type": "dict", "terms": {('a',): 1}, "p": p, "inadmissible": True}


@clause("C15.temperature_range", "C15", gen=_gen_trange,
        nontrivial=lambda c: any(k for k in c["terms"]))
def check_trange(case):
    """anneal_temperature_range returns T0 >= Tf >= 0 for admissible probabilities (1 > start >= end >= 0),
    (0, 0) for a model without variables, ValueError for inadmissible pairs. Non-trivial: model has variables."""
    q = qv()
    terms = case["terms"]
    M = terms if case["type"] == "dict" else cls_of(case["type"])(terms)
    s, e = case["p"]
    if case.get("inadmissible"):
        try:
            q.sim.anneal_temperature_range(M, s, e, case["spin"])
        except ValueError:
            return None
        return Fail("inadmissible probabilities %r accepted" % (case["p"],), key="inadmissible-accepted")
    T0, Tf = q.sim.anneal_temperature_range(M, s, e, case["spin"])
    if not (T0 >= Tf >= 0):
        return Fail("T0=%r Tf=%r" % (T0, Tf), key="order")
    if not any(k for k, v in terms.items() if v) and (T0, Tf) != (0, 0):
        return Fail("model without variables gives %r" % ((T0, Tf),), key="novars")
    return None


def _gen_trange_cancel(ctx):
    for t in SPIN_TYPES + BOOL_TYPES:
        labels = labels_for(t, 2)
        yield {"type": t, "label": labels[0], "spin": t in SPIN_TYPES}


@clause("C15.temperature_range_cancelled", "C15", gen=_gen_trange_cancel)
def check_trange_cancel(case):
    """A model object whose terms have all cancelled (a model without variables) gives (0, 0)."""
    q = qv()
    M = cls_of(case["type"])()
    M[(case["label"],)] += 1
    M[(case["label"],)] -= 1
    r = q.sim.anneal_temperature_range(M, spin=case["spin"])
    if tuple(r) != (0, 0):
        return Fail("cancelled model gives %r" % (r,), key="cancelled-model")
    return None
