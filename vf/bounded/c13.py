"""C13 bounded stand-in: AnnealResults keeps `best` equal to the minimum under every list operation.

A *history* is a literal list of operations; it is run on a real ``qubovert.sim.AnnealResults`` and, independently, on
a plain Python list of triples ``(value, spin, state-items)`` (the *mirror*).  An operation that the plain list rejects
(IndexError for pop from an empty list, ValueError for remove of a missing element, ...) is not applied at all.  After
every applied step:

* the operation did not raise (the plain list accepted the operands);
* the contents of the collection equal the mirror's (compared as triples, i.e. with AnnealResult.__eq__ semantics);
* ``best`` is None exactly when the collection is empty, and otherwise equals (identity or ==) an element of the
  collection and has the smallest value;
* derived collections (slices, +, *, copy, filter..., to_boolean/to_spin, construction) are AnnealResults, have the
  contents the plain list computation gives and a correct ``best``; the source collection is unchanged by them.

Elements are built deterministically from their value: see ``_triple``.  Values are multiples of 0.5.

Op vocabulary (every op is a tuple, first entry the name; ``vs`` is a list of values, ``keep`` says whether the history
continues on the derived collection):
  ("append", v) ("add_state", v) ("insert", i, v) ("remove", v) ("remove_at", i) ("pop", i) ("clear",) ("sort",) ("sort", "reverse"|"key")
  ("extend", kind, vs) ("iadd", kind, vs)          kind in list|tuple|gen|ar|self   (self: res.extend(res))
  ("add", kind, vs, keep)                         kind in list|ar
  ("mul", k, keep) ("slice", a, b, step, keep) ("getitem", i)
  ("setitem", i, v) ("setslice", a, b, kind, vs) ("delitem", i) ("delslice", a, b)
  ("copy", keep) ("construct", kind, keep)        kind in list|tuple|gen|ar|iter
  ("filter", pred, keep) ("filter_states", pred, keep) ("apply_function", f, keep) ("convert_states", f, keep)
  ("to_boolean", keep) ("to_spin", keep)
"""
import itertools

from .common import clause, Fail, Skip, qv

VALS = [-1, 0, 0.5, 1, 2, 2.5, 3]
MODES = ["bool", "spin", "mixed"]
_LBL = [0, 'a', ('t', 1)]


# ---------------------------------------------------------------------------------------------
# elements
# ---------------------------------------------------------------------------------------------
def _spec(v, mode):
    """(state dict, value, spin) for value v: the state is the 3-bit binary code of int(2v) mod 8."""
    c = int(round(2 * v)) % 8
    spin = mode == "spin" or (mode == "mixed" and c % 2 == 1)
    bits = [(c >> j) & 1 for j in range(3)]
    state = {l: ((1 - 2 * b) if spin else b) for l, b in zip(_LBL, bits)}
    return state, v, spin


def _skey(state):
    return tuple(sorted(state.items(), key=repr))


def _triple(v, mode):
    s, v, sp = _spec(v, mode)
    return (v, sp, _skey(s))


def _obj(v, mode):
    s, v, sp = _spec(v, mode)
    return qv().sim.AnnealResult(s, v, sp)


def _trip_of(x):
    return (x.value, x.spin, _skey(x.state))


def _t_to_boolean(t):
    v, sp, st = t
    if not sp:
        return t
    return (v, False, tuple((k, (1 - s) // 2) for k, s in st))


def _t_to_spin(t):
    v, sp, st = t
    if sp:
        return t
    return (v, True, tuple((k, 1 - 2 * s) for k, s in st))


# named predicates / functions (a case holds only their names)
def _pred_triple(name):
    if name == "all":
        return lambda t: True
    if name == "none":
        return lambda t: False
    if name == "spin":
        return lambda t: t[1]
    kind, x = name.split(":")
    x = float(x)
    return (lambda t: t[0] < x) if kind == "lt" else (lambda t: t[0] >= x)


def _pred_obj(name):
    p = _pred_triple(name)
    return lambda r: p(_trip_of(r))


def _spred_items(name):
    # predicates on states
    if name == "all":
        return lambda st: True
    if name == "none":
        return lambda st: False
    if name == "first_one":
        return lambda st: dict(st).get(0) == 1
    if name == "a_low":
        return lambda st: dict(st).get('a') in (0, -1)
    raise ValueError(name)


def _fun_value(name):
    if name == "ident":
        return lambda v: v
    if name == "neg":
        return lambda v: -v
    if name == "abs":
        return lambda v: abs(v)
    if name == "shift":
        return lambda v: v + 1.5
    raise ValueError(name)


def _fun_state(name):
    if name in ("ident", "copy"):
        return lambda d: dict(d)
    if name == "relabel":
        return lambda d: {"x%r" % (k,): v for k, v in d.items()}
    raise ValueError(name)


# ---------------------------------------------------------------------------------------------
# mirror: the same operation on a plain list of triples.  Returns ("inplace", new_list) or
# ("derived", expected_list, keep) or ("get", expected_triple); raises _Reject when the plain list does.
# ---------------------------------------------------------------------------------------------
class _Reject(Exception):
    pass


def _operand_triples(kind, vs, m, mode):
    return list(m) if kind == "self" else [_triple(v, mode) for v in vs]


def _mirror(m, op, mode):
    name = op[0]
    m = list(m)
    try:
        if name in ("append", "add_state"):
            m.append(_triple(op[1], mode))
        elif name == "insert":
            m.insert(op[1], _triple(op[2], mode))
        elif name == "remove":
            m.remove(_triple(op[1], mode))
        elif name == "remove_at":
            m.remove(m[op[1]])
        elif name == "pop":
            m.pop(op[1])
        elif name == "clear":
            m.clear()
        elif name == "sort":
            # list.sort is stable, so is a sort through __lt__ on values; ("sort", "reverse"|"key") sort descending
            m.sort(key=lambda t: t[0], reverse=len(op) > 1)
        elif name == "extend":
            m.extend(_operand_triples(op[1], op[2], m, mode))
        elif name == "iadd":
            m += _operand_triples(op[1], op[2], m, mode)
        elif name == "setitem":
            m[op[1]] = _triple(op[2], mode)
        elif name == "setslice":
            m[op[1]:op[2]] = _operand_triples(op[3], op[4], m, mode)
        elif name == "delitem":
            del m[op[1]]
        elif name == "delslice":
            del m[op[1]:op[2]]
        elif name == "getitem":
            return ("get", m[op[1]])
        elif name == "add":
            return ("derived", m + _operand_triples(op[1], op[2], m, mode), op[3])
        elif name == "mul":
            return ("derived", m * op[1], op[2])
        elif name == "rmul":
            return ("derived", op[1] * m, op[2])
        elif name == "slice":
            return ("derived", m[op[1]:op[2]:op[3]], op[4])
        elif name in ("copy", "construct"):
            return ("derived", list(m), op[-1])
        elif name == "filter":
            return ("derived", list(filter(_pred_triple(op[1]), m)), op[2])
        elif name == "filter_states":
            p = _spred_items(op[1])
            return ("derived", [t for t in m if p(t[2])], op[2])
        elif name == "apply_function":
            f = _fun_value(op[1])
            return ("derived", [(f(t[0]), t[1], t[2]) for t in m], op[2])
        elif name == "convert_states":
            f = _fun_state(op[1])
            return ("derived", [(t[0], t[1], _skey(f(dict(t[2])))) for t in m], op[2])
        elif name == "to_boolean":
            return ("derived", [_t_to_boolean(t) for t in m], op[1])
        elif name == "to_spin":
            return ("derived", [_t_to_spin(t) for t in m], op[1])
        else:
            raise RuntimeError("unknown op %r" % (op,))
    except (IndexError, ValueError):
        raise _Reject()
    return ("inplace", m)


# ---------------------------------------------------------------------------------------------
# the same operation on the real AnnealResults
# ---------------------------------------------------------------------------------------------
def _operand_obj(kind, vs, res, mode):
    q = qv()
    objs = [_obj(v, mode) for v in vs]
    if kind == "self":
        return res
    if kind == "list":
        return objs
    if kind == "tuple":
        return tuple(objs)
    if kind == "gen":
        return (o for o in objs)
    if kind == "iter":
        return iter(objs)
    if kind == "ar":
        return q.sim.AnnealResults(objs)
    raise ValueError(kind)


def _library(res, op, mode):
    """Applies op to the AnnealResults `res`; returns (new_res, derived_or_None, got_or_None)."""
    q = qv()
    AR, R = q.sim.AnnealResults, q.sim.AnnealResult
    name = op[0]
    if name == "append":
        res.append(_obj(op[1], mode))
    elif name == "add_state":
        res.add_state(*_spec(op[1], mode))
    elif name == "insert":
        res.insert(op[1], _obj(op[2], mode))
    elif name == "remove":
        res.remove(_obj(op[1], mode))
    elif name == "remove_at":
        res.remove(list.__getitem__(res, op[1]))
    elif name == "pop":
        res.pop(op[1])
    elif name == "clear":
        res.clear()
    elif name == "sort":
        if len(op) == 1:
            res.sort()
        elif op[1] == "reverse":
            res.sort(reverse=True)
        else:
            res.sort(key=lambda r: -r.value)
    elif name == "extend":
        res.extend(_operand_obj(op[1], op[2], res, mode))
    elif name == "iadd":
        res += _operand_obj(op[1], op[2], res, mode)
    elif name == "setitem":
        res[op[1]] = _obj(op[2], mode)
    elif name == "setslice":
        res[op[1]:op[2]] = _operand_obj(op[3], op[4], res, mode)
    elif name == "delitem":
        del res[op[1]]
    elif name == "delslice":
        del res[op[1]:op[2]]
    elif name == "getitem":
        return res, None, res[op[1]]
    elif name == "add":
        return res, res + _operand_obj(op[1], op[2], res, mode), None
    elif name == "mul":
        return res, res * op[1], None
    elif name == "rmul":
        return res, op[1] * res, None
    elif name == "slice":
        return res, res[op[1]:op[2]:op[3]], None
    elif name == "copy":
        return res, res.copy(), None
    elif name == "construct":
        kind = op[1]
        src = list(list.__iter__(res))
        arg = {"list": lambda: src, "tuple": lambda: tuple(src), "gen": lambda: (x for x in src),
               "iter": lambda: iter(src), "ar": lambda: res}[kind]()
        return res, AR(arg), None
    elif name == "filter":
        return res, res.filter(_pred_obj(op[1])), None
    elif name == "filter_states":
        p = _spred_items(op[1])
        return res, res.filter_states(lambda st: p(_skey(st))), None
    elif name == "apply_function":
        f = _fun_value(op[1])
        if op[1] == "ident":
            return res, res.apply_function(lambda r: r), None
        return res, res.apply_function(lambda r: R(r.state, f(r.value), r.spin)), None
    elif name == "convert_states":
        return res, res.convert_states(_fun_state(op[1])), None
    elif name == "to_boolean":
        return res, res.to_boolean(), None
    elif name == "to_spin":
        return res, res.to_spin(), None
    else:
        raise RuntimeError("unknown op %r" % (op,))
    return res, None, None


# ---------------------------------------------------------------------------------------------
# invariants
# ---------------------------------------------------------------------------------------------
def _inv(res, m, what, opname):
    """Contents equal the mirror's, and `best` is right.  Returns Fail or None."""
    q = qv()
    if not isinstance(res, q.sim.AnnealResults):
        return Fail("%s: result is %s, not AnnealResults" % (what, type(res).__name__), key="not-AnnealResults:" + opname)
    elems = list(list.__iter__(res))
    got = [_trip_of(x) for x in elems]
    if got != list(m):
        return Fail("%s: contents differ from the plain-list computation" % what, key="contents:" + opname,
                    observed=got, required=list(m))
    if len(res) != len(m):
        return Fail("%s: len %d, plain list %d" % (what, len(res), len(m)), key="len:" + opname)
    best = getattr(res, "best", "<no attribute>")
    if not m:
        if best is not None:
            return Fail("%s: collection empty but best = %r" % (what, best), key="stale-best:" + opname,
                        observed=repr(best), required="None")
        return None
    if best is None or not hasattr(best, "value"):
        return Fail("%s: collection non-empty but best = %r" % (what, best), key="best-none:" + opname,
                    observed=repr(best), required="an element with value %r" % min(t[0] for t in m))
    lo = min(t[0] for t in m)
    member = any(best is x for x in elems) or _trip_of(best) in got
    if not member:
        return Fail("%s: best %r is not an element of the collection %r" % (what, best, elems),
                    key="stale-best:" + opname, observed=repr(best), required="an element with value %r" % lo)
    if best.value != lo:
        return Fail("%s: best.value = %r but the smallest value is %r" % (what, best.value, lo),
                    key="stale-best:" + opname, observed=best.value, required=lo)
    return None


def _raise_key(op, m, mode):
    name = op[0]
    if name in ("extend", "iadd", "add", "setslice"):
        kind = op[1] if name != "setslice" else op[3]
        vs = op[2] if name != "setslice" else op[4]
        other_empty = (len(m) == 0) if kind == "self" else (len(vs) == 0)
        if kind in ("ar", "self") and (other_empty or len(m) == 0):
            return "raises:%s:%s:empty-operand" % (name, kind)
        return "raises:%s:%s" % (name, kind)
    return "raises:" + name


def _run_history(case):
    q = qv()
    mode = case.get("mode", "bool")
    init = case.get("init", [])
    kind = case.get("init_kind", "list")
    m = [_triple(v, mode) for v in init]
    try:
        if kind == "none":
            res = q.sim.AnnealResults()
        else:
            res = q.sim.AnnealResults(_operand_obj(kind, init, None, mode))
    except Exception as e:       # noqa
        return Fail("construction from %s of %r raised %s: %s" % (kind, init, type(e).__name__, e),
                    key="raises:construct:" + kind)
    f = _inv(res, m, "after construction from %s of values %r" % (kind, init), "construct")
    if f:
        return f
    applied = 0
    for n, op in enumerate(case.get("ops", [])):
        op = tuple(op)
        name = op[0]
        try:
            r = _mirror(m, op, mode)
        except _Reject:
            continue                    # the plain list rejects these operands: nothing is demanded
        what = "step %d %r on values %r" % (n, op, [t[0] for t in m])
        try:
            res2, derived, got = _library(res, op, mode)
        except Exception as e:          # noqa
            return Fail("%s raised %s: %s (the plain list accepts these operands)" % (what, type(e).__name__, e),
                        key=_raise_key(op, m, mode), observed="%s: %s" % (type(e).__name__, e),
                        required="no exception")
        applied += 1
        if r[0] == "inplace":
            res = res2
            if name == "sort":
                # demanded: ordered by value, same elements (stability is not demanded)
                got = [_trip_of(x) for x in list.__iter__(res)]
                if sorted(got, key=repr) != sorted(m, key=repr):
                    return Fail("after %s: elements changed" % what, key="contents:sort", observed=got, required=m)
                vals = [t[0] for t in got]
                desc = len(op) > 1
                if any((a < b) if desc else (a > b) for a, b in zip(vals, vals[1:])):
                    return Fail("after %s the values are not in %s order: %r"
                                % (what, "non-increasing" if desc else "non-decreasing", vals),
                                key="sort-order", observed=vals, required=sorted(vals, reverse=desc))
                m = got
            else:
                m = r[1]
            f = _inv(res, m, "after " + what, name)
            if f:
                return f
        elif r[0] == "get":
            if _trip_of(got) != r[1]:
                return Fail("%s returned %r" % (what, got), key="getitem", observed=_trip_of(got), required=r[1])
        else:
            _, exp, keep = r
            f = _inv(derived, exp, "derived collection of " + what, name)
            if f:
                return f
            f = _inv(res, m, "source collection after " + what, name + ":source-changed")
            if f:
                return f
            if name in ("to_boolean", "to_spin"):
                f = _check_conversion(res, derived, name, what)
                if f:
                    return f
            if keep:
                res, m = derived, exp
    if not applied and case.get("ops"):
        return Skip("the plain list rejects every operation of this history")
    return None


def _check_conversion(res, derived, name, what):
    """to_boolean/to_spin preserve values and are mutually inverse on states (checked against the source)."""
    src = list(list.__iter__(res))
    der = list(list.__iter__(derived))
    want_spin = name == "to_spin"
    for a, b in zip(src, der):
        if b.value != a.value:
            return Fail("%s changed a value: %r -> %r" % (what, a.value, b.value), key="conversion-value:" + name)
        if b.spin != want_spin:
            return Fail("%s: spin flag %r" % (what, b.spin), key="conversion-flag:" + name)
        dom = (1, -1) if want_spin else (0, 1)
        if set(b.state) != set(a.state) or any(v not in dom for v in b.state.values()):
            return Fail("%s: state %r -> %r" % (what, a.state, b.state), key="conversion-state:" + name)
    # round trip: converting back gives the source states again
    back = derived.to_spin() if name == "to_boolean" else derived.to_boolean()
    again = back.to_boolean() if name == "to_boolean" else back.to_spin()
    for b, c in zip(der, list(list.__iter__(again))):
        if c.state != b.state or c.value != b.value:
            return Fail("%s: %s then the inverse conversion and %s again gives %r, expected %r"
                        % (what, name, name, c, b), key="conversion-not-inverse:" + name)
    for a, c in zip(src, list(list.__iter__(back))):
        if a.spin == (name == "to_boolean") and (c.state != a.state or c.value != a.value or c.spin != a.spin):
            return Fail("%s: %s followed by the inverse conversion gives %r, expected %r" % (what, name, c, a),
                        key="conversion-not-inverse:" + name)
    return None


# ---------------------------------------------------------------------------------------------
# generators
# ---------------------------------------------------------------------------------------------
INITS = [[], [1], [1, 1], [2, 1], [1, 2], [2, 1, 3], [0.5, -1, 0.5], [3, 3, 0]]
OPERANDS = [[], [1], [0], [3], [1, 1], [0, 2], [2.5, -1, 2.5]]


def _rand_vals(rng, lo=0, hi=3):
    return [rng.choice(VALS) for _ in range(rng.randint(lo, hi))]


def _rand_index(rng, n, wild=0.08):
    if n == 0 or rng.random() < wild:
        return rng.randint(-n - 2, n + 1)
    return rng.randint(-n, n - 1)


def _rand_op(rng, name, m):
    n = len(m)
    keep = rng.random() < 0.5
    vals_here = [t[0] for t in m]
    if name in ("append", "add_state"):
        return (name, rng.choice(vals_here + VALS if rng.random() < 0.5 else VALS))
    if name == "insert":
        return (name, rng.randint(-n - 1, n + 1), rng.choice(VALS))
    if name == "remove":
        return (name, rng.choice(vals_here) if vals_here and rng.random() < 0.9 else rng.choice(VALS))
    if name in ("remove_at", "pop", "delitem", "getitem"):
        return (name, _rand_index(rng, n))
    if name == "sort":
        return rng.choice([(name,), (name,), (name, "reverse"), (name, "key")])
    if name == "clear":
        return (name,)
    if name in ("extend", "iadd"):
        kind = rng.choice(["list", "tuple", "gen", "ar", "ar", "self"])
        return (name, kind, [] if kind == "self" else _rand_vals(rng))
    if name == "add":
        return (name, rng.choice(["list", "ar"]), _rand_vals(rng), keep)
    if name in ("mul", "rmul"):
        return (name, rng.choice([-1, 0, 1, 2, 3]), keep)
    if name == "slice":
        a = rng.choice([None] + list(range(-n - 1, n + 2)))
        b = rng.choice([None] + list(range(-n - 1, n + 2)))
        return (name, a, b, rng.choice([None, None, 1, 2, -1]), keep)
    if name == "setitem":
        return (name, _rand_index(rng, n), rng.choice(VALS))
    if name == "setslice":
        a = rng.randint(0, n)
        return (name, a, rng.randint(a, n), rng.choice(["list", "ar", "gen", "tuple"]), _rand_vals(rng))
    if name == "delslice":
        a = rng.randint(0, n)
        return (name, a, rng.randint(a, n))
    if name == "copy":
        return (name, keep)
    if name == "construct":
        return (name, rng.choice(["list", "tuple", "gen", "iter", "ar"]), keep)
    if name == "filter":
        return (name, rng.choice(["all", "none", "spin", "lt:1", "lt:2.5", "ge:1", "ge:0.5"]), keep)
    if name == "filter_states":
        return (name, rng.choice(["all", "none", "first_one", "a_low"]), keep)
    if name == "apply_function":
        return (name, rng.choice(["ident", "neg", "abs", "shift"]), keep)
    if name == "convert_states":
        return (name, rng.choice(["ident", "copy", "relabel"]), keep)
    if name in ("to_boolean", "to_spin"):
        return (name, keep)
    raise ValueError(name)


def _follow(m, op, mode):
    """mirror state after op (used by generators to keep indices meaningful)."""
    try:
        r = _mirror(m, op, mode)
    except _Reject:
        return m
    if r[0] == "inplace":
        return r[1]
    if r[0] == "derived" and r[2]:
        return r[1]
    return m


def _rand_histories(ctx, salt, names, n_quick, n_thorough, weights=None):
    rng = ctx.rng(salt)
    n = ctx.pick(n_quick, n_thorough)
    maxlen = ctx.pick(8, 20)
    for _ in range(n):
        mode = rng.choice(MODES)
        init = _rand_vals(rng, 0, 4)
        m = [_triple(v, mode) for v in init]
        ops = []
        for _ in range(rng.randint(1, maxlen)):
            name = rng.choices(names, weights)[0] if weights else rng.choice(names)
            op = _rand_op(rng, name, m)
            ops.append(op)
            m = _follow(m, op, mode)
        yield {"mode": mode, "init": init, "init_kind": rng.choice(["list", "ar", "gen", "none" if not init else "tuple"]),
               "ops": ops}


def _applicable_ops(case, names=None):
    """Names of ops in the history which the plain list accepts (non-triviality rules are built on this)."""
    mode = case.get("mode", "bool")
    m = [_triple(v, mode) for v in case.get("init", [])]
    out = []
    for op in case.get("ops", []):
        op = tuple(op)
        try:
            r = _mirror(m, op, mode)
        except _Reject:
            continue
        out.append((op, len(m)))
        m = _follow(m, op, mode)
    return [(op, n) for op, n in out if names is None or op[0] in names]


# --- construction ---------------------------------------------------------------------------
def _gen_construct(ctx):
    for mode in MODES:
        yield {"mode": mode, "init": [], "init_kind": "none"}
        for k in range(0, 4):
            for init in itertools.product([1, 0, 2.5], repeat=k):
                for kind in ("list", "tuple", "gen", "iter", "ar"):
                    yield {"mode": mode, "init": list(init), "init_kind": kind}
    rng = ctx.rng("c13.construct")
    for _ in range(ctx.pick(200, 4000)):
        yield {"mode": rng.choice(MODES), "init": _rand_vals(rng, 0, ctx.pick(6, 12)),
               "init_kind": rng.choice(["list", "tuple", "gen", "iter", "ar"])}


@clause("C13.construct", "C13", gen=_gen_construct, nontrivial=lambda c: len(c["init"]) >= 2)
def check_construct(case):
    """AnnealResults() / AnnealResults(iterable) for a list, tuple, generator, iterator or AnnealResults of
    AnnealResult objects (possibly empty, possibly with duplicated values): is an AnnealResults with the iterable's
    contents; best is None iff empty, else an element with the smallest value. Non-trivial: at least two elements."""
    return _run_history(case)


# --- grow / shrink ---------------------------------------------------------------------------
_GROW = ["append", "add_state", "insert", "remove", "remove_at", "pop", "clear", "sort", "extend", "iadd", "getitem"]


def _gen_grow(ctx):
    for mode in ("bool", "mixed"):
        for init in INITS:
            n = len(init)
            singles = [("append", v) for v in (0, 1, 3)] + [("add_state", v) for v in (0, 1, 3)]
            singles += [("insert", i, v) for i in (0, 1, -1, 5) for v in (0, 1, 3)]
            singles += [("remove", v) for v in sorted(set(init))] + [("remove_at", i) for i in range(n)]
            singles += [("pop", i) for i in range(-n, n)] + [("clear",), ("sort",)]
            singles += [(o, k, vs) for o in ("extend", "iadd") for k in ("list", "tuple", "gen") for vs in OPERANDS]
            for op in singles:
                yield {"mode": mode, "init": init, "init_kind": "list", "ops": [op]}
            if mode == "bool" and n <= 2:
                for op1 in singles:
                    m = _follow([_triple(v, mode) for v in init], op1, mode)
                    k = len(m)
                    for op2 in ([("pop", i) for i in range(-k, k)] + [("remove", t[0]) for t in m]
                                + [("append", 0), ("insert", 0, 0), ("clear",), ("extend", "gen", [0]),
                                   ("iadd", "list", [])]):
                        yield {"mode": mode, "init": init, "init_kind": "list", "ops": [op1, op2]}
    names = [x for x in _GROW]
    for c in _rand_histories(ctx, "c13.grow", names, 1500, 30000):
        c["ops"] = [op for op in c["ops"] if not (op[0] in ("extend", "iadd") and op[1] in ("ar", "self"))]
        if c["ops"]:
            yield c


@clause("C13.grow_shrink", "C13", gen=_gen_grow,
        nontrivial=lambda c: len(_applicable_ops(c)) >= 1)
def check_grow(case):
    """Histories of append, add_state, insert, remove, pop(index), clear, sort, extend and += with a plain
    list/tuple/generator of AnnealResult (possibly empty) on empty or non-empty collections with duplicated values:
    no raise where the plain list accepts, contents equal the plain list's, best is None iff empty else a
    minimum-valued element. Non-trivial: at least one operation of the history is accepted by the plain list."""
    return _run_history(case)


# --- extend / += with AnnealResults operands -------------------------------------------------
def _gen_extend_ar(ctx):
    for name in ("extend", "iadd"):
        for init in INITS[:6]:
            for vs in OPERANDS:
                yield {"mode": "bool", "init": init, "init_kind": "list", "ops": [(name, "ar", vs)]}
            yield {"mode": "bool", "init": init, "init_kind": "list", "ops": [(name, "self", [])]}
    # after emptying / after growing
    for name in ("extend", "iadd"):
        for vs in OPERANDS[:4]:
            yield {"mode": "spin", "init": [1, 2], "init_kind": "ar", "ops": [("clear",), (name, "ar", vs)]}
            yield {"mode": "spin", "init": [1], "init_kind": "ar", "ops": [("pop", 0), (name, "ar", vs)]}
            yield {"mode": "spin", "init": [], "init_kind": "none", "ops": [("append", 2), (name, "ar", vs),
                                                                           (name, "ar", [0])]}
    names = ["extend", "iadd", "append", "pop", "clear", "insert", "remove_at"]
    for c in _rand_histories(ctx, "c13.extar", names, 1200, 25000, weights=[4, 4, 2, 2, 1, 1, 1]):
        c["ops"] = [(op[0], rng_kind(op), op[2]) if op[0] in ("extend", "iadd") else op for op in c["ops"]]
        yield c


def rng_kind(op):
    # in this clause every extend/iadd operand is an AnnealResults (or the collection itself)
    return op[1] if op[1] in ("ar", "self") else "ar"


def _nt_extend_ar(case):
    return any(op[1] in ("ar", "self") for op, n in _applicable_ops(case, ("extend", "iadd")))


@clause("C13.extend_iadd_AnnealResults", "C13", gen=_gen_extend_ar, nontrivial=_nt_extend_ar)
def check_extend_ar(case):
    """res.extend(other) and res += other where other is an AnnealResults (empty or not, possibly res itself), on
    an empty or non-empty res, inside histories: no raise (list.extend accepts any list), contents are the
    concatenation, best is None iff the result is empty else a minimum-valued element. Non-trivial: the history
    contains an extend/+= with an AnnealResults operand."""
    return _run_history(case)


# --- item assignment / deletion ---------------------------------------------------------------
def _gen_item(ctx):
    for init in INITS[1:]:
        n = len(init)
        for i in range(-n, n):
            for v in (0, 1, 3, 5):
                yield {"mode": "bool", "init": init, "init_kind": "list", "ops": [("setitem", i, v)]}
            yield {"mode": "bool", "init": init, "init_kind": "list", "ops": [("delitem", i)]}
        for a in range(0, n + 1):
            for b in range(a, n + 1):
                yield {"mode": "bool", "init": init, "init_kind": "list", "ops": [("delslice", a, b)]}
                for kind in ("list", "ar", "gen"):
                    for vs in OPERANDS[:5]:
                        yield {"mode": "bool", "init": init, "init_kind": "list",
                               "ops": [("setslice", a, b, kind, vs)]}
    for kind in ("list", "ar"):
        for vs in OPERANDS[:4]:
            yield {"mode": "bool", "init": [], "init_kind": "none", "ops": [("setslice", 0, 0, kind, vs)]}
    names = ["setitem", "setslice", "delitem", "delslice", "append", "insert", "pop", "getitem"]
    for c in _rand_histories(ctx, "c13.item", names, 1200, 25000, weights=[4, 3, 4, 3, 2, 1, 1, 1]):
        yield c


@clause("C13.item_assign_delete", "C13", gen=_gen_item,
        nontrivial=lambda c: len(_applicable_ops(c, ("setitem", "setslice", "delitem", "delslice"))) >= 1)
def check_item(case):
    """res[i] = r, res[a:b] = iterable, del res[i], del res[a:b] inside histories: contents equal the plain
    list's and best stays None iff empty / a minimum-valued element of the collection (the old best may have been
    overwritten or deleted, the new element may be smaller). Non-trivial: at least one such operation is accepted by
    the plain list."""
    return _run_history(case)


# --- derived collections ----------------------------------------------------------------------
_DERIVED = ["slice", "add", "mul", "rmul", "copy", "construct", "filter", "filter_states", "apply_function", "convert_states"]


def _gen_derived(ctx):
    for mode in ("bool", "mixed"):
        for init in INITS:
            n = len(init)
            ops = [("slice", a, b, s, False) for a in (None, 0, 1, -1) for b in (None, 0, 1, n, -1)
                   for s in (None, 2, -1)]
            ops += [("add", k, vs, False) for k in ("list", "ar") for vs in OPERANDS]
            ops += [("mul", k, False) for k in (-1, 0, 1, 2, 3)] + [("rmul", k, False) for k in (0, 1, 2)]
            ops += [("copy", False)] + [("construct", k, False) for k in ("list", "tuple", "gen", "iter", "ar")]
            ops += [("filter", p, False) for p in ("all", "none", "spin", "lt:1", "lt:2.5", "ge:1", "ge:0.5")]
            ops += [("filter_states", p, False) for p in ("all", "none", "first_one", "a_low")]
            ops += [("apply_function", f, False) for f in ("ident", "neg", "abs", "shift")]
            ops += [("convert_states", f, False) for f in ("ident", "copy", "relabel")]
            for op in ops:
                yield {"mode": mode, "init": init, "init_kind": "list", "ops": [op]}
    names = _DERIVED + ["append", "pop", "insert", "sort"]
    for c in _rand_histories(ctx, "c13.derived", names, 1500, 30000):
        yield c


@clause("C13.derived_collections", "C13", gen=_gen_derived,
        nontrivial=lambda c: len(_applicable_ops(c, _DERIVED)) >= 1)
def check_derived(case):
    """res[a:b:s], res + other (other a list or AnnealResults), res * int, copy, AnnealResults(res), filter,
    filter_states, apply_function, convert_states: the result is an AnnealResults whose contents are what the plain
    list computation gives and whose best is None iff empty else a minimum-valued element of *it* (filter may drop
    the old best, apply_function may change the order of values); the source is unchanged. Histories may continue on
    the derived collection. Non-trivial: at least one derived-collection operation is applied."""
    return _run_history(case)


# --- to_boolean / to_spin ---------------------------------------------------------------------
def _gen_conv(ctx):
    for mode in MODES:
        for init in INITS + [[0, 0.5, 1, 2, 2.5, 3, -1]]:
            for name in ("to_boolean", "to_spin"):
                yield {"mode": mode, "init": init, "init_kind": "list", "ops": [(name, False)]}
                other = "to_spin" if name == "to_boolean" else "to_boolean"
                yield {"mode": mode, "init": init, "init_kind": "list", "ops": [(name, True), (other, True),
                                                                               (name, True)]}
    names = ["to_boolean", "to_spin", "append", "pop", "sort", "filter", "apply_function", "extend"]
    for c in _rand_histories(ctx, "c13.conv", names, 800, 16000, weights=[4, 4, 2, 1, 1, 1, 1, 1]):
        c["ops"] = [op for op in c["ops"] if not (op[0] == "extend" and op[1] in ("ar", "self"))]
        if c["ops"]:
            yield c


@clause("C13.to_boolean_to_spin", "C13", gen=_gen_conv,
        nontrivial=lambda c: any(n > 0 for op, n in _applicable_ops(c, ("to_boolean", "to_spin"))))
def check_conv(case):
    """to_boolean / to_spin of collections of boolean, spin or mixed results: an AnnealResults of the same length,
    values unchanged, spin flags all False resp. True, states over the same labels with values in {0,1} resp. {1,-1}
    following 0<->1, 1<->-1, best correct; the two conversions are mutually inverse on states; the source is
    unchanged. Non-trivial: a conversion is applied to a non-empty collection."""
    return _run_history(case)


# --- sort -------------------------------------------------------------------------------------
def _gen_sort(ctx):
    for mode in ("bool", "mixed"):
        for k in range(0, 5):
            for init in itertools.product([2, 1, 0.5], repeat=k):
                yield {"mode": mode, "init": list(init), "init_kind": "list", "ops": [("sort",)]}
                yield {"mode": mode, "init": list(init), "init_kind": "list", "ops": [("sort", "reverse")]}
                yield {"mode": mode, "init": list(init), "init_kind": "list", "ops": [("sort", "key")]}
    rng = ctx.rng("c13.sort")
    for _ in range(ctx.pick(400, 8000)):
        mode = rng.choice(MODES)
        init = _rand_vals(rng, 0, ctx.pick(7, 14))
        m = [_triple(v, mode) for v in init]
        ops = []
        for _ in range(rng.randint(0, 4)):
            op = _rand_op(rng, rng.choice(["append", "insert", "pop", "remove_at", "mul", "add", "apply_function"]), m)
            ops.append(op)
            m = _follow(m, op, mode)
        yield {"mode": mode, "init": init, "init_kind": "list", "ops": ops + [("sort",)]}
        # the inherited keyword arguments of list.sort, followed by edits that leave the best element in place
        how = rng.choice(["reverse", "key"])
        tail = [("append", max(init) + 1)] if init and rng.random() < 0.5 else []
        yield {"mode": mode, "init": init, "init_kind": "list", "ops": ops + [("sort", how)] + tail}


def _nt_sort(case):
    vals = case["init"]
    return len(vals) >= 2 and any(a > b for a, b in zip(vals, vals[1:]))


@clause("C13.sort", "C13", gen=_gen_sort, nontrivial=_nt_sort)
def check_sort(case):
    """sort() (after an arbitrary short history) orders the collection by value (non-decreasing; equal values keep
    any relative order), keeps the multiset of elements and a correct best.
    Non-trivial: the initial collection is not already sorted."""
    return _run_history(case)


# --- everything together ----------------------------------------------------------------------
_ALL = _GROW + ["setitem", "setslice", "delitem", "delslice"] + _DERIVED + ["to_boolean", "to_spin"]


def _gen_all(ctx):
    for c in _rand_histories(ctx, "c13.all", _ALL, 2500, 50000):
        yield c


@clause("C13.history_all_ops", "C13", gen=_gen_all, nontrivial=lambda c: len(_applicable_ops(c)) >= 3)
def check_all(case):
    """Random histories (length <= 8 quick, <= 20 thorough) over *all* the listed operations, with empty and
    non-empty operands of every kind and duplicated values; all clauses of C13 are evaluated after every step.
    Non-trivial: at least three operations of the history are accepted by the plain list."""
    return _run_history(case)
