"""Bounded stand-in clauses, one module per property (cNN.py)."""
import importlib
import os
import pkgutil

_loaded = False


def load_all():
    global _loaded
    if _loaded:
        return
    _loaded = True
    here = os.path.dirname(__file__)
    for m in sorted(pkgutil.iter_modules([here])):
        if m.name.startswith("c") and m.name[1:3].isdigit():
            importlib.import_module(__name__ + "." + m.name)
