"""Bounded stand-in clauses, one module per property (cNN.py)."""
import importlib
import os
import pkgutil
import traceback

_loaded = False
LOAD_ERRORS = {}      # module name -> traceback text


def load_all():
    global _loaded
    if _loaded:
        return
    _loaded = True
    here = os.path.dirname(__file__)
    for m in sorted(pkgutil.iter_modules([here])):
        if m.name.startswith("c") and m.name[1:3].isdigit():
            try:
                importlib.import_module(__name__ + "." + m.name)
            except Exception:
                LOAD_ERRORS[m.name] = traceback.format_exc()
