"""C03 bounded stand-in: PCSO comparison constraints become exact non-negative penalties on spins.

Same contract evaluation as c02.py (helpers imported from there), with spin truth tables: an index bit set means the
spin is -1. The added polynomial F = (PCSO after) - (PCSO before) is a function of H's spins z and of fresh ancilla
*spins* '__a<k>'.
"""
import itertools

from .common import clause, Skip, LABELS, INT_COEFS, gen_models, all_small_models
from .c02 import (RELS, LAMS, QUICK_BITS, THOROUGH_BITS, run_penalty_case, true_range, case_bits, both_outcomes,
                  _to_bool, _special_polys, _gen_valid, run_valid_case, _nontrivial_valid, _gen_sequence,
                  run_sequence_case, anc_estimate, sum_enclosure, with_copies, with_argtypes, with_forks)


def to_spin(terms):
    """Boolean polynomial -> spin polynomial under x = (1 - z)/2 (independent expansion; exact in binary floats)."""
    out = {}
    for k, v in terms.items():
        labs = []
        for lab in k:              # x*x = x
            if lab not in labs:
                labs.append(lab)
        n = len(labs)
        for r in range(n + 1):
            for sub in itertools.combinations(labs, r):
                out[sub] = out.get(sub, 0) + v * (-1) ** r / 2 ** n
    res = {}
    for k, v in out.items():
        if v:
            res[k] = int(v) if v == int(v) else v
    return res


def _bits(H, rel, log, bounds):
    return case_bits(H, rel, log, bounds, boolP=_to_bool(H))


def _nontrivial(case):
    """H has a non-constant term and both outcomes of the relation occur over the spin assignments."""
    H = case["P"]
    return any(k and v for k, v in H.items()) and both_outcomes(H, case["rel"], spin=True)


def _run(case):
    return run_penalty_case(case, "PCSO", spin=True)


# ---------------------------------------------------------------------------------------------
def _gen_small(ctx):
    labels = LABELS[:3]
    limit = ctx.pick(QUICK_BITS, THOROUGH_BITS)
    for H in all_small_models(labels, ctx.pick(2, 3), ctx.pick([-1, 1, 2], [-2, -1, 1, 2]), 2):
        lo, hi = true_range(H, spin=True)
        for rel in RELS:
            for log in ((True,) if rel == "eq" else (True, False)):
                for bounds in (None, (lo, hi)):
                    if _bits(H, rel, log, bounds) <= limit:
                        yield {"P": H, "rel": rel, "lam": 1, "log": log, "bounds": bounds}


@clause("C03.penalty_small", "C03", gen=_gen_small, nontrivial=_nontrivial)
def check_small(case):
    """Every spin polynomial with at most two terms (degree <= 2, coefficients in {-1,1,2}, three labels of mixed
    type, constant allowed) under each relation, log_trick both ways, bounds omitted or exact, lam = 1, on an empty
    PCSO: the added polynomial F involves only H's spins and fresh '__a' ancilla spins; on the whole spin truth table
    F >= 0, min over ancilla spins of F is 0 where H R 0 and F >= lam for all ancilla values elsewhere (only F >= 0
    when 'cannot be satisfied' was warned). Non-trivial: non-constant H for which both outcomes occur."""
    return _run(case)


# ---------------------------------------------------------------------------------------------
def _gen_random(ctx):
    rng = ctx.rng("c03.random")
    limit = ctx.pick(QUICK_BITS, THOROUGH_BITS)
    n = ctx.pick(400, 8000)
    lams = LAMS + ((0.25, 7) if ctx.thorough else ())
    for H in gen_models(rng, n, LABELS[:4], 3, INT_COEFS, max_terms=ctx.pick(3, 4), min_terms=1):
        if not any(H):
            continue
        lo, hi = true_range(H, spin=True)
        variants = [None, (lo, None), (None, hi), (lo, hi), (lo - 1, hi + 2), (lo - 2, hi), (lo, hi + 1),
                    (lo - 0.5, hi + 0.5)]
        for rel in RELS:
            log = rng.random() < 0.5
            bounds = rng.choice(variants)
            if _bits(H, rel, log, bounds) > limit:
                log = True
            if _bits(H, rel, log, bounds) > limit:
                bounds = (lo, hi)
            if _bits(H, rel, log, bounds) > limit:
                continue
            yield {"P": H, "rel": rel, "lam": rng.choice(lams), "log": log, "bounds": bounds}


@clause("C03.penalty_random", "C03", gen=_gen_random, nontrivial=_nontrivial)
def check_random(case):
    """Seeded random integer-coefficient spin polynomials of degree <= 3 over four labels of mixed type, all six
    relations, lam in {0.5, 1, 3}, log_trick both ways, bounds omitted / one-sided / exact / loose valid enclosures
    (bounds refer to the values of H): same contract as C03.penalty_small."""
    return _run(case)


# ---------------------------------------------------------------------------------------------
def _gen_images(ctx):
    """Spin images of the boolean special forms: integer *valued* spin polynomials with half-integer coefficients whose
    boolean form hits each shortcut branch of the PCBO code that PCSO delegates to."""
    limit = ctx.pick(QUICK_BITS, THOROUGH_BITS)
    for name, P in _special_polys():
        if any(len(set(k)) != len(k) for k in P):
            continue
        H = to_spin(P)
        lo, hi = true_range(H, spin=True) if H else (0, 0)
        for rel in RELS:
            for log in ((True,) if rel == "eq" else (True, False)):
                for bounds in [None, (lo, hi), (lo, None), (None, hi), (lo - 1, hi + 1)]:
                    if _bits(H, rel, log, bounds) > limit:
                        continue
                    for lam in (LAMS if ctx.thorough or bounds is None else (1,)):
                        yield {"form": name, "P": H, "rel": rel, "lam": lam, "log": log, "bounds": bounds}


@clause("C03.special_forms", "C03", gen=_gen_images, nontrivial=lambda c: any(k for k in c["P"]))
def check_images(case):
    """Integer-valued spin polynomials obtained as x = (1 - z)/2 images of the boolean special forms of
    C02.special_forms (sum <= 1, x <= y, OR form, AND form, min == 0, max == 0, unary slack, ne branches; coefficients
    are exact multiples of 1/8), under all relations, log_trick both ways, bounds omitted / exact / one-sided / loose,
    lam in {0.5, 1, 3}: same contract as C03.penalty_small. Non-trivial: H has a non-constant term."""
    return _run(case)


# ---------------------------------------------------------------------------------------------
def _gen_existing(ctx):
    rng = ctx.rng("c03.existing")
    limit = ctx.pick(QUICK_BITS, THOROUGH_BITS)
    n = ctx.pick(700, 10000)
    labels = LABELS[:4]
    made = 0
    while made < n:
        H = next(gen_models(rng, 1, labels, 3, INT_COEFS, max_terms=3, min_terms=1))
        if not any(H):
            continue
        rel, log = rng.choice(RELS), rng.random() < 0.5
        lo, hi = true_range(H, spin=True)
        bounds = rng.choice([None, (lo, hi), (lo - 1, hi + 1), (lo, None), (None, hi)])
        if _bits(H, rel, log, bounds) > limit:
            bounds = (lo, hi)
        if _bits(H, rel, log, bounds) > limit:
            continue
        obj = next(gen_models(rng, 1, labels, 3, [-2, -1, 1, 2, 0.5], max_terms=4, min_terms=1))
        cons = []
        for _ in range(rng.randint(0, 2)):
            Q = next(gen_models(rng, 1, labels, 2, [-1, 1, 2], max_terms=2, min_terms=1))
            r2, l2 = rng.choice(RELS), rng.random() < 0.5
            if anc_estimate(r2, *sum_enclosure(_to_bool(Q)), l2) <= 5:
                cons.append((r2, Q, rng.choice(LAMS), l2))
        made += 1
        yield {"P": H, "rel": rel, "lam": rng.choice(LAMS), "log": log, "bounds": bounds,
               "pre": {"obj": obj, "cons": cons}}


@clause("C03.on_existing_model", "C03", gen=_gen_existing, nontrivial=_nontrivial)
def check_existing(case):
    """The constraint is added to a PCSO that already has an objective and up to two earlier constraints (which own
    ancilla spins): F = after - before fulfils the contract of C03.penalty_small, mentions only H's spins and ancilla
    spins that were not labels of the model before the call."""
    return _run(case)


# ---------------------------------------------------------------------------------------------
def _gen_valid_spin(ctx):
    return _gen_valid(ctx, spin=True, salt="c03.valid", n=ctx.pick(700, 10000))


@clause("C03.is_solution_valid", "C03", gen=_gen_valid_spin, nontrivial=lambda c: _nontrivial_valid(c, spin=True))
def check_valid(case):
    """A PCSO with an objective and 1-4 spin constraints of mixed relations: is_solution_valid(z) is True exactly on the
    spin assignments z at which every added constraint holds (evaluated independently on the spin truth table),
    whether or not ancilla spins are part of the solution dict. Non-trivial: some constraint has both outcomes."""
    return run_valid_case(case, "PCSO", spin=True)


# ---------------------------------------------------------------------------------------------
def _gen_seq_spin(ctx):
    return _gen_sequence(ctx, spin=True, salt="c03.seq")


def _nontrivial_seq(case):
    """at least two of the constraints need ancillas (coefficient-sum estimate on the boolean form)"""
    return sum(1 for rel, Q, _, log in case["cons"]
               if anc_estimate(rel, *sum_enclosure(_to_bool(Q)), log) > 0) >= 2


@clause("C03.ancilla_bookkeeping", "C03", gen=_gen_seq_spin, nontrivial=_nontrivial_seq)
def check_sequence(case):
    """Two or three spin constraints of mixed relations and log_trick settings added one after another to one PCSO:
    ancilla names never repeat (each call's '__a' labels are disjoint from all labels present before it); after every
    call num_ancillas >= the number of distinct '__a' labels present and > the index of every '__a<k>' present; each
    call's terms mention only its own spins and ancillas; the penalties add independently (total penalty minimised over
    all ancilla spins is 0 when all constraints hold, and at least the sum of lam over violated constraints always).
    Non-trivial: at least two constraints need ancillas."""
    return run_sequence_case(case, "PCSO", spin=True, bookkeeping=True)



@clause("C03.ancillas_across_copies", "C03", gen=with_copies(_gen_seq_spin), nontrivial=_nontrivial_seq)
def check_sequence_copies(case):
    """C03.ancilla_bookkeeping where the PCSO is replaced by a copy of itself (copy(), PCSO(model), model + 0,
    1 * model) before every constraint but the first: the copy denotes the same function, has the same type and
    reports its ancillas, and constraints added to it get ancilla spins that are new for it. Non-trivial: at least
    two constraints need ancillas."""
    return run_sequence_case(case, "PCSO", spin=True, bookkeeping=True)


@clause("C03.is_solution_valid_after_argument_edits", "C03", gen=with_argtypes(_gen_valid_spin, ["PUSO", "PCSO", "QUSO"]),
        nontrivial=lambda c: _nontrivial_valid(c, spin=True))
def check_valid_argedits(case):
    """C03.is_solution_valid where every constraint polynomial is handed over as a PUSO / PCSO / QUSO object that the
    caller edits in place after the call: is_solution_valid still decides the constraints as they were added."""
    if case["argtype"] == "QUSO" and any(len(k) > 2 for _, P, _, _ in case["cons"] for k in P):
        return Skip("degree > 2 polynomial cannot be a QUSO")
    return run_valid_case(case, "PCSO", spin=True)


@clause("C03.is_solution_valid_forked_copies", "C03", gen=with_forks(_gen_valid_spin),
        nontrivial=lambda c: _nontrivial_valid(c, spin=True))
def check_valid_forks(case):
    """C03.is_solution_valid for a PCSO from which a copy was forked; one of the two then gets one more constraint of
    a relation already recorded: the verdicts of the other stay those of its own constraints."""
    return run_valid_case(case, "PCSO", spin=True)
