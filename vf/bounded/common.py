"""Bounded stand-in: run-time-checked contracts on the real code over an enumerated small scope.

A *clause* is a named pair (gen, check):
  gen(ctx)   yields cases; a case is a Python literal (dict/tuple/list/str/number/None/bool nest) so that
             repr(case) round-trips through ast.literal_eval (this is the replay format).
  check(case) runs the real library code on the case and evaluates the contract; it returns None when the
             contract holds, or a Fail(msg, key) / str describing the violation. It may also return
             Skip(reason) when the case is outside the contract's precondition (counted separately).
An exception escaping check() whose innermost frame is inside the repository counts as a violation
("library raised"); one raised by the harness itself is a checker error (exit 3), never a violation.

Results of bounded clauses are reported as bounded_* keys; they are never counted as proved.
"""
import ast
import itertools
import os
import random
import sys
import time
import traceback
import warnings

from .. import REPO

CLAUSES = {}          # name -> Clause
BY_PROP = {}          # prop -> [Clause]


class Fail:
    def __init__(self, msg, key=None, observed=None, required=None):
        self.msg, self.key, self.observed, self.required = msg, key, observed, required

    def __repr__(self):
        return "Fail(%r, key=%r)" % (self.msg, self.key)


class Skip:
    def __init__(self, reason=""):
        self.reason = reason


class Clause:
    def __init__(self, name, prop, gen, check, nontrivial=None, doc=""):
        self.name, self.prop, self.gen, self.check = name, prop, gen, check
        self.nontrivial = nontrivial or (lambda case: True)
        self.doc = doc


def clause(name, prop, gen, nontrivial=None):
    """Decorator: @clause("C05.add", "C05", gen=my_gen) def check(case): ..."""
    def deco(fn):
        c = Clause(name, prop, gen, fn, nontrivial, (fn.__doc__ or "").strip())
        if name in CLAUSES:
            raise RuntimeError("duplicate clause " + name)
        CLAUSES[name] = c
        BY_PROP.setdefault(prop, []).append(c)
        return fn
    return deco


class Ctx:
    def __init__(self, tier="quick", seed=0):
        self.tier, self.seed = tier, seed
        self.thorough = tier == "thorough"

    def rng(self, salt=""):
        return random.Random("%s/%s" % (self.seed, salt))

    def pick(self, quick, thorough):
        return thorough if self.thorough else quick


# ---------------------------------------------------------------------------------------------
# scope: labels, keys, models, assignments
# ---------------------------------------------------------------------------------------------
LABELS = ['a', 'b', 0, 1, ('t', 1)]          # mixed hashable label types on purpose
INT_LABELS = [0, 1, 2, 3]
COEFS = [-2, -1, 1, 2, 0.5]
INT_COEFS = [-2, -1, 1, 2, 3]

MODEL_TYPES = ["QUBO", "QUSO", "PUBO", "PUSO", "PCBO", "PCSO", "QUBOMatrix", "QUSOMatrix", "PUBOMatrix", "PUSOMatrix"]
BOOL_TYPES = ["QUBO", "PUBO", "PCBO", "QUBOMatrix", "PUBOMatrix"]
SPIN_TYPES = ["QUSO", "PUSO", "PCSO", "QUSOMatrix", "PUSOMatrix"]
MATRIX_TYPES = ["QUBOMatrix", "QUSOMatrix", "PUBOMatrix", "PUSOMatrix"]
DEG2_TYPES = ["QUBO", "QUSO", "QUBOMatrix", "QUSOMatrix"]


def qv():
    from ..repo import import_qubovert
    return import_qubovert()


def cls_of(name):
    q = qv()
    return getattr(q, name) if hasattr(q, name) else getattr(q.utils, name)


def is_spin_type(name):
    return name in SPIN_TYPES


def labels_for(tname, n=3):
    return (INT_LABELS if tname in MATRIX_TYPES else LABELS)[:n]


def canonical_keys(labels, maxdeg):
    """All duplicate-free keys (as tuples in pool order) of degree 0..maxdeg."""
    out = []
    for d in range(0, maxdeg + 1):
        out.extend(itertools.combinations(labels, d))
    return out


def raw_keys(labels, maxlen):
    """All keys with repetition and any order, length 0..maxlen."""
    out = []
    for d in range(0, maxlen + 1):
        out.extend(itertools.product(labels, repeat=d))
    return out


def gen_models(rng, n, labels, maxdeg, coefs, max_terms=4, raw=False, allow_zero=False, min_terms=0):
    """n random term dicts {key: coef}. raw=True allows repeated/unsorted labels in keys."""
    keys = raw_keys(labels, maxdeg) if raw else canonical_keys(labels, maxdeg)
    cs = list(coefs) + ([0] if allow_zero else [])
    for _ in range(n):
        t = rng.randint(min_terms, max_terms)
        ks = rng.sample(keys, min(t, len(keys)))
        yield {k: rng.choice(cs) for k in ks}


def all_small_models(labels, maxdeg, coefs, max_terms):
    """Exhaustive: every term dict with <= max_terms canonical keys."""
    keys = canonical_keys(labels, maxdeg)
    for t in range(0, max_terms + 1):
        for ks in itertools.combinations(keys, t):
            for cs in itertools.product(coefs, repeat=t):
                yield dict(zip(ks, cs))


def variables_of(terms):
    out = []
    for k in terms:
        for i in k:
            if i not in out:
                out.append(i)
    return out


def assignments(variables, spin=False):
    dom = (1, -1) if spin else (0, 1)
    variables = list(variables)
    for vals in itertools.product(dom, repeat=len(variables)):
        yield dict(zip(variables, vals))


def peval(terms, x):
    """Direct evaluation of a polynomial given as {key(tuple of labels, repetitions allowed): coef}."""
    tot = 0
    for k, v in terms.items():
        p = 1
        for i in k:
            p *= x[i]
        tot += v * p
    return tot


def b2s(x):
    """boolean -> spin under the fixed correspondence 0 <-> 1, 1 <-> -1."""
    return {k: 1 - 2 * v for k, v in x.items()}


def s2b(z):
    return {k: (1 - v) // 2 for k, v in z.items()}


def close(a, b, tol=1e-9):
    try:
        return abs(a - b) <= tol * max(1.0, abs(a), abs(b))
    except TypeError:
        return a == b


def truth_table(model_or_terms, variables, spin=False):
    return [peval(dict(model_or_terms), x) for x in assignments(variables, spin)]


def snapshot(obj):
    """Deep structural snapshot of a model/dict/list argument for before/after comparison."""
    q = qv()
    if isinstance(obj, dict):
        d = {"__type__": type(obj).__name__, "items": {repr(k): snapshot(v) for k, v in dict.items(obj)}}
        for a in ("_mapping", "_reverse_mapping", "_constraints", "_ancilla", "_name", "_variables", "_degree",
                  "_num_binary_variables", "_next_label"):
            if hasattr(obj, a):
                d[a] = snapshot(getattr(obj, a))
        return d
    if isinstance(obj, (list, tuple)):
        return [type(obj).__name__] + [snapshot(x) for x in obj]
    if isinstance(obj, set):
        return ["set"] + sorted(repr(x) for x in obj)
    return repr(obj)


def quiet():
    warnings.simplefilter("ignore")


# ---------------------------------------------------------------------------------------------
# runner
# ---------------------------------------------------------------------------------------------
def _innermost_in_repo(tb):
    frames = traceback.extract_tb(tb)
    if not frames:
        return False
    fn = os.path.realpath(frames[-1].filename)
    if fn.startswith(os.path.realpath(REPO) + os.sep):
        return True
    # C extension / builtins called from repo code: look one frame up
    for fr in reversed(frames):
        f = os.path.realpath(fr.filename)
        if f.startswith(os.path.realpath(REPO) + os.sep):
            return True
        if "/verif/" in f or f.startswith(os.path.dirname(os.path.dirname(os.path.abspath(__file__)))):
            return False
    return False


def run_case(cl, case):
    """-> ('ok'|'skip'|'fail'|'error', payload)"""
    try:
        with warnings.catch_warnings():
            warnings.simplefilter("ignore")
            r = cl.check(case)
    except Exception as e:      # noqa
        et, ev, tb = sys.exc_info()
        txt = "".join(traceback.format_exception(et, ev, tb))[-3000:]
        if _innermost_in_repo(tb):
            return "fail", Fail("library raised %s: %s" % (type(e).__name__, e), key="raised:%s" % type(e).__name__,
                                observed=txt)
        return "error", txt
    if r is None or r is True:
        return "ok", None
    if isinstance(r, Skip):
        return "skip", r.reason
    if isinstance(r, str):
        r = Fail(r)
    return "fail", r


def run_clause(name, tier, seed, budget_s, progress_fd=None):
    """Runs one clause (in the current process). Returns a JSON-able dict.
    progress_fd: file descriptor that receives the case about to be evaluated (so that the parent can name the case
    when native code takes the whole process down)."""
    # make sure clause modules are loaded
    from . import load_all
    load_all()
    cl = CLAUSES[name]
    ctx = Ctx(tier, seed)
    t0 = time.time()
    n = nskip = 0
    seen = set()
    nontrivial = set()
    fails, errors, samples = [], [], []
    exhausted = True
    t_first = None
    for case in cl.gen(ctx):
        # the budget starts after the first case (which pays one-off costs such as compiling the C kernels);
        # a hard cap of 5x the budget bounds the whole clause
        now = time.time()
        if (t_first is not None and now - t_first > budget_s) or now - t0 > 5 * budget_s:
            exhausted = False
            break
        r = repr(case)
        if progress_fd is not None:
            b = r.encode("utf-8", "replace")
            os.pwrite(progress_fd, b"%12d\n" % len(b) + b, 0)
        status, payload = run_case(cl, case)
        if t_first is None:
            t_first = time.time()
        n += 1
        if status == "skip":
            nskip += 1
            continue
        if r not in seen:
            seen.add(r)
            try:
                if cl.nontrivial(case):
                    nontrivial.add(r)
            except Exception:
                pass
        if len(samples) < 3 and status == "ok" and r in nontrivial:
            samples.append(r[:400])
        if status == "fail":
            nk = sum(1 for f in fails if f["key"] == payload.key)
            if nk < 3 and len(fails) < 60:      # a few witnesses per kind of failure, many kinds
                fails.append({"clause": name, "property": cl.prop, "case": r, "msg": payload.msg,
                              "key": payload.key, "observed": _short(payload.observed),
                              "required": _short(payload.required)})
        elif status == "error":
            errors.append({"clause": name, "case": r, "traceback": payload})
            if len(errors) >= 3:
                exhausted = False
                break
    return {"clause": name, "property": cl.prop, "evaluations": n, "skipped": nskip, "distinct": len(seen),
            "distinct_nontrivial": len(nontrivial), "fails": fails, "errors": errors, "samples": samples,
            "exhausted_generator": exhausted, "wall_s": round(time.time() - t0, 2), "doc": cl.doc}


def _short(x, n=1500):
    if x is None:
        return None
    s = x if isinstance(x, str) else repr(x)
    return s if len(s) <= n else s[:n] + "..."


def replay_case(name, case_repr):
    from . import load_all
    load_all()
    cl = CLAUSES[name]
    case = ast.literal_eval(case_repr)
    return run_case(cl, case)
