"""C02 bounded stand-in: PCBO comparison constraints become exact non-negative penalties.

Every clause builds the constraint on the real ``PCBO`` and evaluates the *added* polynomial
F = (model after) - (model before) on the full truth table over P's variables x and the fresh ancilla bits a,
with an evaluator that shares nothing with the library (subset-sum transform, spot-checked against common.peval).

The helpers of this module are shared by c03.py (spin version) and c16.py.
"""
import itertools
import warnings

from .common import (clause, Fail, Skip, qv, cls_of, LABELS, INT_COEFS, gen_models, all_small_models, variables_of,
                     peval)

RELS = ("eq", "ne", "lt", "le", "gt", "ge")
HOLDS = {
    "eq": lambda v: v == 0, "ne": lambda v: v != 0, "lt": lambda v: v < 0,
    "le": lambda v: v <= 0, "gt": lambda v: v > 0, "ge": lambda v: v >= 0,
}
LAMS = (0.5, 1, 3)
TOL = 1e-9
QUICK_BITS = 12          # variables + ancillas per case in the quick tier
THOROUGH_BITS = 15
HARD_BITS = 16           # never brute-force beyond this (Skip)


# ---------------------------------------------------------------------------------------------
# independent polynomial evaluation on whole truth tables
# ---------------------------------------------------------------------------------------------
def is_anc(label):
    return isinstance(label, str) and label.startswith("__a")


def anc_index(label):
    return int(label[3:])


def plain(model):
    """{key: coef} of a model/dict, as a plain dict."""
    return {k: v for k, v in dict.items(model)}


def poly_diff(after, before):
    """after - before as a plain term dict (exact zeros dropped). Keys of both come from the same model, hence are
    in the same canonical form; to be safe, keys are compared as frozensets with multiplicity ignored only when both
    sides are duplicate-free (the library never stores duplicates)."""
    out = {}
    bidx = {_ck(k): k for k in before}
    seen = set()
    for k, v in after.items():
        ck = _ck(k)
        seen.add(ck)
        d = v - before[bidx[ck]] if ck in bidx else v
        if d != 0:
            out[k] = d
    for ck, k in bidx.items():
        if ck not in seen and before[k] != 0:
            out[k] = -before[k]
    return out


def _ck(k):
    return frozenset(k) if len(set(k)) == len(k) else tuple(k)


def table(terms, order, spin=False):
    """Values of the polynomial `terms` on all assignments of the labels in `order`.

    Index i encodes the assignment: bit j of i set <=> order[j] is 1 (boolean) / -1 (spin); clear <=> 0 / +1.
    Boolean: subset-sum (zeta) transform. Spin: Walsh-Hadamard butterfly. Repeated labels in a key are honoured
    (x*x = x for booleans, z*z = 1 for spins)."""
    pos = {lab: j for j, lab in enumerate(order)}
    n = len(order)
    arr = [0] * (1 << n)
    for k, v in terms.items():
        m = 0
        for lab in k:
            if spin:
                m ^= 1 << pos[lab]
            else:
                m |= 1 << pos[lab]
        arr[m] += v
    for j in range(n):
        bit = 1 << j
        if spin:
            for i in range(1 << n):
                if not i & bit:
                    a, b = arr[i], arr[i | bit]
                    arr[i], arr[i | bit] = a + b, a - b
        else:
            for i in range(1 << n):
                if i & bit:
                    arr[i] += arr[i ^ bit]
    return arr


def assignment(i, order, spin=False):
    if spin:
        return {lab: (-1 if (i >> j) & 1 else 1) for j, lab in enumerate(order)}
    return {lab: (i >> j) & 1 for j, lab in enumerate(order)}


def _spot_check(terms, order, tab, spin):
    """Harness self-check (an AssertionError here is a checker error, never a verdict)."""
    n = len(tab)
    for i in {0, n - 1, (n * 5) // 7, n // 3}:
        ref = peval(terms, assignment(i, order, spin))
        assert abs(ref - tab[i]) <= 1e-9 * max(1, abs(ref)), ("table/peval mismatch", terms, i, ref, tab[i])


def fmt_x(x):
    return "{" + ", ".join("%r: %r" % kv for kv in x.items()) + "}"


# ---------------------------------------------------------------------------------------------
# the contract
# ---------------------------------------------------------------------------------------------
def penalty_contract(F, P, rel, lam, unsat_warned, old_labels=(), spin=False, limit=HARD_BITS):
    """The C02/C03 contract for one added constraint.

    F: added polynomial (plain dict). P: the constraint polynomial as given (plain dict, integer valued).
    old_labels: every label that was in the model before the call (fresh ancillas must avoid them)."""
    xvars = variables_of({k: v for k, v in P.items() if v != 0})
    fvars = variables_of(F)
    anc = []
    for lab in fvars:
        if lab in xvars:
            continue
        if not is_anc(lab):
            return Fail("added terms mention %r which is neither a variable of P nor an ancilla" % (lab,),
                        key="foreign-variable")
        if lab in old_labels:
            return Fail("added terms reuse ancilla %r that was already present in the model" % (lab,),
                        key="ancilla-reused")
        anc.append(lab)
    anc.sort(key=anc_index)
    nx, na = len(xvars), len(anc)
    if nx + na > limit:
        return Skip("truth table too large: %d variables + %d ancillas" % (nx, na))
    order = xvars + anc
    tab = table(F, order, spin)
    _spot_check(F, order, tab, spin)
    ptab = table(P, xvars, spin)
    _spot_check(P, xvars, ptab, spin)
    for xi in range(1 << nx):
        pv = ptab[xi]
        if pv != int(pv):
            return Skip("P is not integer valued")
        vals = [tab[xi | (ai << nx)] for ai in range(1 << na)]
        lo = min(vals)
        if lo < -TOL:
            ai = vals.index(lo)
            return Fail("penalty is negative: F=%r at %s (P=%r)" % (lo, fmt_x(assignment(xi | (ai << nx), order, spin)),
                                                                     pv), key="negative")
        if unsat_warned:
            continue
        if HOLDS[rel](pv):
            if abs(lo) > TOL:
                return Fail("P=%r satisfies %s at %s but min over ancillas of the penalty is %r, not 0"
                            % (pv, rel, fmt_x(assignment(xi, xvars, spin)), lo), key="zero-not-attained")
        elif lo < lam - TOL * max(1, lam):
            ai = vals.index(lo)
            return Fail("P=%r violates %s but the penalty is only %r < lam=%r at %s"
                        % (pv, rel, lo, lam, fmt_x(assignment(xi | (ai << nx), order, spin))), key="under-penalised")
    return None


def add_constraint(H, rel, P, lam, log=True, bounds=None, **extra):
    """Calls H.add_constraint_<rel>_zero. `bounds` None means: argument omitted."""
    kw = dict(extra)
    kw["lam"] = lam
    if bounds is not None:
        kw["bounds"] = tuple(bounds)
    if rel != "eq":
        kw["log_trick"] = log
    argtype = kw.pop("argtype", None)
    arg = dict(P) if not argtype else cls_of(argtype)(dict(P))
    kw.pop("keep", [None]).append(arg)
    return getattr(H, "add_constraint_%s_zero" % rel)(arg, **kw)


def add_recording_warnings(H, rel, P, lam, log=True, bounds=None):
    """-> True when the library warned that the constraint cannot be satisfied."""
    with warnings.catch_warnings(record=True) as rec:
        warnings.simplefilter("always")
        add_constraint(H, rel, P, lam, log, bounds)
    return any("cannot be satisfied" in str(w.message) for w in rec)


def build_pre(cls, pre):
    """Model of class `cls` with an objective and earlier constraints: pre = {"obj": terms, "cons": [(rel, P, lam,
    log), ...]} or None (empty model)."""
    H = cls()
    if pre:
        for k, v in pre.get("obj", {}).items():
            H[k] += v
        for rel, P, lam, log in pre.get("cons", ()):
            with warnings.catch_warnings():
                warnings.simplefilter("ignore")
                add_constraint(H, rel, P, lam, log)
    return H


def run_penalty_case(case, cls_name="PCBO", spin=False):
    q = qv()
    H = build_pre(getattr(q, cls_name), case.get("pre"))
    before = plain(H)
    old_labels = set(variables_of(before))
    unsat = add_recording_warnings(H, case["rel"], case["P"], case["lam"], case.get("log", True), case.get("bounds"))
    F = poly_diff(plain(H), before)
    return penalty_contract(F, case["P"], case["rel"], case["lam"], unsat, old_labels, spin)


# ---------------------------------------------------------------------------------------------
# sizes and bounds (generator side; independent of the library, only used to keep cases small and bounds valid)
# ---------------------------------------------------------------------------------------------
def true_range(P, spin=False):
    vals = table(P, variables_of(P), spin)
    return min(vals), max(vals)


def sum_enclosure(P):
    """Coefficient-sum enclosure of a boolean polynomial (what anybody would use when no bounds are given)."""
    lo = hi = 0
    for k, v in P.items():
        if not k:
            lo += v
            hi += v
        elif v < 0:
            lo += v
        else:
            hi += v
    return lo, hi


def _nb(v, log):
    v = max(0, int(-(-v // 1)))
    return v.bit_length() if log else v


def anc_estimate(rel, lo, hi, log):
    """Upper estimate of the number of ancillas any slack encoding of the relation needs for an enclosure (lo, hi)."""
    if rel == "eq":
        return 0
    if rel == "le":
        return _nb(-lo, log) if lo < 0 < hi else 0
    if rel == "lt":
        return anc_estimate("le", lo + 1, hi + 1, log)
    if rel == "ge":
        return anc_estimate("le", -hi, -lo, log)
    if rel == "gt":
        return anc_estimate("lt", -hi, -lo, log)
    return 1 + _nb(hi - lo + 1, log)


def fill_bounds(bounds, P):
    lo, hi = sum_enclosure(P)
    if bounds is None:
        return lo, hi
    return (lo if bounds[0] is None else bounds[0]), (hi if bounds[1] is None else bounds[1])


def case_bits(P, rel, log, bounds, boolP=None):
    lo, hi = fill_bounds(bounds, boolP if boolP is not None else P)
    return len(variables_of(P)) + anc_estimate(rel, lo, hi, log)


def bounds_variants(P, rng=None, spin=False, fractional=False):
    """Valid enclosures of P: omitted, one side None, exact, loose."""
    lo, hi = true_range(P, spin)
    out = [None, (lo, None), (None, hi), (lo, hi), (lo - 1, hi + 2), (lo - 2, hi), (lo, hi + 1)]
    if fractional:
        out += [(lo - 0.5, hi + 0.5), (lo - 1.5, hi)]
    if rng is not None:
        return [rng.choice(out)]
    return out


def both_outcomes(P, rel, spin=False):
    vals = table(P, variables_of(P), spin)
    return any(HOLDS[rel](v) for v in vals) and any(not HOLDS[rel](v) for v in vals)


def nontrivial_penalty(case, spin=False):
    """P has a non-constant term and both outcomes of the relation occur over the assignments of its variables."""
    P = case["P"]
    return any(k and v for k, v in P.items()) and both_outcomes(P, case["rel"], spin)


# ---------------------------------------------------------------------------------------------
# C02.penalty_small: exhaustive small scope
# ---------------------------------------------------------------------------------------------
def _gen_small(ctx):
    labels = LABELS[:3]
    coefs = [-2, -1, 1, 2]
    limit = ctx.pick(QUICK_BITS, THOROUGH_BITS)
    for P in all_small_models(labels, ctx.pick(2, 3), coefs, ctx.pick(2, 3)):
        lo, hi = true_range(P)
        for rel in RELS:
            for log in ((True,) if rel == "eq" else (True, False)):
                for bounds in (None, (lo, hi)):
                    if case_bits(P, rel, log, bounds) <= limit:
                        yield {"P": P, "rel": rel, "lam": 1, "log": log, "bounds": bounds}


@clause("C02.penalty_small", "C02", gen=_gen_small, nontrivial=nontrivial_penalty)
def check_small(case):
    """Every polynomial with at most two terms (degree <= 2, coefficients in {-2,-1,1,2}, three labels of mixed type,
    constant term allowed) under each of the six relations, log_trick both ways, bounds omitted or exact, lam = 1,
    added to an empty PCBO: the added polynomial F involves only P's variables and fresh '__a' bits, F >= 0 on the
    whole truth table, min over ancillas of F is 0 where P R 0 holds and F >= lam for every ancilla assignment where it
    does not (only F >= 0 when the library warned 'cannot be satisfied'). Non-trivial: P has a non-constant term and
    both outcomes of the relation occur."""
    return run_penalty_case(case)


# ---------------------------------------------------------------------------------------------
# C02.penalty_random: degree <= 3, four labels, all lam, all bounds variants
# ---------------------------------------------------------------------------------------------
def _gen_random(ctx):
    rng = ctx.rng("c02.random")
    limit = ctx.pick(QUICK_BITS, THOROUGH_BITS)
    n = ctx.pick(1000, 12000)
    lams = LAMS + ((0.25, 7) if ctx.thorough else ())
    for P in gen_models(rng, n, LABELS[:4], 3, INT_COEFS, max_terms=ctx.pick(4, 5), min_terms=1):
        if not any(P):
            continue
        for rel in RELS:
            log = rng.random() < 0.5
            bounds = bounds_variants(P, rng, fractional=True)[0]
            if case_bits(P, rel, log, bounds) > limit:
                log = True
                if case_bits(P, rel, log, bounds) > limit:
                    bounds = true_range(P)
                    if case_bits(P, rel, log, bounds) > limit:
                        continue
            yield {"P": P, "rel": rel, "lam": rng.choice(lams), "log": log, "bounds": bounds}


@clause("C02.penalty_random", "C02", gen=_gen_random, nontrivial=nontrivial_penalty)
def check_random(case):
    """Seeded random integer-coefficient polynomials of degree <= 3 over four labels of mixed type (1-4 terms,
    coefficients in {-2,-1,1,2,3}), each under all six relations with random lam in {0.5, 1, 3}, log_trick in
    {True, False} and bounds omitted / (lo, None) / (None, hi) / exact / loose valid enclosures (also non-integer
    ones), on an empty PCBO: same contract as C02.penalty_small. Non-trivial: both outcomes of the relation occur."""
    return run_penalty_case(case)


# ---------------------------------------------------------------------------------------------
# C02.special_forms: the shortcut branches, reached by construction, and their near misses
# ---------------------------------------------------------------------------------------------
def _special_polys():
    a, b, c, d, t = 'a', 'b', 0, 1, ('t', 1)
    return [
        # sum of variables <= 1 form (le special 1), also with product monomials and with 2/4 summands
        ("sum_le_1", {(a,): 1, (b,): 1, (c,): 1, (): -1}),
        ("sum_le_1_pair", {(a,): 1, (t,): 1, (): -1}),
        ("sum_le_1_four", {(a,): 1, (b,): 1, (c,): 1, (d,): 1, (): -1}),
        ("sum_le_1_monomials", {(a, b): 1, (c,): 1, (b, d): 1, (): -1}),
        ("const_minus_1", {(): -1}),
        ("sum_le_2_nearmiss", {(a,): 1, (b,): 1, (c,): 1, (): -2}),
        ("sum_coef2_nearmiss", {(a,): 2, (b,): 1, (c,): 1, (): -1}),
        # x <= y form (le special 4) with variables and with monomials, and its negation for ge
        ("x_le_y", {(a,): 1, (b,): -1}),
        ("x_le_y_mixed", {(c,): 1, (t,): -1}),
        ("xy_le_z", {(a, b): 1, (c,): -1}),
        ("x_le_yz", {(a,): 1, (b, c): -1}),
        ("xy_le_zw", {(a, b): 1, (c, d): -1}),
        ("x_le_2y_nearmiss", {(a,): 1, (b,): -2}),
        # OR form (le special 3): 1 - x - y <= 0
        ("or_form", {(): 1, (a,): -1, (b,): -1}),
        ("or_form_monomials", {(): 1, (a, c): -1, (b,): -1}),
        ("or_form_three_nearmiss", {(): 1, (a,): -1, (b,): -1, (c,): -1}),
        ("or_form_coef2_nearmiss", {(): 1, (a,): -2, (b,): -1}),
        ("ge_or_form", {(): -1, (a,): 1, (b,): 1}),          # x + y - 1 >= 0 becomes the OR form after negation
        # AND form of eq (eq special): a - b*c == 0
        ("and_form", {(a,): 1, (b, c): -1}),
        ("and_form_neg", {(a,): -1, (b, c): 1}),
        ("and_form_scaled", {(t,): 2, (c, d): -2}),
        ("and_form_key_order", {(b, c): 3, (a,): -3}),
        ("and_form_offset_nearmiss", {(a,): 1, (b, c): -1, (): 1}),
        ("and_form_coef_nearmiss", {(a,): 1, (b, c): -2}),
        ("and_form_shared_nearmiss", {(a,): 1, (a, b): -1}),
        ("and_form_deg3_nearmiss", {(a,): 1, (b, c, d): -1}),
        ("and_form_two_pairs", {(a, b): 1, (c, d): -1}),
        # eq: min_val == 0 and max_val == 0 branches; P*P branch; unsatisfiable branches; always satisfied
        ("min0", {(a,): 1, (b, c): 2}),
        ("min0_single", {(a,): 1}),
        ("max0", {(a,): -1, (b,): -2}),
        ("max0_product", {(a, b, c): -3}),
        ("both_signs", {(a,): 1, (b,): -1, (c,): 2, (): -1}),
        ("positive", {(a,): 1, (): 1}),
        ("negative", {(a, b): -1, (): -2}),
        ("zero", {}),
        ("const_zero_cancelled", {(a,): 1, (a, a): -1}),
        ("const_pos", {(): 2}),
        # non-log unary slack (le special 2: min_val == offset < 0 and log_trick False) and the general slack
        ("unary_slack", {(a,): 1, (b,): 1, (c,): 1, (): -2}),
        ("unary_slack_w", {(a,): 2, (b,): 1, (c, d): 1, (): -3}),
        ("unary_slack_1", {(a,): 1, (b,): 2, (): -1}),
        ("general_slack", {(a,): 2, (b,): -3, (c,): 1, (): -1}),
        ("general_slack_deg3", {(a, b, c): 3, (a,): -2, (): -1}),
        # ne: min==0 -> gt ; max==0 -> lt ; general sign ancilla
        ("ne_min0", {(a,): 1, (b,): 1}),
        ("ne_max0", {(a,): -1, (b, c): -1}),
        ("ne_general", {(a,): 1, (b,): -1}),
        ("ne_general_wide", {(a,): 2, (b,): -2, (c,): 1}),
    ]


def _gen_special(ctx):
    limit = ctx.pick(QUICK_BITS, THOROUGH_BITS)
    for name, P in _special_polys():
        Pc = {k: v for k, v in P.items()}
        # polynomial as the library will see it after squashing (for ranges): (a, a) == (a,)
        flat = {}
        for k, v in Pc.items():
            kk = tuple(sorted(set(k), key=lambda z: (str(type(z)), z)))
            flat[kk] = flat.get(kk, 0) + v
        lo, hi = true_range(flat)
        for rel in RELS:
            for log in ((True,) if rel == "eq" else (True, False)):
                variants = [None, (lo, hi), (lo, None), (None, hi), (lo - 1, hi + 1)]
                if ctx.thorough:
                    variants += [(lo - 2, hi), (lo, hi + 3), (lo - 0.5, hi + 0.5)]
                for bounds in variants:
                    if case_bits(flat, rel, log, bounds) > limit:
                        continue
                    for lam in LAMS:
                        yield {"form": name, "P": Pc, "rel": rel, "lam": lam, "log": log, "bounds": bounds}


def _nontrivial_special(case):
    return bool(case["P"]) and any(k for k in case["P"])


@clause("C02.special_forms", "C02", gen=_gen_special, nontrivial=_nontrivial_special)
def check_special(case):
    """Polynomials constructed to reach every shortcut branch of the constraint methods and their near misses:
    sum of monomials <= 1, x <= y (variables and monomials), OR form 1 - x - y <= 0 (and via ge after negation), the
    AND form a - b*c == 0 (both signs, scaled, either key order), eq with min == 0 / max == 0 / both signs / always
    positive / always negative / identically zero, the non-log_trick unary slack form, general binary and unary slack,
    ne with min == 0, max == 0 and the sign-ancilla form. Each under all six relations, log_trick both ways, bounds
    omitted / exact / one-sided / loose, lam in {0.5, 1, 3}: same contract as C02.penalty_small. Non-trivial: P has a
    non-constant term."""
    return run_penalty_case(case)


# ---------------------------------------------------------------------------------------------
# C02.on_existing_model: F = after - before on a model that already has an objective and constraints
# ---------------------------------------------------------------------------------------------
def _gen_existing(ctx):
    rng = ctx.rng("c02.existing")
    limit = ctx.pick(QUICK_BITS, THOROUGH_BITS)
    n = ctx.pick(1500, 20000)
    labels = LABELS[:4]
    specials = [P for _, P in _special_polys() if P and all(len(set(k)) == len(k) for k in P)]
    made = 0
    while made < n:
        if rng.random() < 0.4:
            P = dict(rng.choice(specials))
        else:
            P = next(gen_models(rng, 1, labels, 3, INT_COEFS, max_terms=3, min_terms=1))
        if not any(P):
            continue
        rel = rng.choice(RELS)
        log = rng.random() < 0.5
        bounds = bounds_variants(P, rng)[0]
        obj = next(gen_models(rng, 1, labels, 3, [-2, -1, 1, 2, 0.5], max_terms=4, min_terms=1))
        # make cancellations between objective and penalty likely: reuse keys of P with opposite small coefficients
        for k in list(P)[:2]:
            if rng.random() < 0.5:
                obj[k] = -rng.choice(LAMS) * abs(P[k])
        cons = []
        bits = case_bits(P, rel, log, bounds)
        for _ in range(rng.randint(0, 2)):
            Q = next(gen_models(rng, 1, labels, 2, [-1, 1, 2], max_terms=3, min_terms=1))
            r2, l2 = rng.choice(RELS), rng.random() < 0.5
            b2 = anc_estimate(r2, *sum_enclosure(Q), l2)
            if b2 <= 4:
                cons.append((r2, Q, rng.choice(LAMS), l2))
        if bits > limit:
            continue
        made += 1
        yield {"P": P, "rel": rel, "lam": rng.choice(LAMS), "log": log, "bounds": bounds,
               "pre": {"obj": obj, "cons": cons}}


@clause("C02.on_existing_model", "C02", gen=_gen_existing, nontrivial=nontrivial_penalty)
def check_existing(case):
    """The constraint is added to a PCBO that already carries an objective (with coefficients chosen to cancel against
    penalty terms) and up to two earlier constraints of arbitrary relation (which own ancillas): F = after - before
    fulfils the same contract, every ancilla in F is fresh (not a label of the model before the call), and F mentions
    no other variable than P's. Non-trivial: both outcomes of the relation occur."""
    return run_penalty_case(case)


# ---------------------------------------------------------------------------------------------
# C02.is_solution_valid
# ---------------------------------------------------------------------------------------------
def _gen_valid(ctx, spin=False, salt="c02.valid", n=None):
    rng = ctx.rng(salt)
    n = n or ctx.pick(1500, 20000)
    labels = LABELS[:4]
    # every relation alone on a few fixed polynomials, then mixtures
    fixed = [{(labels[0],): 1, (labels[1],): -1}, {(labels[0],): 1, (labels[1], labels[2]): 1, (): -1}, {(): 0},
             {(labels[2],): 2, (labels[3],): -1, (): -1}]
    for P in fixed:
        for rel in RELS:
            for log in (True, False):
                yield {"obj": {}, "cons": [(rel, P, 1, log)]}
    for _ in range(n):
        obj = next(gen_models(rng, 1, labels, 3, [-2, -1, 1, 2, 0.5], max_terms=3))
        cons = []
        for _ in range(rng.randint(1, 4)):
            Q = next(gen_models(rng, 1, labels, 3, [-2, -1, 1, 2], max_terms=3, min_terms=1))
            rel, log = rng.choice(RELS), rng.random() < 0.5
            lo, hi = sum_enclosure(_to_bool(Q) if spin else Q)
            if anc_estimate(rel, lo, hi, log) > 6:
                log = True
            if anc_estimate(rel, lo, hi, log) > 6:
                continue
            cons.append((rel, Q, rng.choice(LAMS), log))
        if cons:
            yield {"obj": obj, "cons": cons}


def _to_bool(terms):
    """Spin polynomial -> boolean polynomial under z = 1 - 2x (independent expansion, generator-side sizing only)."""
    out = {}
    for k, v in terms.items():
        labs = []
        for lab in k:              # z*z = 1
            if lab in labs:
                labs.remove(lab)
            else:
                labs.append(lab)
        for r in range(len(labs) + 1):
            for sub in itertools.combinations(labs, r):
                out[sub] = out.get(sub, 0) + v * (-2) ** r
    return {k: v for k, v in out.items() if v}


def _nontrivial_valid(case, spin=False):
    """at least one constraint for which both outcomes occur"""
    return any(any(k for k in P) and both_outcomes(P, rel, spin) for rel, P, _, _ in case["cons"])


def run_valid_case(case, cls_name="PCBO", spin=False):
    q = qv()
    if case.get("argtype"):
        # the constraint polynomials are handed over as model objects which the caller keeps and edits in place
        # afterwards: what the model recorded must not follow those edits
        H = getattr(q, cls_name)()
        for k, v in case["obj"].items():
            H[k] += v
        kept = []
        for rel, P, lam, log in case["cons"]:
            with warnings.catch_warnings():
                warnings.simplefilter("ignore")
                add_constraint(H, rel, P, lam, log, argtype=case["argtype"], keep=kept)
        for i, arg in enumerate(kept):
            before = dict(arg)
            if i % 2:
                arg *= -1
            else:
                arg[()] += 3
            arg[(LABELS[0],)] += 2
            if dict(arg) == before:
                return Skip("edit had no effect")
    else:
        H = build_pre(getattr(q, cls_name), case)
    fork = case.get("fork")
    if fork:
        # a copy of the model (or the model itself, the copy being kept) gets one more constraint of a relation the
        # model already has: the other object's verdicts must not change
        H2 = {"copy": lambda m: m.copy(), "ctor": lambda m: type(m)(m), "plus0": lambda m: m + 0,
              "times1": lambda m: 1 * m}[fork["via"]](H)
        grown, kept = (H2, H) if fork["grow"] == "copy" else (H, H2)
        with warnings.catch_warnings():
            warnings.simplefilter("ignore")
            add_constraint(grown, fork["rel"], fork["P"], 1, True)
        H = kept
    xs = variables_of(case["obj"])
    for _, P, _, _ in case["cons"]:
        for lab in variables_of(P):
            if lab not in xs:
                xs.append(lab)
    ancs = [v for v in H.variables if is_anc(v)]
    tabs = [(rel, table(P, xs, spin)) for rel, P, _, _ in case["cons"]]
    for i in range(1 << len(xs)):
        x = assignment(i, xs, spin)
        expect = all(HOLDS[rel](t[i]) for rel, t in tabs)
        got = H.is_solution_valid(dict(x))
        if bool(got) != expect:
            return Fail("is_solution_valid(%s) = %r but the constraints %s" % (
                fmt_x(x), got, "all hold" if expect else "do not all hold"), key="is_solution_valid")
        # the verdict does not depend on ancilla values that a solver would report alongside
        for fill in ((1, -1) if spin else (0, 1)):
            xa = dict(x)
            xa.update({a: fill for a in ancs})
            if bool(H.is_solution_valid(xa)) != expect:
                return Fail("is_solution_valid(%s) with ancillas set to %r = %r, expected %r" % (
                    fmt_x(x), fill, not expect, expect), key="is_solution_valid-ancilla")
    return None


@clause("C02.is_solution_valid", "C02", gen=_gen_valid, nontrivial=_nontrivial_valid)
def check_valid(case):
    """A PCBO with an objective and 1-4 constraints of mixed relations (log_trick both ways, several lam):
    is_solution_valid(x) is True exactly on the assignments x of the user variables at which every constraint that was
    added holds (evaluated independently on the truth table), whether or not ancilla values are part of the solution
    dict. Non-trivial: some constraint has both outcomes."""
    return run_valid_case(case)


# ---------------------------------------------------------------------------------------------
# C02.distinct_ancillas: sequences of constraints on one model
# ---------------------------------------------------------------------------------------------
def _gen_sequence(ctx, spin=False, salt="c02.seq"):
    rng = ctx.rng(salt)
    n = ctx.pick(1200, 15000)
    limit = ctx.pick(QUICK_BITS, THOROUGH_BITS)
    labels = LABELS[:3]
    coefs = [-2, -1, 1, 2]
    # fixed sequences that use every relation once, in both slack encodings
    base = [{(labels[0],): 1, (labels[1],): -1}, {(labels[0],): 1, (labels[1],): 1, (labels[2],): -2},
            {(labels[1],): 1, (labels[2],): -1}]
    for log in (True, False):
        for rels in (("le", "ne", "ge"), ("lt", "gt", "ne"), ("ne", "ne", "eq"), ("ge", "le", "lt")):
            cons = [(r, base[i], 1, log) for i, r in enumerate(rels)]
            if _seq_bits(cons, labels, spin) <= limit:
                yield {"obj": {}, "cons": cons}
    made = 0
    while made < n:
        cons = []
        for _ in range(rng.randint(2, 3)):
            Q = next(gen_models(rng, 1, labels, 2, coefs, max_terms=3, min_terms=1))
            if not any(Q):
                continue
            cons.append((rng.choice(RELS[1:] if rng.random() < 0.7 else RELS), Q, rng.choice(LAMS),
                         rng.random() < 0.5))
        if len(cons) < 2 or _seq_bits(cons, labels, spin) > limit:
            continue
        made += 1
        obj = next(gen_models(rng, 1, labels, 2, [-1, 1, 0.5], max_terms=2))
        yield {"obj": obj, "cons": cons}


def _seq_bits(cons, labels, spin):
    tot = len(labels)
    for rel, Q, _, log in cons:
        lo, hi = sum_enclosure(_to_bool(Q) if spin else Q)
        tot += anc_estimate(rel, lo, hi, log)
    return tot


def run_sequence_case(case, cls_name="PCBO", spin=False, bookkeeping=False):
    q = qv()
    H = getattr(q, cls_name)()
    for k, v in case["obj"].items():
        H[k] += v
    objective = plain(H)
    xs = variables_of(case["obj"])
    for _, P, _, _ in case["cons"]:
        for lab in variables_of(P):
            if lab not in xs:
                xs.append(lab)
    seen_anc = set()
    parts = []
    any_unsat = False
    via = case.get("via")
    for i, (rel, P, lam, log) in enumerate(case["cons"]):
        if via and i >= 1:
            # the model the next constraint goes to is a copy of the model so far (copy(), the copy constructor,
            # or the result of an arithmetic operation that keeps the function)
            src = plain(H)
            H = {"copy": lambda m: m.copy(), "ctor": lambda m: type(m)(m), "plus0": lambda m: m + 0,
                 "times1": lambda m: 1 * m}[via](H)
            if type(H).__name__ != cls_name or poly_diff(plain(H), src):
                return Fail("%s of the model is %s %r, model was %r" % (via, type(H).__name__, plain(H), src),
                            key="copy-differs")
        before = plain(H)
        old = set(variables_of(before))
        unsat = add_recording_warnings(H, rel, P, lam, log)
        any_unsat = any_unsat or unsat
        F = poly_diff(plain(H), before)
        new_anc = {v for v in variables_of(F) if is_anc(v)}
        clash = new_anc & (seen_anc | old)
        if clash:
            return Fail("constraint #%d (%s) uses ancilla(s) %r already used by an earlier constraint"
                        % (i, rel, sorted(clash)), key="ancilla-repeated")
        foreign = [v for v in variables_of(F) if not is_anc(v) and v not in variables_of(P)]
        if foreign:
            return Fail("constraint #%d (%s) adds terms on %r, not variables of its polynomial" % (i, rel, foreign),
                        key="foreign-variable")
        seen_anc |= new_anc
        parts.append((rel, P, lam, F, sorted(new_anc, key=anc_index), unsat))
        if bookkeeping:
            present = {v for v in H.variables if is_anc(v)} | seen_anc
            na = H.num_ancillas
            if na < len(present):
                return Fail("num_ancillas = %r after constraint #%d but %d distinct ancillas are present: %r"
                            % (na, i, len(present), sorted(present)), key="num_ancillas-small")
            high = [a for a in present if anc_index(a) >= na]
            if high:
                return Fail("num_ancillas = %r after constraint #%d does not cover ancilla(s) %r" % (na, i, high),
                            key="num_ancillas-uncovered")
    # penalties add independently: total penalty T = H - objective; for every x
    #   min over all ancillas of T(x, .) == 0 when every constraint holds, T(x, a) >= sum of lam over violated ones
    if any_unsat:
        return None
    allanc = sorted(seen_anc, key=anc_index)
    if len(xs) + len(allanc) > HARD_BITS:
        return Skip("truth table too large")
    T = poly_diff(plain(H), objective)
    order = xs + allanc
    tab = table(T, order, spin)
    _spot_check(T, order, tab, spin)
    ptabs = [(rel, lam, table(P, xs, spin)) for rel, P, lam, _, _, _ in parts]
    nx = len(xs)
    for xi in range(1 << nx):
        need = sum(lam for rel, lam, t in ptabs if not HOLDS[rel](t[xi]))
        vals = [tab[xi | (ai << nx)] for ai in range(1 << len(allanc))]
        lo = min(vals)
        if need == 0 and abs(lo) > TOL:
            return Fail("all constraints hold at %s but the summed penalty has minimum %r over the ancillas"
                        % (fmt_x(assignment(xi, xs, spin)), lo), key="sum-zero-not-attained")
        if lo < need - TOL * max(1, need):
            return Fail("constraints with total weight %r are violated at %s but the summed penalty gets as low as %r"
                        % (need, fmt_x(assignment(xi, xs, spin)), lo), key="sum-under-penalised")
    return None


def with_copies(gen, every=3):
    """the sequences of `gen`, with the model copied (one of four ways) before every constraint but the first"""
    def g(ctx):
        vias = ("copy", "ctor", "plus0", "times1")
        for i, case in enumerate(gen(ctx)):
            if i % every == 0:
                yield dict(case, via=vias[(i // every) % len(vias)])
    return g


def with_forks(gen, every=3):
    """the cases of `gen`, each with a copy forked off the finished model; the copy (or the original) then gets one
    more constraint of the relation of the first recorded constraint, on the same variables"""
    def g(ctx):
        vias = ("copy", "ctor", "plus0", "times1")
        for i, case in enumerate(gen(ctx)):
            if i % every:
                continue
            rel, P, _, _ = case["cons"][0]
            labs = variables_of(P) or [LABELS[0]]
            extra = {(labs[0],): 1, (): -2 if rel in ("ge", "gt") else (1 if rel in ("le", "lt") else 0)}
            j = i // every
            yield dict(case, fork={"via": vias[j % 4], "grow": ("copy", "original")[(j // 4) % 2], "rel": rel, "P": extra})
    return g


def with_argtypes(gen, types, every=3):
    def g(ctx):
        for i, case in enumerate(gen(ctx)):
            if i % every == 0:
                yield dict(case, argtype=types[(i // every) % len(types)])
    return g


def _nontrivial_seq(case):
    """at least two of the constraints need ancillas (by the coefficient-sum estimate)"""
    return sum(1 for rel, Q, _, log in case["cons"] if anc_estimate(rel, *sum_enclosure(Q), log) > 0) >= 2


@clause("C02.distinct_ancillas", "C02", gen=_gen_sequence, nontrivial=_nontrivial_seq)
def check_sequence(case):
    """Two or three constraints of mixed relations added one after another to one PCBO (objective optional, log_trick
    mixed): the '__a' labels introduced by each call are disjoint from every label present before the call, each
    call's added terms mention only its own polynomial's variables and its own ancillas, and the penalties add
    independently: for every x the total penalty minimised over all ancillas is 0 when all constraints hold and the
    total penalty is at least the sum of lam over the violated constraints for every ancilla assignment. Non-trivial:
    at least two constraints need ancillas."""
    return run_sequence_case(case)



@clause("C02.ancillas_across_copies", "C02", gen=with_copies(_gen_sequence), nontrivial=_nontrivial_seq)
def check_sequence_copies(case):
    """C02.distinct_ancillas where the model is replaced by a copy of itself (copy(), PCBO(model), model + 0,
    1 * model) before every constraint but the first: the copy denotes the same function and has the same type, and
    the constraints added to it get ancillas that are new for it, so the penalties still add independently.
    Non-trivial: at least two constraints need ancillas."""
    return run_sequence_case(case)


@clause("C02.is_solution_valid_after_argument_edits", "C02", gen=with_argtypes(_gen_valid, ["PUBO", "PCBO", "QUBO"]),
        nontrivial=_nontrivial_valid)
def check_valid_argedits(case):
    """C02.is_solution_valid where every constraint polynomial is handed over as a PUBO / PCBO / QUBO object that the
    caller edits in place after the call (scaled by -1 or shifted, and a linear term changed): is_solution_valid
    still decides the constraints as they were added. Non-trivial: some constraint has both outcomes."""
    if case["argtype"] == "QUBO" and any(len(set(k)) > 2 for _, P, _, _ in case["cons"] for k in P):
        return Skip("degree > 2 polynomial cannot be a QUBO")
    return run_valid_case(case)


@clause("C02.is_solution_valid_forked_copies", "C02", gen=with_forks(_gen_valid), nontrivial=_nontrivial_valid)
def check_valid_forks(case):
    """C02.is_solution_valid for a model from which a copy was taken (copy(), PCBO(model), model + 0, 1 * model) after
    its constraints were added; the copy - or the model, the copy being judged - then gets one more constraint of a
    relation already recorded, chosen so that it is violated everywhere or somewhere: the verdicts of the object that
    was *not* extended stay those of its own constraints. Non-trivial: some constraint has both outcomes."""
    return run_valid_case(case)
