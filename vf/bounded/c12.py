"""C12 bounded stand-in: annealer dynamics are reproducible Metropolis sweeps.

Every check compiles the C kernels from the repository's current working tree (``import_qubovert(fresh_c=True)``).

Clauses
  C12.seed_reproducible            two identical calls with a fixed seed >= 0 (another call in between)
  C12.seed_reproducible_delayed    the same, with more than one second between the two calls
  C12.zero_T_never_uphill          schedule of zeros + initial state: every value <= value of the initial state
  C12.zero_T_exact_inorder         integer-labelled Matrix models, in order: final state = reference greedy sweeps
  C12.metropolis_inorder  (statistical)   exact k-sweep distribution, in-order visiting
  C12.metropolis_random   (statistical)   exact k-sweep distribution, uniformly random site per update attempt
"""
import math
import time

from .common import clause, Fail, Skip, LABELS, variables_of, peval, cls_of, close
from .c11 import preflight, fresh_qubovert
from .c11 import TYPES, SPIN_FN, MATRIX, FNS, _special_models, _random_models, _vars_for, _build, _init_state

GENERIC = [1, -1, 2.5, -1.25, 0.75, -3.5, 1.625, -0.375, 2.125, -2.75, 0.5625, 3.25]


def _fn(case):
    q = fresh_qubovert()
    return getattr(q.sim, "anneal_" + case["fn"])


def _triples(res):
    return [(dict(r.state), r.value, r.spin) for r in res]


# ---------------------------------------------------------------------------------------------
# (i) reproducibility
# ---------------------------------------------------------------------------------------------
REPRO_SCHEDULES = [{"anneal_duration": 5}, {"schedule": "linear", "anneal_duration": 3}, {"schedule": [2.0, 1.0, 0.5]},
                   {"schedule": [4.0]}, {"schedule": [1.0, 0, 1.0]}, {"schedule": []},
                   {"schedule": "geometric", "anneal_duration": 2, "temperature_range": (5, 1)}]
SEEDS = [0, 1, 2, 7, 12345, 2 ** 31 - 1]


def _gen_repro(ctx):
    rng = ctx.rng("c12.repro")
    for fn in FNS:
        spin = SPIN_FN[fn]
        for tname in TYPES[fn]:
            models = _special_models(fn, tname)
            models = [m for m in models if variables_of(m)][3:] + list(_random_models(rng, fn, tname, ctx.pick(10, 200)))
            for terms in models:
                vs = _vars_for(tname, terms)
                for in_order in (True, False):
                    kw = dict(rng.choice(REPRO_SCHEDULES))
                    kw.update(num_anneals=rng.choice([1, 3, 6]), in_order=in_order, seed=rng.choice(SEEDS))
                    if rng.random() < 0.35:
                        kw["initial_state"] = _init_state(rng, vs, spin, "rand")
                    yield {"fn": fn, "type": tname, "terms": terms, "kw": kw}


def _nt_repro(case):
    # randomness is actually consumed: random initial state, or a positive temperature, or random order
    kw = case["kw"]
    sched = kw.get("schedule", "geometric")
    hot = isinstance(sched, str) or any(t > 0 for t in sched)
    return bool(variables_of(case["terms"])) and ("initial_state" not in kw or hot)


def _repro(case, delay):
    pf = preflight()
    if pf is not None:
        return pf
    f = _fn(case)
    a = _triples(f(_build(case), **case["kw"]))
    # an unrelated call in between must not matter
    other = dict(case["kw"])
    other["seed"] = (case["kw"]["seed"] + 17) % (2 ** 31)
    f(_build(case), **other)
    if delay:
        time.sleep(delay)
    b = _triples(f(_build(case), **case["kw"]))
    if a != b:
        i = next((j for j, (x, y) in enumerate(zip(a, b)) if x != y), None)
        return Fail("two identical calls with seed=%r differ (first difference at result %r: %r vs %r)"
                    % (case["kw"]["seed"], i, a[i] if i is not None else len(a), b[i] if i is not None else len(b)),
                    key="not-reproducible:seed=%s" % ("0" if case["kw"]["seed"] == 0 else "positive"),
                    observed=b[:3], required=a[:3])
    return None


@clause("C12.seed_reproducible", "C12", gen=_gen_repro, nontrivial=_nt_repro)
def check_repro(case):
    """With a fixed non-negative integer seed (0, small, 2^31-1) two identical calls of anneal_qubo/quso/pubo/puso
    return identical results (states, values, flags, order), for both visiting orders, with and without initial state,
    for every schedule kind; a call with another seed in between does not matter. Non-trivial: the call consumes
    random numbers (random initial state, or some positive temperature)."""
    return _repro(case, 0)


def _gen_repro_delayed(ctx):
    rng = ctx.rng("c12.delay")
    big_q = {(i, j): GENERIC[(i + 2 * j) % len(GENERIC)] for i in range(8) for j in range(i + 1, 8) if (i + j) % 3}
    big_p = dict(big_q)
    big_p.update({(0, 1, 2): 1.5, (3, 4, 5, 6): -2.0, (1, 5, 7): 0.75})
    for seed in ([0, 7] if not ctx.thorough else [0, 7, 1, 2 ** 31 - 1]):
        for fn in FNS:
            terms = big_q if fn in ("qubo", "quso") else big_p
            for in_order in ([True] if not ctx.thorough else [True, False]):
                yield {"fn": fn, "type": "dict", "terms": terms,
                       "kw": {"num_anneals": 6, "schedule": [3.0, 1.5], "in_order": in_order, "seed": seed}}


@clause("C12.seed_reproducible_delayed", "C12", gen=_gen_repro_delayed, nontrivial=_nt_repro)
def check_repro_delayed(case):
    """Same as C12.seed_reproducible, but the second call is made 1.1 s after the first, so that a generator seeded
    from the clock (the behaviour reserved for a missing/negative seed) cannot pass by accident; seed 0 is a fixed
    non-negative seed. 8-variable models, 6 anneals from random initial states (> 48 random bits).
    Non-trivial: the call consumes random numbers."""
    return _repro(case, 1.1)


# ---------------------------------------------------------------------------------------------
# (ii) temperature zero
# ---------------------------------------------------------------------------------------------
def _zero_kw(form, k):
    if form == "list_short_duration":
        # an explicit schedule decides the number of sweeps; anneal_duration is documented as ignored then
        return {"schedule": [0] * k, "anneal_duration": 1}
    if form == "list":
        return {"schedule": [0] * k}
    if form == "floatlist":
        return {"schedule": [0.0] * k}
    return {"schedule": "linear", "temperature_range": (0, 0), "anneal_duration": k}


def _gen_zero_mono(ctx):
    rng = ctx.rng("c12.zero")
    for fn in FNS:
        spin = SPIN_FN[fn]
        for tname in TYPES[fn]:
            models = [m for m in _special_models(fn, tname) if variables_of(m)]
            models += list(_random_models(rng, fn, tname, ctx.pick(25, 500)))
            for terms in models:
                vs = _vars_for(tname, terms)
                for in_order in (True, False):
                    kw = _zero_kw(rng.choice(["list", "floatlist", "linear00"]), rng.choice([1, 2, 3, 5]))
                    kw.update(num_anneals=rng.choice([1, 3]), in_order=in_order,
                              initial_state=_init_state(rng, vs, spin, rng.choice(["first", "second", "rand", "rand"])))
                    if rng.random() < 0.7:
                        kw["seed"] = rng.choice(SEEDS)
                    yield {"fn": fn, "type": tname, "terms": terms, "kw": kw}
                    if tname not in MATRIX and tname != "dict" and len(vs) >= 2:
                        # the same model with a user-chosen enumeration (set_mapping / set_reverse_mapping), started
                        # from a minimiser: at temperature zero nothing may move
                        import itertools
                        dom = (1, -1) if spin else (0, 1)
                        best = min(({v: x for v, x in zip(vs, xs)} for xs in itertools.product(dom, repeat=len(vs))),
                                   key=lambda st: peval(terms, st)) if len(vs) <= 6 else None
                        if best is not None:
                            kw2 = dict(kw, initial_state=best)
                            yield {"fn": fn, "type": tname, "terms": terms, "kw": kw2,
                                   "mapping": ("reversed", "rotated", "rotated_rev_api")[len(vs) % 3]}


def _nt_zero(case):
    # some single flip from the initial state lowers the energy and some other raises it
    terms, init = case["terms"], case["kw"]["initial_state"]
    spin = SPIN_FN[case["fn"]]
    e0 = peval(terms, init)
    up = down = False
    for v in variables_of(terms):
        s = dict(init)
        s[v] = -s[v] if spin else 1 - s[v]
        d = peval(terms, s) - e0
        up, down = up or d > 0, down or d < 0
    return up and down


@clause("C12.zero_T_never_uphill", "C12", gen=_gen_zero_mono, nontrivial=_nt_zero)
def check_zero_mono(case):
    """Temperature zero throughout (explicit schedule [0]*k as ints or floats, or 'linear' with temperature_range
    (0, 0)) with a supplied initial state: every result's value is <= the value of the initial state (oracle
    common.peval; tolerance 1e-9 relative), for all four functions, all model types, both visiting orders.
    Non-trivial: from the initial state some single flip lowers and some single flip raises the energy."""
    pf = preflight()
    if pf is not None:
        return pf
    res = _fn(case)(_build(case), **case["kw"])
    e0 = peval(case["terms"], case["kw"]["initial_state"])
    init = case["kw"]["initial_state"]
    spin = SPIN_FN[case["fn"]]
    def _flipped(v):
        s2 = dict(init)
        s2[v] = -init[v] if spin else 1 - init[v]
        return s2
    strict_min = all(peval(case["terms"], _flipped(v)) > e0 + 1e-9 for v in init) if isinstance(init, dict) else False
    for r in res:
        if strict_min and any(r.state.get(v) != init[v] for v in init):
            return Fail("started at temperature zero from %r, where every single flip raises the energy, but ended in %r"
                        % (init, r.state), key="moved-from-strict-minimum", observed=r.state, required=init)
        if r.value > e0 + 1e-9 * max(1.0, abs(e0), abs(r.value)):
            return Fail("value %r at zero temperature exceeds the initial state's value %r (final state %r)"
                        % (r.value, e0, r.state), key="uphill-at-zero-T", observed=r.value, required="<= %r" % e0)
        # the reported value must be the value of the reported state (else the comparison above is meaningless)
        if set(r.state) >= set(variables_of(case["terms"])) and not close(r.value, peval(case["terms"], r.state)):
            return Skip("value does not match state (C11)")
    return None


def _ref_zero_T(terms, n, spin, init, sweeps):
    """Reference procedure of the property text: sweep the variables in label order, flip iff dE < 0.
    Returns None when an exactly-zero energy change is met (the readings dE < 0 / dE <= 0 then differ)."""
    import fractions
    exact = {k: fractions.Fraction(v) for k, v in terms.items()}      # dyadic coefficients: exact, at any magnitude
    s = dict(init)
    for _ in range(sweeps):
        for i in range(n):
            s2 = dict(s)
            s2[i] = -s[i] if spin else 1 - s[i]
            dE = peval(exact, s2) - peval(exact, s)
            if dE == 0:
                return None
            if dE < 0:
                s = s2
    return s


EXACT_PAIRS = [("quso", "QUSOMatrix"), ("puso", "PUSOMatrix"), ("puso", "QUSOMatrix"), ("qubo", "QUBOMatrix"),
               ("pubo", "PUBOMatrix")]


def _generic_model(rng, n, maxdeg, nterms):
    """every label 0..n-1 gets a linear term or occurs in a coupling; generic dyadic coefficients"""
    import itertools
    keys = [k for d in range(1, maxdeg + 1) for k in itertools.combinations(range(n), d)]
    for _ in range(50):
        ks = rng.sample(keys, min(nterms, len(keys)))
        if set(i for k in ks for i in k) == set(range(n)):
            break
    else:
        ks = list(set(ks) | {(i,) for i in range(n)})
    terms = {k: rng.choice(GENERIC) * rng.choice([1, 1, 2, 0.5]) for k in ks}
    if rng.random() < 0.4:
        terms[()] = rng.choice(GENERIC)
    return terms


def _gen_zero_exact(ctx):
    rng = ctx.rng("c12.exact")
    # hand-made: chain with incremental-update dependence, frustrated triangle, a degree-3 term
    hand_q = [{(0, 1): 1, (1, 2): 2.5, (0,): -1.25, (2,): 0.75}, {(0, 1): 1, (1, 2): 2.5, (0, 2): -1.25, (1,): 0.375},
              {(0,): 1}, {(0,): -1, (1,): 2.5}, {(0, 1): -3.5, (0,): 1, (1,): 0.75, (): 2}]
    hand_p = [{(0, 1, 2): 1, (0,): -1.25, (1, 2): 2.5, (2,): 0.375}, {(0, 1, 2, 3): 2.5, (0, 1): -1, (3,): 0.75, (2,): -3.5}]
    for fn, tname in EXACT_PAIRS:
        spin = SPIN_FN[fn]
        deg = 2 if (fn in ("qubo", "quso") or tname.startswith("Q")) else 4
        models = list(hand_q) + (hand_p if deg > 2 else [])
        for _ in range(ctx.pick(150, 3000)):
            n = rng.randint(1, ctx.pick(5, 7))
            models.append(_generic_model(rng, n, min(deg, n), rng.randint(n, 2 * n + 1)))
        # the same models at other magnitudes (exact: powers of two): energy differences are compared exactly, however
        # small or large they are
        models = models + [{k: v * sc for k, v in m.items()} for m in models[:40] for sc in (2.0 ** -40, 2.0 ** 20)]
        for terms in models:
            n = max(variables_of(terms)) + 1
            dom = (1, -1) if spin else (0, 1)
            inits = [{i: rng.choice(dom) for i in range(n)} for _ in range(2)] + [{i: dom[0] for i in range(n)}]
            for init in inits:
                k = rng.choice([1, 1, 2, 3])
                kw = _zero_kw(rng.choice(["list", "floatlist", "linear00", "list_short_duration"]), k)
                kw.update(num_anneals=rng.choice([1, 2]), in_order=True, initial_state=init)
                if rng.random() < 0.5:
                    kw["seed"] = rng.choice(SEEDS)
                yield {"fn": fn, "type": tname, "terms": terms, "kw": kw, "sweeps": k}


def _nt_exact(case):
    spin = SPIN_FN[case["fn"]]
    n = max(variables_of(case["terms"])) + 1
    ref = _ref_zero_T(case["terms"], n, spin, case["kw"]["initial_state"], case["sweeps"])
    if ref is None:
        return False
    flips = sum(ref[i] != case["kw"]["initial_state"][i] for i in range(n))
    return n >= 2 and 0 < flips


@clause("C12.zero_T_exact_inorder", "C12", gen=_gen_zero_exact, nontrivial=_nt_exact)
def check_zero_exact(case):
    """Integer-labelled Matrix models (QUSOMatrix/PUSOMatrix with anneal_quso/anneal_puso, QUBOMatrix/PUBOMatrix through
    the boolean wrappers, labels 0..n-1 all present), temperature zero, in_order=True, supplied initial state: every
    result's state is exactly the state produced by the reference procedure "for each sweep, for i in label order:
    flip variable i iff the exact energy change of flipping it is negative" (energy changes by common.peval on exact
    dyadic coefficients). Cases where the reference meets an exactly-zero energy change are skipped (the property
    says 'negative'; ties are outside what is compared). Non-trivial: n >= 2 and the reference flips something."""
    pf = preflight()
    if pf is not None:
        return pf
    terms = case["terms"]
    spin = SPIN_FN[case["fn"]]
    n = max(variables_of(terms)) + 1
    if sorted(variables_of(terms)) != list(range(n)):
        return Skip("labels with gaps: a variable without terms has dE == 0")
    ref = _ref_zero_T(terms, n, spin, case["kw"]["initial_state"], case["sweeps"])
    if ref is None:
        return Skip("reference trajectory meets dE == 0")
    res = _fn(case)(_build(case), **case["kw"])
    for r in res:
        if dict(r.state) != ref:
            return Fail("zero-temperature in-order result %r, reference sweeps give %r (initial %r, %d sweeps)"
                        % (r.state, ref, case["kw"]["initial_state"], case["sweeps"]),
                        key="zero-T-trajectory:" + case["fn"], observed=dict(r.state), required=ref)
    return None


# ---------------------------------------------------------------------------------------------
# (iii) positive temperature: exact k-sweep Metropolis distribution (statistical)
# ---------------------------------------------------------------------------------------------
_LOG_TAIL = math.log(2 / 1e-11)         # every single comparison has false-alarm probability <= 1e-11


def _bernstein_slack(n, p):
    """t such that P(|X - n p| >= t) <= 1e-11 for X ~ Binomial(n, p)   (Bernstein's inequality)"""
    v = n * p * (1 - p)
    L = _LOG_TAIL
    return L / 3 + math.sqrt(L * L / 9 + 2 * L * v)


def _exact_dist(terms, order, spin, init, Ts, in_order):
    """distribution over states (tuples along `order`) after len(Ts) sweeps; one sweep = len(order) single-spin
    Metropolis update attempts with acceptance min(1, exp(-dE/T))"""
    n = len(order)
    cache = {}

    def E(st):
        if st not in cache:
            cache[st] = peval(terms, dict(zip(order, st)))
        return cache[st]

    def flip(st, i):
        x = list(st)
        x[i] = -x[i] if spin else 1 - x[i]
        return tuple(x)

    def step(dist, i, T, w, out):
        for st, p in dist.items():
            st2 = flip(st, i)
            dE = E(st2) - E(st)
            a = 1.0 if dE <= 0 else math.exp(-dE / T)
            out[st2] = out.get(st2, 0.0) + w * p * a
            if a < 1.0:
                out[st] = out.get(st, 0.0) + w * p * (1 - a)

    dist = {tuple(init[v] for v in order): 1.0}
    for T in Ts:
        for j in range(n):
            out = {}
            if in_order:
                step(dist, j, T, 1.0, out)
            else:
                for i in range(n):
                    step(dist, i, T, 1.0 / n, out)
            dist = out
    return dist


def _gen_dist(ctx, in_order):
    rng = ctx.rng("c12.dist.%s" % in_order)
    n_anneals = ctx.pick(20000, 200000)
    seeds = ctx.pick([11, 2024], [11, 2024, 987654321])
    cases = []
    # hand-made tiny models; Matrix types fix the visiting order for in-order sweeps
    spin_models = [
        ("quso", "QUSOMatrix", {(0, 1): 1, (0,): 0.5}),
        ("quso", "QUSOMatrix", {(0, 1): -1, (1, 2): 1.5, (0,): 0.5, (2,): -1}),
        ("quso", "QUSOMatrix", {(0, 1): 1, (1, 2): 1, (0, 2): 1, (1,): -0.5, (): 2}),
        ("quso", "QUSOMatrix", {(0, 2): 1.5, (0,): -0.5}),                        # label 1 missing: dE = 0 there
        ("puso", "PUSOMatrix", {(0, 2): 1.5, (0,): -0.5}),                        # the same through the PUSO kernel
        ("puso", "PUSOMatrix", {(0, 1, 3): 1, (0,): 0.5}),                        # label 2 in no term
        ("puso", "PUSOMatrix", {(0, 1, 2): 1, (0,): 0.5, (1, 2): -1}),
        ("puso", "PUSOMatrix", {(0, 1): 1, (1, 2): -1.5, (2,): 0.5}),
        ("puso", "QUSOMatrix", {(0, 1): -1, (0,): 1, (1,): -0.5}),
        ("puso", "PUSOMatrix", {(0, 1, 2): -1.5, (0, 1): 0.5, (2,): 1, (): -1}),
    ]
    bool_models = [
        ("qubo", "QUBOMatrix", {(0, 1): 2, (0,): -1, (1,): 0.5}),
        ("qubo", "QUBOMatrix", {(0, 1): -2, (1, 2): 1, (0,): 1, (2,): -1.5, (): 1}),
        ("pubo", "PUBOMatrix", {(0, 1, 2): 2, (0,): -1, (1, 2): -1, (2,): 0.5}),
        ("pubo", "PUBOMatrix", {(0, 1): 1.5, (1,): -1}),
        ("pubo", "PUBOMatrix", {(0, 2): 2, (0,): -1}),                            # label 1 in no term
    ]
    labelled = [
        ("quso", "dict", {('a', 'b'): 1, ('b',): -0.5, ('a', 0): 1.5}),
        ("quso", "QUSO", {('a', 'b'): -1, ('a',): 1}),
        ("puso", "PUSO", {('a', 'b', 0): 1, ('a',): 0.5, (0,): -1}),
        ("puso", "PCSO", {('a', 'b'): 1.5, ('b',): 0.5}),
        ("qubo", "QUBO", {('a', 'b'): 2, ('a',): -1, (0,): 1}),
        ("pubo", "PCBO", {('a', 'b', 0): -2, ('a', 'b'): 1, (0,): 0.5}),
        ("pubo", "dict", {('a', 'b'): 1, ('a',): -1.5}),
    ]
    models = spin_models + bool_models + ([] if in_order else labelled)
    extra = ctx.pick(6, 30)
    for _ in range(extra):
        fn, tname = rng.choice(EXACT_PAIRS)
        n = rng.choice([2, 3])
        deg = 2 if (fn in ("qubo", "quso") or tname.startswith("Q")) else 3
        terms = {k: rng.choice([1, -1, 0.5, -1.5, 2]) for k in _generic_model(rng, n, min(deg, n), rng.randint(n, n + 2))}
        models.append((fn, tname, terms))
    for fn, tname, terms in models:
        spin = SPIN_FN[fn]
        vs = _vars_for(tname, terms)
        dom = (1, -1) if spin else (0, 1)
        for Ts in ([1.0], [2.0, 0.7]) if rng.random() < 0.5 else ([0.8], [1.5, 1.5]):
            init = {v: rng.choice(dom) for v in vs}
            if rng.random() < 0.6:
                # start in a ground state: every single flip is then uphill or neutral
                import itertools
                init = min(({v: x for v, x in zip(vs, xs)} for xs in itertools.product(dom, repeat=len(vs))),
                           key=lambda st: peval(terms, st))
            cases.append({"fn": fn, "type": tname, "terms": terms, "init": init, "schedule": list(Ts),
                          "in_order": in_order, "n": n_anneals, "seeds": seeds})
    for c in cases:
        yield c


def _nt_dist(case):
    # at least one uphill single flip from the initial state, i.e. acceptance probabilities strictly inside (0, 1)
    terms, init = case["terms"], case["init"]
    spin = SPIN_FN[case["fn"]]
    e0 = peval(terms, init)
    for v in variables_of(terms):
        s = dict(init)
        s[v] = -s[v] if spin else 1 - s[v]
        if peval(terms, s) > e0:
            return True
    return False


def _check_dist(case):
    pf = preflight()
    if pf is not None:
        return pf
    terms = case["terms"]
    spin = SPIN_FN[case["fn"]]
    order = _vars_for(case["type"], terms)        # Matrix: 0..max_index (the visiting order); else any order
    if case["in_order"] and case["type"] not in MATRIX:
        return Skip("in-order visiting is only specified for integer-labelled Matrix models")
    if any(T <= 0 for T in case["schedule"]):
        return Skip("positive temperatures only")
    exact = _exact_dist(terms, order, spin, case["init"], case["schedule"], case["in_order"])
    n = case["n"]
    for seed in case["seeds"]:
        res = _fn(case)(_build(case), num_anneals=n, initial_state=dict(case["init"]), schedule=list(case["schedule"]),
                        in_order=case["in_order"], seed=seed)
        if len(res) != n:
            return Skip("wrong number of results (C11)")
        counts = {}
        for r in res:
            try:
                st = tuple(r.state[v] for v in order)
            except KeyError:
                return Skip("state keys wrong (C11)")
            counts[st] = counts.get(st, 0) + 1
        for st in set(counts) | set(exact):
            p = exact.get(st, 0.0)
            c = counts.get(st, 0)
            slack = _bernstein_slack(n, p) + 1e-6 * n
            if (p == 0.0 and c > 0) or abs(c - n * p) > slack:
                return Fail("state %r: empirical frequency %.5f over %d anneals (seed %d), exact %d-sweep Metropolis "
                            "probability %.5f (allowed deviation %.5f)"
                            % (dict(zip(order, st)), c / n, n, seed, len(case["schedule"]), p, slack / n),
                            key="distribution:%s:%s" % (case["fn"], "inorder" if case["in_order"] else "random"),
                            observed={repr(k): v / n for k, v in sorted(counts.items())},
                            required={repr(k): round(v, 6) for k, v in sorted(exact.items())})
    return None


@clause("C12.metropolis_inorder", "C12", gen=lambda ctx: _gen_dist(ctx, True), nontrivial=_nt_dist)
def check_dist_inorder(case):
    """STATISTICAL clause. Tiny integer-labelled Matrix models (2-3 variables), fixed initial state, explicit positive
    schedule of k = 1 or 2 temperatures, in_order=True, num_anneals = 20000 (quick) / 200000 (thorough) in ONE call,
    repeated for a few seeds: the empirical distribution of final states is compared with the exact distribution of
    k sweeps (one sweep = one Metropolis update attempt of every variable in label order, acceptance
    min(1, exp(-dE/T)) with the model's exact energy differences) obtained by enumeration. A state fails when
    |count - n p| exceeds the Bernstein bound for tail probability 1e-11 (plus 1e-6 n), or when a state of exact
    probability zero is observed: false alarms are practically impossible. Non-trivial: some single flip from the
    initial state is uphill."""
    return _check_dist(case)


@clause("C12.metropolis_random", "C12", gen=lambda ctx: _gen_dist(ctx, False), nontrivial=_nt_dist)
def check_dist_random(case):
    """STATISTICAL clause. As C12.metropolis_inorder with in_order=False: one sweep = N update attempts, each at a
    uniformly random variable (with replacement); dict and labelled model types are included as the distribution does
    not depend on an order of the variables. Same conservative test (Bernstein bound at 1e-11 per state).
    Non-trivial: some single flip from the initial state is uphill."""
    return _check_dist(case)
