"""C10 bounded stand-in: the seven problem classes encode their combinatorial problem faithfully.

Every oracle below is written from the problem statements in the class docstrings and from the text of the
property (feasibility, cost, documented weight threshold); none of them looks at to_qubo/to_quso. Ground states are
found with an own numpy enumeration of all 2^n assignments of the labels 0..num_binary_variables-1 (not with the
library's solver).

Conventions
  * a case is {"inst": <literal instance description>, ...}; the instance names its class in inst["cls"].
  * tier 1 (weights strictly above the documented threshold): EVERY ground state decodes to a feasible optimal
    solution and the ground energy equals scale * optimal cost (scale = B, the documented factor in front of the
    objective; the property's "equals the optimal cost" is the case B = 1).
  * tier 2 (default weights; SetCover, VertexCover, NumberPartitioning, GraphPartitioning, JobSequencing): ground
    energy equals the optimal cost and AT LEAST ONE ground state decodes to a feasible optimal solution.
  * only feasible instances are judged; infeasible ones are skipped (feasibility computed here, not by the class).
  * partitions (GraphPartitioning, NumberPartitioning) are compared as unordered pairs: the stated problems ask for
    a partition into two subsets, and the two decoders do not look at the `spin` flag.
"""
import itertools
import random

import numpy as np

from .common import clause, Fail, Skip, qv, close

# ---------------------------------------------------------------------------------------------------------------
# instance adapters: build the real object + independent oracle of the stated problem
# ---------------------------------------------------------------------------------------------------------------


class _Malformed(Exception):
    pass


def _seq(kind, items):
    return tuple(items) if kind == "tuple" else list(items)


class _Base:
    key = "?"
    has_B = True            # objective factor B offered by to_qubo/to_quso
    native = "qubo"

    def __init__(self, inst):
        self.inst = inst

    # weights -------------------------------------------------------------------------------------------------
    def threshold(self, B):
        raise NotImplementedError

    def kwargs(self, A, B):
        return {"A": A, "B": B}

    def scale(self, A, B):
        return B

    # oracle --------------------------------------------------------------------------------------------------
    def optimum(self):
        """(optimal cost, number of feasible candidates, number of candidates) by exhaustive search over the
        combinatorial problem; optimal cost None when the instance is infeasible."""
        best, nf, n = None, 0, 0
        for s in self.candidates():
            n += 1
            if self.feasible(s):
                nf += 1
                c = self.cost(s)
                if best is None or c < best:
                    best = c
        return best, nf, n


class _SetCover(_Base):
    """inst: {"cls":"SetCover","U":[..],"V":[[..],..],"weights":None|[..],"vtype":"list"|"tuple","log_trick":b}.
    Stated problem: choose subsets V[i] whose union is U, minimising their number (total weight)."""
    key = "setcover"

    def __init__(self, inst):
        super().__init__(inst)
        self.U = set(inst["U"])
        self.V = [set(v) for v in inst["V"]]
        self.N = len(self.V)
        self.w = list(inst["weights"]) if inst.get("weights") is not None else [1] * self.N

    def build(self, q):
        V = _seq(inst_kind(self.inst), (set(v) for v in self.V))
        w = None if self.inst.get("weights") is None else _seq(inst_kind(self.inst), self.inst["weights"])
        return q.problems.SetCover(set(self.U), V, weights=w, log_trick=self.inst["log_trick"])

    def threshold(self, B):                 # documented: "B: positive float that is less than A"
        return B

    def wellformed(self, s):
        if not isinstance(s, set) or not all(isinstance(i, (int, np.integer)) and 0 <= i < self.N for i in s):
            raise _Malformed("expected a set of indices of V, got %r" % (s,))

    def feasible(self, s):
        cov = set()
        for i in s:
            cov |= self.V[i]
        return cov == self.U

    def cost(self, s):
        return sum(self.w[i] for i in s)

    def candidates(self):
        for r in range(self.N + 1):
            for c in itertools.combinations(range(self.N), r):
                yield set(c)

    def norm(self, s):
        return frozenset(s)


def inst_kind(inst):
    return inst.get("vtype", "list")


class _VertexCover(_Base):
    """inst: {"cls":"VertexCover","edges":[[u,v],..]}. Stated problem: smallest set of vertices touching every
    edge."""
    key = "vertexcover"

    def __init__(self, inst):
        super().__init__(inst)
        self.E = [tuple(e) for e in inst["edges"]]
        self.vs = []
        for e in self.E:
            for v in e:
                if v not in self.vs:
                    self.vs.append(v)

    def build(self, q):
        return q.problems.VertexCover(set(self.E))

    def threshold(self, B):
        return B

    def wellformed(self, s):
        if not isinstance(s, set) or not all(v in self.vs for v in s):
            raise _Malformed("expected a set of vertices, got %r" % (s,))

    def feasible(self, s):
        return all(u in s or v in s for u, v in self.E)

    def cost(self, s):
        return len(s)

    def candidates(self):
        for r in range(len(self.vs) + 1):
            for c in itertools.combinations(self.vs, r):
                yield set(c)

    def norm(self, s):
        return frozenset(s)


class _BILP(_Base):
    """inst: {"cls":"BILP","c":[..],"S":[[..],..],"b":[..]}. Stated problem: minimise c.x subject to S x = b,
    x boolean."""
    key = "bilp"

    def __init__(self, inst):
        super().__init__(inst)
        self.c, self.S, self.b = list(inst["c"]), [list(r) for r in inst["S"]], list(inst["b"])
        self.N = len(self.c)

    def build(self, q):
        if self.inst.get("numpy"):
            return q.problems.BILP(np.array(self.c), np.array(self.S), np.array(self.b))
        return q.problems.BILP(list(self.c), [list(r) for r in self.S], list(self.b))

    def threshold(self, B):                 # property text: A > B * sum|c|
        return B * sum(abs(x) for x in self.c)

    def wellformed(self, s):
        if not isinstance(s, np.ndarray) or s.shape != (self.N,) or not all(int(v) in (0, 1) and v == int(v)
                                                                             for v in s):
            raise _Malformed("expected a 0/1 numpy vector of length %d, got %r" % (self.N, s))

    def feasible(self, s):
        x = [int(v) for v in s]
        return all(sum(r[i] * x[i] for i in range(self.N)) == bj for r, bj in zip(self.S, self.b))

    def cost(self, s):
        return sum(ci * int(v) for ci, v in zip(self.c, s))

    def candidates(self):
        for x in itertools.product((0, 1), repeat=self.N):
            yield np.array(x)

    def norm(self, s):
        return tuple(int(v) for v in s)


class _JobSeq(_Base):
    """inst: {"cls":"JobSequencing","lengths":[..]|{name:len},"ltype":"list"|"tuple"|"dict","workers":m,
    "log_trick":b}. Stated problem: assign every job to exactly one worker, minimising the largest total length
    assigned to a worker."""
    key = "jobseq"

    def __init__(self, inst):
        super().__init__(inst)
        L = inst["lengths"]
        self.L = dict(L) if isinstance(L, dict) else dict(enumerate(L))
        self.jobs = list(self.L)
        self.m = inst["workers"]

    def build(self, q):
        L = self.inst["lengths"]
        L = dict(L) if isinstance(L, dict) else _seq(self.inst.get("ltype", "list"), L)
        return q.problems.JobSequencing(L, self.m, log_trick=self.inst["log_trick"])

    def threshold(self, B):                 # property text: A > B * max length
        return B * max(self.L.values())

    def wellformed(self, s):
        if not (isinstance(s, tuple) and len(s) == self.m and all(isinstance(w, set) for w in s)
                and all(j in self.L for w in s for j in w)):
            raise _Malformed("expected a tuple of %d sets of jobs, got %r" % (self.m, s))

    def feasible(self, s):
        return all(sum(1 for w in s if j in w) == 1 for j in self.jobs)

    def cost(self, s):
        return max(sum(self.L[j] for j in w) for w in s)

    def candidates(self):
        # every tuple of m sets of jobs (jobs done twice or never are the infeasible candidates)
        for a in itertools.product(range(1 << self.m), repeat=len(self.jobs)):
            yield tuple(set(j for j, mask in zip(self.jobs, a) if (mask >> k) & 1) for k in range(self.m))

    def norm(self, s):
        return tuple(frozenset(w) for w in s)


class _GraphPart(_Base):
    """inst: {"cls":"GraphPartitioning","edges":[[u,v],..],"weights":None|[..]}. weights None -> a set of edges is
    passed, else a dict edge->weight. Self loops (u,u) are documented to be ignored (they only add the vertex).
    Stated problem: split the vertices into two subsets of equal size minimising the number (weight) of edges
    between them."""
    key = "graphpart"
    native = "quso"

    def __init__(self, inst):
        super().__init__(inst)
        self.E = [tuple(e) for e in inst["edges"]]
        self.w = list(inst["weights"]) if inst.get("weights") is not None else [1] * len(self.E)
        self.vs = []
        for e in self.E:
            for v in e:
                if v not in self.vs:
                    self.vs.append(v)
        deg = {v: 0 for v in self.vs}
        for u, v in self.E:
            if u != v:
                deg[u] += 1
                deg[v] += 1
        self.maxdeg = max(deg.values()) if deg else 0

    def build(self, q):
        if self.inst.get("weights") is None:
            return q.problems.GraphPartitioning(set(self.E))
        return q.problems.GraphPartitioning(dict(zip(self.E, self.w)))

    def threshold(self, B):                 # property text: A > B * min(2*maxdegree, N) / 8
        return B * min(2 * self.maxdeg, len(self.vs)) / 8

    def wellformed(self, s):
        if not (isinstance(s, tuple) and len(s) == 2 and isinstance(s[0], set) and isinstance(s[1], set)
                and not (s[0] & s[1]) and (s[0] | s[1]) == set(self.vs)):
            raise _Malformed("expected a pair of sets partitioning the vertices %r, got %r" % (self.vs, s))

    def feasible(self, s):
        return len(s[0]) == len(s[1])

    def cost(self, s):
        return sum(w for (u, v), w in zip(self.E, self.w) if u != v and ((u in s[0]) != (v in s[0])))

    def candidates(self):
        for r in range(len(self.vs) + 1):
            for c in itertools.combinations(self.vs, r):
                yield (set(c), set(self.vs) - set(c))

    def norm(self, s):
        return frozenset((frozenset(s[0]), frozenset(s[1])))


class _NumPart(_Base):
    """inst: {"cls":"NumberPartitioning","S":[..],"stype":"list"|"tuple"}. Stated problem: split the list into two
    sublists of equal sum (objective: the squared difference of the sums, 0 iff a valid partition exists)."""
    key = "numpart"
    native = "quso"
    has_B = False

    def __init__(self, inst):
        super().__init__(inst)
        self.S = list(inst["S"])

    def build(self, q):
        return q.problems.NumberPartitioning(_seq(self.inst.get("stype", "list"), self.S))

    def kwargs(self, A, B):
        return {"A": A}

    def scale(self, A, B):
        return 1 if A is None else A

    def wellformed(self, s):
        t = tuple if self.inst.get("stype", "list") == "tuple" else list
        if not (isinstance(s, tuple) and len(s) == 2 and isinstance(s[0], t) and isinstance(s[1], t)
                and sorted(list(s[0]) + list(s[1])) == sorted(self.S)):
            raise _Malformed("expected two %ss splitting %r, got %r" % (t.__name__, self.S, s))

    def feasible(self, s):
        return sum(s[0]) == sum(s[1])

    def cost(self, s):
        return (sum(s[0]) - sum(s[1])) ** 2

    def candidates(self):
        t = tuple if self.inst.get("stype", "list") == "tuple" else list
        for a in itertools.product((0, 1), repeat=len(self.S)):
            yield (t(x for x, k in zip(self.S, a) if k), t(x for x, k in zip(self.S, a) if not k))

    def norm(self, s):
        return tuple(sorted([tuple(sorted(s[0])), tuple(sorted(s[1]))]))


class _ASC(_Base):
    """inst: {"cls":"AlternatingSectorsChain","n":N,"chain_length":l,"min":s,"max":S,"pbc":b}. Stated problem: the
    solution has all variables equal. Couplings (docstring example): bond (q, q+1) has strength `max` when sector
    q // chain_length is even, else `min`; pbc adds the bond (N-1, 0) of sector (N-1) // chain_length; the energy of
    the all-equal state is minus the sum of the strengths."""
    key = "asc"
    native = "quso"
    has_B = False

    def __init__(self, inst):
        super().__init__(inst)
        self.N = inst["n"]

    def build(self, q):
        i = self.inst
        return q.problems.AlternatingSectorsChain(i["n"], chain_length=i["chain_length"], min_strength=i["min"],
                                                  max_strength=i["max"])

    def kwargs(self, A, B):
        return {"pbc": self.inst["pbc"]}

    def scale(self, A, B):
        return 1

    def bonds(self):
        i = self.inst
        out = [(q, q + 1, i["max"] if (q // i["chain_length"]) % 2 == 0 else i["min"]) for q in range(self.N - 1)]
        if i["pbc"]:
            out.append((self.N - 1, 0, i["max"] if ((self.N - 1) // i["chain_length"]) % 2 == 0 else i["min"]))
        return out

    def wellformed(self, s):
        try:
            ok = len(s) == self.N and all(v in (1, -1) for v in s)
        except TypeError:
            ok = False
        if not ok:
            raise _Malformed("expected %d spins, got %r" % (self.N, s))

    def feasible(self, s):
        return len(set(s)) <= 1

    def cost(self, s):
        return sum(-w * s[a] * s[b] for a, b, w in self.bonds())

    def candidates(self):
        for z in itertools.product((1, -1), repeat=self.N):
            yield z

    def norm(self, s):
        return tuple(s)


_AD = {"SetCover": _SetCover, "VertexCover": _VertexCover, "BILP": _BILP, "JobSequencing": _JobSeq,
       "GraphPartitioning": _GraphPart, "NumberPartitioning": _NumPart, "AlternatingSectorsChain": _ASC}


def _adapter(inst):
    return _AD[inst["cls"]](inst)


# ---------------------------------------------------------------------------------------------------------------
# own enumeration of a degree-<=2 (any degree, in fact) model over labels 0..n-1
# ---------------------------------------------------------------------------------------------------------------
def _bits(n):
    return ((np.arange(1 << n, dtype=np.int64)[:, None] >> np.arange(n, dtype=np.int64)) & 1).astype(np.int8)


def _energies(model, n, spin):
    """-> (energies over all 2^n assignments, assignment matrix with entries 0/1 or +1/-1), or a Fail when the
    model mentions something else than the labels 0..n-1."""
    X = _bits(n)
    if spin:
        X = (1 - 2 * X).astype(np.int8)
    e = np.zeros(1 << n, dtype=np.float64)
    for k, v in dict(model).items():
        if not isinstance(k, tuple) or not all(isinstance(i, (int, np.integer)) and 0 <= i < n for i in k):
            return None, k
        col = np.ones(1 << n, dtype=np.float64)
        for i in k:
            col = col * X[:, i]
        e += float(v) * col
    return e, X


def _ground(e):
    m = float(e.min())
    tol = 1e-9 * max(1.0, abs(m))
    return m, np.nonzero(e <= m + tol)[0]


MAXVARS_QUICK, MAXVARS_THOROUGH = 16, 18


def _judge(case, tier):
    """Shared body of the tier-1 / tier-2 clauses."""
    q = qv()
    ad = _adapter(case["inst"])
    A, B, form = case.get("A"), case.get("B", 1), case["form"]
    opt, nfeas, ncand = ad.optimum()
    if opt is None:
        return Skip("infeasible instance")
    if tier == 1:
        if ad.has_B and not B > 0:
            return Skip("B must be positive")
        if ad.key not in ("asc",):
            if A is None or not A > ad.threshold(B):
                return Skip("weight not strictly above the documented threshold")
        kw = ad.kwargs(A, B)
    else:
        kw = {} if B == 1 else {"B": B}          # A left to its default (a function of B for JobSeq/GraphPart)
        if ad.key == "asc":
            return Skip("no default-weight tier")
    p = ad.build(q)
    n = p.num_binary_variables
    if n > MAXVARS_THOROUGH:
        return Skip("too many variables (%d)" % n)
    model = (p.to_qubo if form == "qubo" else p.to_quso)(**kw)
    spin = form == "quso"
    e, X = _energies(model, n, spin)
    tag = "%s-tier%d" % (ad.key, tier)
    if e is None:
        return Fail("%s(%r).to_%s(**%r) mentions key %r outside the labels 0..%d" % (case["inst"]["cls"], p, form,
                    kw, X, n - 1), key=tag + "-labels")
    emin, idx = _ground(e)
    want = ad.scale(A, B) * opt
    if not close(emin, want):
        i0 = int(idx[0])
        st = {j: int(X[i0, j]) for j in range(n)}
        return Fail("%s %s(**%r): ground energy %r != %r * optimal cost %r (a ground state: %r)"
                    % (p, "to_" + form, kw, emin, ad.scale(A, B), opt, st), key=tag + "-ground-energy",
                    observed=emin, required=want)
    good = 0
    first_bad = None
    for i in idx:
        st = {j: int(X[i, j]) for j in range(n)}
        sol = p.convert_solution(dict(st), spin=spin)
        try:
            ad.wellformed(sol)
            feas = ad.feasible(sol)
            cost = ad.cost(sol) if feas else None
        except _Malformed as ex:
            return Fail("%s: ground state %r of to_%s(**%r) decodes to a malformed solution: %s"
                        % (p, st, form, kw, ex), key=tag + "-malformed")
        if feas and close(cost, opt):
            good += 1
            continue
        kind = "infeasible" if not feas else "nonoptimal"
        bad = Fail("%s to_%s(**%r): ground state %r (energy %r) decodes to %r which is %s (cost %r, optimal cost %r, "
                   "ground energy %r)" % (p, form, kw, st, float(e[i]), sol, kind, cost, opt, emin),
                   key="%s-%s-ground-state" % (tag, kind), observed=repr(sol))
        if tier == 1:
            return bad
        first_bad = first_bad or bad
    if tier == 2 and good == 0:
        first_bad.key = tag + "-no-feasible-optimal-ground-state"
        first_bad.msg = "none of the %d ground states decodes to a feasible optimal solution; e.g. %s" % (
            len(idx), first_bad.msg)
        return first_bad
    return None


def _nontrivial_instance(case):
    ad = _adapter(case["inst"])
    opt, nfeas, ncand = ad.optimum()
    if opt is None or not (0 < nfeas < ncand):
        return False
    costs = set(ad.cost(s) for s in ad.candidates() if ad.feasible(s))
    return len(costs) > 1 or ad.key in ("asc", "numpart")


# ---------------------------------------------------------------------------------------------------------------
# instance generators (independent feasibility filters; the check re-derives everything from the literal)
# ---------------------------------------------------------------------------------------------------------------
def _powerset(xs):
    return [list(c) for r in range(len(xs) + 1) for c in itertools.combinations(xs, r)]


def _sc_vars(U, V, log_trick):
    M = max(sum(1 for v in V if a in v) for a in U)
    per = (M.bit_length() + 1) if log_trick else M          # int(log2(M)) + 1 == M.bit_length()
    return len(V) + len(U) * per


def _coverable(U, V):
    return set(U) == set(x for v in V for x in v)


def _setcover_instances(ctx, heavy=True):
    """heavy=False: only instances with few variables (for the cheap clauses)."""
    rng = ctx.rng("c10-sc")
    lim = ctx.pick(MAXVARS_QUICK, MAXVARS_THOROUGH)
    out = []
    pools = [[0], [0, 1], [0, 1, 2], ["a", "b", "c"]]
    for U in pools:
        subs = _powerset(U)
        for k in (1, 2, 3):
            for V in itertools.combinations_with_replacement(subs, k):
                V = [list(v) for v in V]
                if not _coverable(U, V):
                    continue
                if U == ["a", "b", "c"] and rng.random() > 0.15:
                    continue
                out.append({"U": U, "V": V, "weights": None, "vtype": "list"})
    # permuted order, tuple containers, weights, 4 subsets / 4 elements (sampled in quick, more in thorough)
    base = list(out)
    for inst in rng.sample(base, min(len(base), ctx.pick(25, 120))):
        V = list(inst["V"])
        rng.shuffle(V)
        out.append(dict(inst, V=V, vtype=rng.choice(["list", "tuple"])))
    for inst in rng.sample(base, min(len(base), ctx.pick(40, 150))):
        N = len(inst["V"])
        w = [rng.choice([1, 0.5, 0.25]) for _ in range(N)]
        w[rng.randrange(N)] = 1
        out.append(dict(inst, weights=w, vtype=rng.choice(["list", "tuple"])))
    big = []
    for U, k in (([0, 1, 2], 4), ([0, 1, 2, 3], 3), ([0, 1, 2, 3], 4)):
        subs = _powerset(U)
        for _ in range(ctx.pick(12, 150)):
            V = [list(rng.choice(subs)) for _ in range(k)]
            if _coverable(U, V):
                w = None
                if rng.random() < 0.4:
                    w = [rng.choice([1, 0.5, 0.25]) for _ in range(k)]
                    w[rng.randrange(k)] = 1
                big.append({"U": U, "V": V, "weights": w, "vtype": "list"})
    for inst in out + big:
        for lt in (True, False):
            nv = _sc_vars(inst["U"], inst["V"], lt)
            if nv <= (lim if heavy else 9):
                yield dict(inst, cls="SetCover", log_trick=lt)


def _graphs(vs, min_edges=1):
    pairs = list(itertools.combinations(vs, 2))
    for r in range(min_edges, len(pairs) + 1):
        for es in itertools.combinations(pairs, r):
            yield [list(e) for e in es]


def _vertexcover_instances(ctx):
    rng = ctx.rng("c10-vc")
    # an undirected edge may be listed in both orientations ({(u, v), (v, u)} is a legal edge set): same problem
    for vs in ([0, 1], [0, 1, 2], ["a", "b", "c"]):
        for es in _graphs(vs):
            for r in range(1, len(es) + 1):
                for twice in itertools.combinations(es, r):
                    yield {"cls": "VertexCover", "edges": es + [e[::-1] for e in twice]}
    for vs in ([0, 1], [0, 1, 2], [0, 1, 2, 3]):
        for es in _graphs(vs):
            yield {"cls": "VertexCover", "edges": es}
    for vs in (["a", "b", "c", "d"], [3, "x", 7, ("t", 1)]):
        for es in _graphs(vs):
            if rng.random() < 0.35:
                yield {"cls": "VertexCover", "edges": [e[::-1] if rng.random() < 0.5 else e for e in es]}
    if ctx.thorough:
        gs = list(_graphs([0, 1, 2, 3, 4]))
        for es in rng.sample(gs, min(len(gs), 300)):
            yield {"cls": "VertexCover", "edges": [e[::-1] if rng.random() < 0.5 else e for e in es]}


def _bilp_feasible(c, S, b):
    N = len(c)
    return any(all(sum(r[i] * x[i] for i in range(N)) == bj for r, bj in zip(S, b))
               for x in itertools.product((0, 1), repeat=N))


def _bilp_instances(ctx):
    rng = ctx.rng("c10-bilp")
    ent = [-1, 0, 1, 2]
    # exhaustive: one variable / one row, two variables / one row
    for c in itertools.product(ent, repeat=1):
        for S in itertools.product(ent, repeat=1):
            for b in (-1, 0, 1, 2):
                if _bilp_feasible(list(c), [list(S)], [b]):
                    yield {"cls": "BILP", "c": list(c), "S": [list(S)], "b": [b]}
    for c in itertools.product(ent, repeat=2):
        for S in itertools.product(ent, repeat=2):
            for b in (-1, 0, 1, 2, 3):
                if _bilp_feasible(list(c), [list(S)], [b]):
                    yield {"cls": "BILP", "c": list(c), "S": [list(S)], "b": [b]}
    # sampled: up to 3 variables, up to 2 rows, b from a planted solution (feasible) or random (filtered)
    ent2 = [-2, -1, 0, 1, 2, 3]
    n = ctx.pick(150, 3000)
    got = 0
    while got < n:
        N, m = rng.choice([2, 3, 3]), rng.choice([1, 2, 2])
        c = [rng.choice(ent2) for _ in range(N)]
        S = [[rng.choice(ent2) for _ in range(N)] for _ in range(m)]
        if rng.random() < 0.7:
            x0 = [rng.randint(0, 1) for _ in range(N)]
            b = [sum(r[i] * x0[i] for i in range(N)) for r in S]
        else:
            b = [rng.choice(ent2) for _ in range(m)]
        if _bilp_feasible(c, S, b):
            got += 1
            yield {"cls": "BILP", "c": c, "S": S, "b": b, "numpy": rng.random() < 0.3}


def _js_vars(lengths, m, lt):
    M = len(lengths) * max(lengths)
    return m * len(lengths) + (m - 1) * (M.bit_length() if lt else M)


def _jobseq_instances(ctx, heavy=True):
    rng = ctx.rng("c10-js")
    lim = ctx.pick(MAXVARS_QUICK, MAXVARS_THOROUGH) if heavy else 9
    insts = []
    for N in (1, 2, 3):
        for L in itertools.product((1, 2, 3), repeat=N):
            insts.append((list(L), 2))
    for L in itertools.product((1, 2), repeat=4):
        insts.append((list(L), 2))
    for L in ([1, 1, 1, 3], [1, 2, 3, 3], [3, 1, 1, 2], [2, 2, 3, 1], [1, 1, 1, 1, 2], [4, 1, 2], [5, 2], [2, 4, 1]):
        insts.append((L, 2))
    for L in ([1], [2], [1, 1], [1, 2], [2, 1], [2, 2], [1, 1, 1], [1, 2, 1], [3, 1], [2, 2, 1]):
        insts.append((L, 3))
    for L in ([1], [2, 1], [1, 2, 3]):
        insts.append((L, 1))
    for L, m in insts:
        for lt in (True, False):
            if _js_vars(L, m, lt) <= lim:
                yield {"cls": "JobSequencing", "lengths": L, "ltype": "list", "workers": m, "log_trick": lt}
    names = ["job1", "job2", "j3", "z"]
    for L, m in rng.sample(insts, min(len(insts), ctx.pick(12, 40))):
        for lt in (True, False):
            if _js_vars(L, m, lt) <= lim:
                yield {"cls": "JobSequencing", "lengths": dict(zip(names, L)) if len(L) <= 4 else L,
                       "ltype": "dict" if len(L) <= 4 else "tuple", "workers": m, "log_trick": lt}
                yield {"cls": "JobSequencing", "lengths": L, "ltype": "tuple", "workers": m, "log_trick": lt}


def _graphpart_instances(ctx):
    rng = ctx.rng("c10-gp")
    yield {"cls": "GraphPartitioning", "edges": [[0, 1]], "weights": None}
    yield {"cls": "GraphPartitioning", "edges": [["a", "b"]], "weights": None}
    vs = [0, 1, 2, 3]
    g4 = [es for es in _graphs(vs) if set(x for e in es for x in e) == set(vs)]
    for es in g4:
        yield {"cls": "GraphPartitioning", "edges": es, "weights": None}
    # isolated vertices can only be named through (ignored) self loops
    for es in _graphs([0, 1, 2]):
        if set(x for e in es for x in e) == {0, 1, 2}:
            yield {"cls": "GraphPartitioning", "edges": es + [[3, 3]], "weights": None}
    yield {"cls": "GraphPartitioning", "edges": [[0, 1], [2, 2], [3, 3]], "weights": None}
    yield {"cls": "GraphPartitioning", "edges": [[0, 1], [1, 1], [2, 3]], "weights": None}
    for es in g4:
        if rng.random() < 0.5:
            lab = dict(zip(vs, rng.choice([["a", "b", "c", "d"], [5, "x", ("t", 1), 0]])))
            es2 = [[lab[u], lab[v]] if rng.random() < 0.5 else [lab[v], lab[u]] for u, v in es]
            yield {"cls": "GraphPartitioning", "edges": es2, "weights": None}
        if rng.random() < 0.6:
            yield {"cls": "GraphPartitioning", "edges": es,
                   "weights": [rng.choice([1, 1, 0.5, 0.25]) for _ in es]}
    vs6 = [0, 1, 2, 3, 4, 5]
    pairs = list(itertools.combinations(vs6, 2))
    got = 0
    while got < ctx.pick(40, 800):
        es = [list(e) for e in pairs if rng.random() < rng.choice([0.25, 0.5, 0.8])]
        if set(x for e in es for x in e) == set(vs6):
            got += 1
            yield {"cls": "GraphPartitioning", "edges": es, "weights": None}
            # the same graph with every edge written in a random / reversed orientation
            yield {"cls": "GraphPartitioning", "edges": [e[::-1] if rng.random() < 0.5 else e for e in es], "weights": None}
    # structured graphs whose edge tuples are written head-to-tail (orientation must not matter):
    # cycles plus a disjoint edge, inward/outward stars, paths
    for es in ([[0, 1], [1, 2], [2, 3], [3, 0], [4, 5]], [[1, 0], [2, 1], [3, 2], [0, 3], [5, 4]],
               [[0, 1], [1, 2], [2, 0], [3, 4], [4, 5], [5, 3]], [[1, 0], [2, 0], [3, 0], [4, 0], [5, 0]],
               [[0, 1], [0, 2], [0, 3], [4, 5]], [[1, 0], [2, 0], [3, 0], [5, 4]],
               [[0, 1], [1, 2], [2, 3], [3, 4], [4, 5]], [[1, 0], [2, 1], [3, 2], [4, 3], [5, 4]],
               [[0, 1], [1, 2], [2, 3], [3, 0], [0, 2], [4, 5]], [[3, 0], [2, 3], [1, 2], [0, 1], [5, 4]]):
        yield {"cls": "GraphPartitioning", "edges": es, "weights": None}


def _np_feasible(S):
    return any(sum(x if k else -x for x, k in zip(S, a)) == 0 for a in itertools.product((0, 1), repeat=len(S)))


def _numpart_instances(ctx, only_feasible=True):
    rng = ctx.rng("c10-np")
    vals = [1, 2, 3, 4]
    for N in (1, 2, 3, 4, 5):
        for S in itertools.combinations_with_replacement(vals, N):
            S = list(S)
            if only_feasible and not _np_feasible(S):
                continue
            yield {"cls": "NumberPartitioning", "S": S, "stype": "list"}
            if rng.random() < 0.3:
                S2 = list(S)
                rng.shuffle(S2)
                yield {"cls": "NumberPartitioning", "S": S2, "stype": "tuple"}
    for S in ([0.5, 1.5, 2], [0.25, 0.25, 0.5], [7, 3, 2, 2], [10, 5, 5], [6, 1, 2, 3], [9, 4, 4, 1], [1.5, 2.5, 4]):
        yield {"cls": "NumberPartitioning", "S": S, "stype": "list"}
    if ctx.thorough:
        got = 0
        while got < 400:
            S = [rng.randint(1, 9) for _ in range(rng.randint(4, 8))]
            if not only_feasible or _np_feasible(S):
                got += 1
                yield {"cls": "NumberPartitioning", "S": S, "stype": rng.choice(["list", "tuple"])}


def _asc_instances(ctx):
    for n in range(1, ctx.pick(7, 11)):
        for cl in (2, 3, 4):
            for mn, mx in ((1, 10), (1, 5), (2, 3), (3, 3), (5, 1), (2, 7)):
                for pbc in (False, True):
                    if pbc and n < 3:
                        continue            # a ring needs three sites; (N-1, 0) would repeat bond (0, 1)
                    yield {"cls": "AlternatingSectorsChain", "n": n, "chain_length": cl, "min": mn, "max": mx,
                           "pbc": pbc}


def _above(thr):
    """Several admissible weights strictly above the threshold."""
    return [thr * 1.01 + 0.01, thr + 1, max(10 * thr, thr + 3)]


def _tier1_cases(insts, ctx, key):
    rng = ctx.rng("c10-t1-" + key)
    for inst in insts:
        ad = _adapter(inst)
        for form in ("qubo", "quso"):
            ws = [(A, 1) for A in _above(ad.threshold(1))] + [(_above(ad.threshold(2))[0], 2)]
            if not ctx.thorough:
                # quick: the barely-admissible weight always, B = 2 and one other weight by rotation
                ws = [ws[0], ws[3] if form == "qubo" else ws[rng.choice([1, 2])]]
            for A, B in ws:
                yield {"inst": inst, "A": A, "B": B, "form": form}


# ---------------------------------------------------------------------------------------------------------------
# tier 1 clauses, one per class with a documented threshold
# ---------------------------------------------------------------------------------------------------------------
def _gen_sc_t1(ctx):
    return _tier1_cases(_setcover_instances(ctx), ctx, "sc")


@clause("C10.setcover.tier1", "C10", gen=_gen_sc_t1, nontrivial=_nontrivial_instance)
def check_setcover_tier1(case):
    """SetCover (incl. weighted, log_trick both ways), A > B > 0: every ground state of to_qubo(A,B)/to_quso(A,B)
    over the labels 0..num_binary_variables-1 decodes (convert_solution) to a cover of U of minimum total weight, and
    the ground energy equals B * that weight. Oracle: exhaustive search over all sub-collections of V. Non-trivial:
    the instance has feasible and infeasible sub-collections and feasible ones of different cost."""
    return _judge(case, 1)


def _gen_vc_t1(ctx):
    return _tier1_cases(_vertexcover_instances(ctx), ctx, "vc")


@clause("C10.vertexcover.tier1", "C10", gen=_gen_vc_t1, nontrivial=_nontrivial_instance)
def check_vertexcover_tier1(case):
    """VertexCover, A > B > 0: every ground state of to_qubo/to_quso decodes to a minimum vertex cover and the ground
    energy equals B * its size. Oracle: exhaustive search over vertex subsets. Non-trivial: some vertex subsets are
    covers, some are not, covers of different sizes exist."""
    return _judge(case, 1)


def _gen_bilp_t1(ctx):
    return _tier1_cases(_bilp_instances(ctx), ctx, "bilp")


@clause("C10.bilp.tier1", "C10", gen=_gen_bilp_t1, nontrivial=_nontrivial_instance)
def check_bilp_tier1(case):
    """BILP with integer c, S, b and a feasible system, A > B * sum|c|, B > 0: every ground state of
    to_qubo/to_quso decodes to an x with S x = b minimising c.x, and the ground energy equals B * min c.x. Oracle:
    exhaustive search over {0,1}^N with exact integer arithmetic. Non-trivial: feasible and infeasible x exist and
    feasible x of different cost exist."""
    return _judge(case, 1)


def _gen_js_t1(ctx):
    return _tier1_cases(_jobseq_instances(ctx), ctx, "js")


@clause("C10.jobseq.tier1", "C10", gen=_gen_js_t1, nontrivial=_nontrivial_instance)
def check_jobseq_tier1(case):
    """JobSequencing (positive integer lengths, 1-3 workers, log_trick both ways, list/tuple/dict input),
    A > B * max length, B > 0: every ground state of to_qubo/to_quso decodes to an assignment of every job to exactly
    one worker whose largest worker load is minimal, and the ground energy equals B * that load. Oracle: exhaustive
    search over all m^N assignments. Non-trivial: assignments of different makespan exist."""
    return _judge(case, 1)


def _gen_gp_t1(ctx):
    return _tier1_cases(_graphpart_instances(ctx), ctx, "gp")


@clause("C10.graphpart.tier1", "C10", gen=_gen_gp_t1, nontrivial=_nontrivial_instance)
def check_graphpart_tier1(case):
    """GraphPartitioning on simple graphs with an even number of vertices (edge weights 1 or in (0,1]; self loops
    ignored as documented), A > B * min(2*maxdegree, N)/8, B > 0: every ground state of to_quso/to_qubo decodes to a
    partition into two halves of equal size with minimum cut weight, and the ground energy equals B * that cut.
    Oracle: exhaustive search over bipartitions. Non-trivial: balanced bipartitions of different cut exist."""
    return _judge(case, 1)


def _gen_asc(ctx):
    for inst in _asc_instances(ctx):
        for form in ("quso", "qubo"):
            yield {"inst": inst, "form": form}


@clause("C10.asc.ground_states", "C10", gen=_gen_asc, nontrivial=lambda c: c["inst"]["n"] >= 2)
def check_asc(case):
    """AlternatingSectorsChain with positive strengths (no weights, so the threshold precondition is empty): every
    ground state of to_quso(pbc)/to_qubo(pbc) decodes to a configuration with all variables equal, and the ground
    energy equals minus the sum of the documented bond strengths (the cost of the all-equal configuration).
    Non-trivial: at least two variables."""
    return _judge(case, 1)


# ---------------------------------------------------------------------------------------------------------------
# tier 2: default weights
# ---------------------------------------------------------------------------------------------------------------
def _gen_t2(ctx):
    for inst in _setcover_instances(ctx):
        for form in ("qubo", "quso"):
            yield {"inst": inst, "form": form}
    for inst in _vertexcover_instances(ctx):
        for form in ("qubo", "quso"):
            yield {"inst": inst, "form": form}


@clause("C10.tier2.covering", "C10", gen=_gen_t2, nontrivial=_nontrivial_instance)
def check_tier2_covering(case):
    """SetCover and VertexCover with the default weights (to_qubo()/to_quso() without arguments): the ground energy
    equals the optimal cost and at least one ground state decodes to a feasible optimal solution."""
    return _judge(case, 2)


def _gen_t2b(ctx):
    for inst in _jobseq_instances(ctx):
        for form in ("qubo", "quso"):
            for B in (1, 2):
                yield {"inst": inst, "form": form, "B": B}
    for inst in _numpart_instances(ctx):
        for form in ("quso", "qubo"):
            yield {"inst": inst, "form": form}


def _gen_t2c(ctx):
    insts = list(_graphpart_instances(ctx))
    # the structured (oriented) graphs are emitted last by the generator: judge them first
    for inst in insts[-10:] + insts[:-10]:
        for form in ("quso", "qubo"):
            for B in (1, 2):
                yield {"inst": inst, "form": form, "B": B}


@clause("C10.tier2.graph_partitioning", "C10", gen=_gen_t2c, nontrivial=_nontrivial_instance)
def check_tier2_c(case):
    """GraphPartitioning with the default A (derived from B and the maximum degree; B in {1, 2}), edges written in any
    orientation: the ground energy equals B * optimal cut and at least one ground state decodes to a balanced
    partition of minimum cut."""
    return _judge(case, 2)


def _gen_t2c_heavy(ctx):
    heavy = [
        {"cls": "GraphPartitioning", "edges": [[0, 1], [0, 2], [1, 2], [0, 3], [1, 3], [2, 3], [4, 5]],
         "weights": [10, 10, 10, 10, 10, 10, 1]},
        {"cls": "GraphPartitioning", "edges": [[0, 1], [1, 2], [0, 2], [3, 4], [2, 3], [4, 5]], "weights": [3, 3, 3, 1, 1, 1]},
    ]
    for inst in heavy:
        for form in ("quso", "qubo"):
            yield {"inst": inst, "form": form, "B": 1}


@clause("C10.tier2.graph_partitioning_heavy_edges", "C10", gen=_gen_t2c_heavy, nontrivial=_nontrivial_instance)
def check_tier2_c_heavy(case):
    """C10.tier2.graph_partitioning for documented *weighted* graphs with edge weights above 1 (dict input): the
    default A is derived from the number of incident edges, not from their weight."""
    f = _judge(case, 2)
    if isinstance(f, Fail):
        f.key = "tier2-heavy-edge-weights"
    return f


def _gen_bilp_large(ctx):
    yield {"c": [1, 1], "S": [[1000000, 1]], "b": [1000001], "x": [1, 0]}
    yield {"c": [1, 1], "S": [[1000000, 1]], "b": [1000001], "x": [1, 1]}
    yield {"c": [0, 1, 1], "S": [[10 ** 7, 3, 1], [1, 1, 0]], "b": [10 ** 7 + 1, 1], "x": [1, 0, 0]}


@clause("C10.bilp_valid_large_coefficients", "C10", gen=_gen_bilp_large, nontrivial=lambda c: True)
def check_bilp_large(case):
    """BILP.is_solution_valid accepts exactly the x with S x = b, also when the integer entries are large (a relative
    tolerance would accept 1000000 for 1000001)."""
    q = qv()
    P = q.problems.BILP(list(case["c"]), [list(r) for r in case["S"]], list(case["b"]))
    x = list(case["x"])
    want = all(sum(r[i] * x[i] for i in range(len(x))) == bj for r, bj in zip(case["S"], case["b"]))
    got = bool(P.is_solution_valid(x))
    if got != want:
        return Fail("BILP(c=%r, S=%r, b=%r).is_solution_valid(%r) = %r, S x = %r" % (
            case["c"], case["S"], case["b"], x, got, [sum(r[i] * x[i] for i in range(len(x))) for r in case["S"]]),
            key="bilp-valid-relative-tolerance")
    return None


@clause("C10.tier2.sequencing_partitioning", "C10", gen=_gen_t2b, nontrivial=_nontrivial_instance)
def check_tier2_b(case):
    """JobSequencing, GraphPartitioning (default A, which the classes derive from B; B in {1, 2}) and
    NumberPartitioning (default A = 1; lists that admit an equal-sum split): the ground energy equals B * optimal
    cost (0 for NumberPartitioning) and at least one ground state decodes to a feasible optimal solution."""
    return _judge(case, 2)


# ---------------------------------------------------------------------------------------------------------------
# (a) is_solution_valid accepts exactly the feasible solutions; (b) decoding of boolean / spin, dict/list/tuple
# ---------------------------------------------------------------------------------------------------------------
def _cheap_instances(ctx):
    for inst in _setcover_instances(ctx, heavy=False):
        yield inst
    # partly uncoverable set systems have no feasible solution: is_solution_valid must reject everything
    for U, V in (([0, 1], [[0]]), ([0, 1, 2], [[0], [0, 1]]), (["a", "b"], [["b"], []])):
        for lt in (True, False):
            yield {"cls": "SetCover", "U": U, "V": V, "weights": None, "vtype": "list", "log_trick": lt}
    for inst in _vertexcover_instances(ctx):
        yield inst
    rng = ctx.rng("c10-cheap")
    for inst in _bilp_instances(ctx):
        if rng.random() < 0.4:
            yield inst
    for inst in _jobseq_instances(ctx, heavy=False):
        yield inst
    for inst in _graphpart_instances(ctx):
        yield inst
    # odd vertex counts have no feasible solution at all: is_solution_valid must reject everything
    yield {"cls": "GraphPartitioning", "edges": [[0, 1], [1, 2]], "weights": None}
    yield {"cls": "GraphPartitioning", "edges": [[0, 1], [2, 2]], "weights": None}
    for inst in _numpart_instances(ctx, only_feasible=False):
        yield inst
    for inst in _asc_instances(ctx):
        if not inst["pbc"]:
            yield inst


def _assignments_for(case, n):
    """All boolean assignments of labels 0..n-1 when n <= 8, else all-0, all-1 and 200 seeded samples."""
    if n <= 8:
        return [list(x) for x in itertools.product((0, 1), repeat=n)]
    r = random.Random(repr(case))
    return [[0] * n, [1] * n] + [[r.randint(0, 1) for _ in range(n)] for _ in range(200)]


def _gen_cheap(ctx):
    for inst in _cheap_instances(ctx):
        yield {"inst": inst}


def _nontrivial_valid(case):
    ad = _adapter(case["inst"])
    opt, nfeas, ncand = ad.optimum()
    return 0 < nfeas < ncand


@clause("C10.valid_exact", "C10", gen=_gen_cheap, nontrivial=_nontrivial_valid)
def check_valid_exact(case):
    """is_solution_valid accepts exactly the feasible solutions of the stated problem: for the decoded solution of
    every assignment of the labels 0..num_binary_variables-1 (all 2^n when n <= 8, else 202 seeded ones),
    is_solution_valid(decoded) equals the independent feasibility oracle, and so does is_solution_valid on the raw
    assignment (boolean dict/list, spin dict/tuple with spin=True). Non-trivial: the instance has feasible and
    infeasible candidate solutions."""
    q = qv()
    ad = _adapter(case["inst"])
    p = ad.build(q)
    n = p.num_binary_variables
    cls = case["inst"]["cls"]
    for x in _assignments_for(case, n):
        xd = dict(enumerate(x))
        sol = p.convert_solution(dict(xd))
        try:
            ad.wellformed(sol)
        except _Malformed as ex:
            return Fail("%s.convert_solution(%r): %s" % (p, xd, ex), key=ad.key + "-decode-malformed")
        want = bool(ad.feasible(sol))
        z = [1 - 2 * v for v in x]
        probes = [("decoded", lambda: p.is_solution_valid(sol)),
                  ("bool dict", lambda: p.is_solution_valid(dict(xd))),
                  ("bool list", lambda: p.is_solution_valid(list(x))),
                  ("spin dict", lambda: p.is_solution_valid(dict(enumerate(z)), spin=True)),
                  ("spin tuple", lambda: p.is_solution_valid(tuple(z), spin=True))]
        for what, f in probes:
            got = f()
            if bool(got) != want:
                return Fail("%s %r: is_solution_valid(%s of assignment %r, decoded %r) = %r, stated problem says %r"
                            % (cls, p, what, x, sol, got, want),
                            key="%s-valid-%s" % (ad.key, "accepts-infeasible" if got else "rejects-feasible"))
    return None


def _nontrivial_decode(case):
    return _adapter(case["inst"]).optimum()[2] >= 4


@clause("C10.decode_forms", "C10", gen=_gen_cheap, nontrivial=_nontrivial_decode)
def check_decode_forms(case):
    """convert_solution decodes an assignment of the labels 0..num_binary_variables-1 to the same well-formed
    solution whether it is given as dict (in any insertion order), list or tuple, and whether it is given in boolean form (spin=False) or as
    the corresponding spin assignment z = 1 - 2x (spin=True); when the assignment is unambiguous (contains a 0,
    resp. a -1) the `spin` flag is documented to be ignored. Partitions compare as unordered pairs. Non-trivial:
    the problem has at least four candidate solutions (all assignments, or 202 seeded ones, are exercised)."""
    q = qv()
    ad = _adapter(case["inst"])
    p = ad.build(q)
    n = p.num_binary_variables
    for x in _assignments_for(case, n):
        z = [1 - 2 * v for v in x]
        forms = [("bool dict", dict(enumerate(x)), False), ("bool list", list(x), False),
                 ("bool tuple", tuple(x), False), ("spin dict", dict(enumerate(z)), True),
                 ("spin list", list(z), True), ("spin tuple", tuple(z), True)]
        forms.append(("bool dict in reversed insertion order", dict(reversed(list(enumerate(x)))), False))
        forms.append(("spin dict in reversed insertion order", dict(reversed(list(enumerate(z)))), True))
        if 0 in x:
            forms.append(("bool list, spin=True (flag to be ignored)", list(x), True))
        if -1 in z:
            forms.append(("spin dict, spin=False (flag to be ignored)", dict(enumerate(z)), False))
        ref = None
        for what, arg, spin in forms:
            sol = p.convert_solution(arg, spin=spin)
            try:
                ad.wellformed(sol)
            except _Malformed as ex:
                return Fail("%r.convert_solution(%s %r): %s" % (p, what, arg, ex), key=ad.key + "-decode-malformed")
            v = ad.norm(sol)
            if ref is None:
                ref = (what, v, sol)
            elif v != ref[1]:
                flag = "flag to be ignored" in what
                return Fail("%r: assignment %r decodes to %r as %s but to %r as %s" % (p, x, ref[2], ref[0], sol,
                            what), key="%s-decode-%s" % (ad.key, "spin-flag" if flag else "forms-disagree"))
    return None


# ---------------------------------------------------------------------------------------------------------------
# (e) solve_bruteforce
# ---------------------------------------------------------------------------------------------------------------
def _gen_sb(ctx):
    rng = ctx.rng("c10-sb")
    for inst in _setcover_instances(ctx):
        if inst["log_trick"] or rng.random() < 0.3:      # the specific solver does not depend on log_trick
            yield {"inst": inst, "all": rng.random() < 0.4}
    for inst in _jobseq_instances(ctx):
        if inst["log_trick"] or rng.random() < 0.3:
            yield {"inst": inst, "all": rng.random() < 0.4}


def _gen_sb_generic(ctx):
    rng = ctx.rng("c10-sbg")
    # generic Problem.solve_bruteforce forwards the weights to to_qubo: admissible only strictly above threshold
    for gen in (_vertexcover_instances, _bilp_instances, _graphpart_instances):
        for inst in gen(ctx):
            if rng.random() < ctx.pick(0.35, 1.0):
                ad = _adapter(inst)
                B = rng.choice([1, 1, 2])
                if len(getattr(ad, "vs", [])) > 4:
                    continue
                yield {"inst": inst, "all": rng.random() < 0.4, "A": rng.choice(_above(ad.threshold(B))), "B": B}
    for inst in _vertexcover_instances(ctx):
        if rng.random() < 0.3:
            yield {"inst": inst, "all": rng.random() < 0.4}          # defaults A=2 > B=1 are above threshold
    for inst in _asc_instances(ctx):
        if rng.random() < 0.3:
            yield {"inst": inst, "all": rng.random() < 0.4}


def _solve_bruteforce(case, generic):
    q = qv()
    ad = _adapter(case["inst"])
    opt, nfeas, ncand = ad.optimum()
    if opt is None:
        return Skip("infeasible instance")
    kw = {}
    if "A" in case:
        if not case["A"] > ad.threshold(case["B"]):
            return Skip("weight not strictly above threshold")
        kw = ad.kwargs(case["A"], case["B"])
    elif ad.key == "asc":
        kw = ad.kwargs(None, None)
    elif ad.key not in ("setcover", "jobseq", "vertexcover"):
        return Skip("default weights are not above threshold")
    if generic != (ad.key not in ("setcover", "jobseq")):
        return Skip("belongs to the other solve_bruteforce clause")
    p = ad.build(q)
    try:
        if case["all"]:
            res = p.solve_bruteforce(all_solutions=True, **kw)
        else:
            res = [p.solve_bruteforce(**kw)]
    except Exception as ex:       # noqa
        return Fail("%r.solve_bruteforce(all_solutions=%r, **%r) raised %s: %s" % (p, case["all"], kw,
                    type(ex).__name__, ex), key="%s-solve-bruteforce-raised-%s" % (ad.key, type(ex).__name__))
    if not isinstance(res, list) or not res:
        return Fail("%r.solve_bruteforce(all_solutions=True, **%r) returned %r" % (p, kw, res),
                    key=ad.key + "-solve-bruteforce-empty")
    for sol in res:
        try:
            ad.wellformed(sol)
        except _Malformed as ex:
            return Fail("%r.solve_bruteforce(**%r): %s" % (p, kw, ex), key=ad.key + "-solve-bruteforce-malformed")
        if not ad.feasible(sol):
            return Fail("%r.solve_bruteforce(all_solutions=%r, **%r) returned infeasible %r" % (p, case["all"], kw,
                        sol), key=ad.key + "-solve-bruteforce-infeasible")
        if not close(ad.cost(sol), opt):
            return Fail("%r.solve_bruteforce(all_solutions=%r, **%r) returned %r of cost %r, optimal cost is %r"
                        % (p, case["all"], kw, sol, ad.cost(sol), opt), key=ad.key + "-solve-bruteforce-nonoptimal")
    return None


@clause("C10.solve_bruteforce_specific", "C10", gen=_gen_sb, nontrivial=_nontrivial_instance)
def check_solve_bruteforce(case):
    """The problem-specific solve_bruteforce of SetCover and JobSequencing (no weights involved) returns an optimal
    feasible solution; with all_solutions=True the list is non-empty and every returned solution is optimal and
    feasible. Infeasible instances are skipped. Non-trivial: feasible and infeasible candidates, different feasible
    costs."""
    return _solve_bruteforce(case, False)


@clause("C10.solve_bruteforce_generic", "C10", gen=_gen_sb_generic, nontrivial=_nontrivial_instance)
def check_solve_bruteforce_generic(case):
    """The inherited Problem.solve_bruteforce (to_qubo -> brute force -> convert_solution) of VertexCover, BILP,
    GraphPartitioning called with weights strictly above the documented threshold (VertexCover also with its
    defaults A=2 > B=1) and of AlternatingSectorsChain returns an optimal feasible solution (every one of them with
    all_solutions=True) - a consequence of 'every ground state decodes to a feasible optimal solution'. Non-trivial:
    feasible and infeasible candidates, different feasible costs (any chain of >= 2 sites)."""
    return _solve_bruteforce(case, True)
