"""Driver for the C17 bounded clauses; runs in a *separate* interpreter (under LD_PRELOAD=ASan runtime, or valgrind).

usage:  python _c17_driver.py api <so> <repo>      calls (Python literal list of call specs) on stdin
        python _c17_driver.py raw <so>             raw calls [("quso"|"puso", args-tuple), ...] on stdin

api: pre-seeds sys.modules['qubovert.sim._canneal'] with the extension at <so>, imports qubovert from <repo> and runs
     every call spec through the public annealing functions.
raw: loads only the extension and calls c_anneal_quso / c_anneal_puso with the given argument tuples (no qubovert, no
     numpy: cheap enough to run under valgrind).

Protocol: before call i "CALL i" is written to stderr (so a sanitizer report can be attributed); after it
"RESULT i <repr>" or "EXC i <type>: <msg>" goes to stdout; "DONE" to stdout at the end.
This file is not a clause module and must not import vf.
"""
import ast
import importlib.util as ilu
import os
import subprocess
import sys
import warnings


def run_driver(mode, so, payload, repo=None, wrapper=(), env_extra=None, timeout=60):
    """(used by the clause modules) start this file as a separate interpreter; -> (returncode|None, stdout, stderr,
    timed_out)"""
    env = dict(os.environ)
    env.update({"PYTHONDONTWRITEBYTECODE": "1", "PYTHONMALLOC": "malloc"})
    env.update(env_extra or {})
    cmd = list(wrapper) + [sys.executable, os.path.abspath(__file__), mode, so] + ([repo] if mode == "api" else [])
    try:
        r = subprocess.run(cmd, input=repr(payload), capture_output=True, text=True, env=env, timeout=timeout)
        return r.returncode, r.stdout, r.stderr, False
    except subprocess.TimeoutExpired as e:
        out = e.stdout.decode(errors="replace") if isinstance(e.stdout, bytes) else (e.stdout or "")
        err = e.stderr.decode(errors="replace") if isinstance(e.stderr, bytes) else (e.stderr or "")
        return None, out, err, True


def _load_ext(so):
    spec = ilu.spec_from_file_location("qubovert.sim._canneal", so)
    mod = ilu.module_from_spec(spec)
    spec.loader.exec_module(mod)
    sys.modules["qubovert.sim._canneal"] = mod
    return mod


def build_model(q, spec):
    """spec: {"type": "dict"|class name, "terms": {...}, "cancel": [labels], "premap": [(label, int)]}; `cancel` labels get +1 then -1 on their
    linear term, so they are registered as variables although no term is left."""
    t = spec["type"]
    if t == "dict":
        return dict(spec["terms"])
    cls = getattr(q, t) if hasattr(q, t) else getattr(q.utils, t)
    if spec.get("premap"):
        # the enumeration is chosen first (set_mapping, documented), the terms are entered afterwards; the mapping may
        # name labels the model never uses and integers that are not contiguous
        M = cls()
        M.set_mapping(dict(spec["premap"]))
        for k, v in spec["terms"].items():
            M[k] += v
    else:
        M = cls(spec["terms"])
    for lab in spec.get("cancel", ()):
        M[(lab,)] += 1
        M[(lab,)] -= 1
    return M


def main():
    mode, so = sys.argv[1], sys.argv[2]
    warnings.simplefilter("ignore")
    mod = _load_ext(so)
    calls = ast.literal_eval(sys.stdin.read())
    if mode == "api":
        repo = sys.argv[3]
        sys.path.insert(0, repo)
        import qubovert as q
        if q.sim._anneal.c_anneal_quso.__module__ is None or sys.modules["qubovert.sim._canneal"] is not mod:
            print("EXC -1 driver: extension not injected")
            return 2
    for i, c in enumerate(calls):
        sys.stderr.write("CALL %d\n" % i)
        sys.stderr.flush()
        try:
            if mode == "api":
                model = build_model(q, c)
                res = getattr(q.sim, "anneal_" + c["fn"])(model, **c["kw"])
                out = [(sorted(r.state.items(), key=repr), r.value, r.spin) for r in res]
                # output buffers that were never written show as values outside the domain / energies that are not
                # the model's value at the returned state (memory the extension allocated but did not initialise)
                spin = c["fn"] in ("quso", "puso")
                dom = (1, -1) if spin else (0, 1)
                val = q.utils.puso_value if spin else q.utils.pubo_value
                for r in res:
                    if any(v not in dom for v in r.state.values()):
                        print("GARBAGE %d state %r" % (i, sorted(r.state.items(), key=repr)[:6]))
                        break
                    try:
                        want = val(r.state, dict(model))
                    except Exception:
                        continue
                    if abs(want - r.value) > 1e-6 * (1 + abs(want)):
                        print("GARBAGE %d value %r but the model evaluates to %r at the returned state" % (i, r.value, want))
                        break
            else:
                out = getattr(mod, "c_anneal_" + c[0])(*c[1])
            print("RESULT %d %r" % (i, out))
        except Exception as e:      # noqa  (a Python-level exception is not a memory-safety event)
            print("EXC %d %s: %s" % (i, type(e).__name__, e))
        sys.stdout.flush()
    print("DONE")
    sys.stdout.flush()
    return 0


if __name__ == "__main__":
    sys.exit(main())
