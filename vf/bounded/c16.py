"""C16 bounded stand-in: symbolic coefficients commute with substitution.

Every clause builds the same thing twice through one code path `build(weights)`: once with sympy Symbols as weights
followed by ``.subs(...)``, once with the numbers directly, and compares coefficient-wise (numerically), the type and
the recorded constraints. Symbols are named by strings in the case ("lam", "mu"); values are exact binary fractions.
Only what the property states is demanded: terms whose symbolic coefficient becomes zero under the substitution are
dropped by DictArithmetic.subs (its __setitem__ discards zeros), exactly as the numeric build drops them, so plain
coefficient dictionaries are compared; bookkeeping such as num_ancillas or the label mapping is not compared.
"""
import warnings

from .common import (Skip, clause, Fail, cls_of, LABELS, INT_COEFS, gen_models, snapshot, close, MODEL_TYPES, DEG2_TYPES,
                     labels_for)
from .c02 import RELS, add_constraint, true_range, sum_enclosure, anc_estimate, _to_bool, _special_polys
from .c03 import to_spin
from . import c06

VALUES = (0.5, 1, 3)


def sym(name):
    import sympy
    return sympy.Symbol(name)


def weights(case, symbolic):
    """{name: Symbol or number}"""
    return {n: (sym(n) if symbolic else v) for n, v in case["values"].items()}


def do_subs(M, case, names=None):
    vals = {n: v for n, v in case["values"].items() if names is None or n in names}
    if case.get("form") == "pair" and len(vals) == 1:
        (n, v), = vals.items()
        return M.subs(sym(n), v)
    return M.subs({sym(n): v for n, v in vals.items()})


def _num(v):
    return float(v)


def same_poly(sub, direct, what):
    """coefficient-wise numerical equality of two term dicts (keys from the same class, hence canonical)."""
    if type(sub) is not type(direct):
        return Fail("%s: type after subs is %s, built directly it is %s"
                    % (what, type(sub).__name__, type(direct).__name__), key="type")
    a, b = dict(sub), dict(direct)
    for k in set(a) | set(b):
        try:
            x, y = _num(a.get(k, 0)), _num(b.get(k, 0))
        except TypeError:
            return Fail("%s: coefficient of %r is still symbolic after substituting every symbol: %r vs %r"
                        % (what, k, a.get(k, 0), b.get(k, 0)), key="still-symbolic")
        if not close(x, y):
            return Fail("%s: coefficient of %r is %r after subs but %r when built with the number"
                        % (what, k, a.get(k, 0), b.get(k, 0)), key="coefficient")
    return None


def same_model(sub, direct, what="model"):
    r = same_poly(sub, direct, what)
    if r is not None:
        return r
    ca = getattr(sub, "constraints", None)
    cb = getattr(direct, "constraints", None)
    if (ca is None) != (cb is None):
        return Fail("%s: only one of the two has recorded constraints" % what, key="constraints")
    if ca is None:
        return None
    if {k: len(v) for k, v in ca.items()} != {k: len(v) for k, v in cb.items()}:
        return Fail("%s: recorded constraints differ in shape: %r vs %r" % (
            what, {k: len(v) for k, v in ca.items()}, {k: len(v) for k, v in cb.items()}), key="constraints")
    for k in ca:
        for i, (p, d) in enumerate(zip(ca[k], cb[k])):
            r = same_poly(p, d, "%s: recorded constraint %s[%d]" % (what, k, i))
            if r is not None:
                r.key = "constraints-" + (r.key or "")
                return r
    return None


def commute(case, build, what="model", post=None):
    """build(weights) -> model. Checks subs(build(symbols)) == build(numbers) and that subs does not change its
    receiver. `post(model)`, when given, is applied to both sides before they are compared (used to substitute
    symbols that both builds share)."""
    with warnings.catch_warnings():
        warnings.simplefilter("ignore")
        S = build(weights(case, True))
        D = build(weights(case, False))
        if case.get("simplify") and hasattr(S, "simplify"):
            # the README workflow may tidy the symbolic model first; simplify() changes how coefficients are written,
            # not the model (terms, constraints, ancilla counter)
            S.simplify()
    snap = snapshot(S)
    sub = do_subs(S, case)
    if snapshot(S) != snap:
        return Fail("%s: subs changed the model it was called on" % what, key="subs-mutated")
    if sub is S:
        return Fail("%s: subs returned the receiver itself" % what, key="subs-mutated")
    if post is not None:
        sub, D = post(sub), post(D)
    r = same_model(sub, D, what)
    if r is not None:
        return r
    # "the same model" also as a starting point for further work: the substituted model must go on numbering its
    # constraint ancillas where the directly built one does (otherwise the next inequality reuses '__a0')
    na_s, na_d = getattr(sub, "num_ancillas", None), getattr(D, "num_ancillas", None)
    if na_s != na_d:
        return Fail("%s: after subs num_ancillas is %r, the directly built model has %r (ancillas present: %r)"
                    % (what, na_s, na_d, sorted(str(v) for v in getattr(sub, "variables", ()) if str(v).startswith("__a"))),
                    key="subs-ancilla-counter")
    names = sorted(case["values"])
    if len(names) > 1:
        # one symbol at a time: the intermediate model keeps the other symbol; finishing the substitution must
        # give the same model again
        step = S
        for n in names:
            step = do_subs(step, case, [n])
        if post is not None:
            step = post(step)
        r = same_model(step, D, what + " (symbols substituted one at a time)")
        if r is not None:
            return r
        if snapshot(S) != snap:
            return Fail("%s: subs changed the model it was called on" % what, key="subs-mutated")
    # subs leaves the original unchanged -- also afterwards: editing the substituted model (terms, and one more
    # recorded constraint of every kind it has) must not show on the receiver, and vice versa
    sub2 = do_subs(S, case)
    with warnings.catch_warnings():
        warnings.simplefilter("ignore")
        for a, b, who in ((sub2, S, "substituted model"), (S, sub2, "receiver")):
            other = snapshot(b)
            zz = ("__zz",) if hasattr(a, "mapping") else (97,)
            a[zz] += 1
            for kind in list(getattr(a, "_constraints", {})):
                getattr(a, "add_constraint_%s_zero" % kind)({zz: 1}, lam=0)
            if snapshot(b) != other:
                return Fail("%s: editing the %s after subs changed the other side" % (what, who), key="subs-aliases-receiver")
    return None


# ---------------------------------------------------------------------------------------------
# comparison constraints, PCBO and PCSO
# ---------------------------------------------------------------------------------------------
def _build_compare(cls_name, case):
    def build(w):
        H = cls_of(cls_name)()
        for k, v in case["obj"].items():
            H[k] += v
        for rel, P, wname, log, bounds in case["cons"]:
            add_constraint(H, rel, P, w[wname], log, bounds)
        return H
    return build


def _gen_compare(ctx, spin, salt):
    rng = ctx.rng(salt)
    labels = LABELS[:4]
    limit_anc = ctx.pick(4 if spin else 6, 9)

    def est(P, rel, log, bounds):
        B = _to_bool(P) if spin else P
        lo, hi = sum_enclosure(B)
        if bounds is not None:
            lo, hi = bounds
        return anc_estimate(rel, lo, hi, log)

    # every relation x log_trick on the special forms (and their spin images), each value
    for name, P in _special_polys():
        if any(len(set(k)) != len(k) for k in P):
            continue
        Q = to_spin(P) if spin else dict(P)
        rngP = true_range(Q, spin) if Q else (0, 0)
        for rel in RELS:
            for log in ((True,) if rel == "eq" else (True, False)):
                for bounds in ((None, rngP) if ctx.thorough or not spin else (None,)):
                    if est(Q, rel, log, bounds) > limit_anc:
                        continue
                    # objective that cancels penalty terms at c: -c' * (coefficients of P) for some value c'
                    c = rng.choice(VALUES)
                    obj = {k: -rng.choice(VALUES) * v for k, v in list(Q.items())[:2] if k}
                    yield {"obj": obj, "cons": [(rel, Q, "lam", log, bounds)], "values": {"lam": c},
                           "form": rng.choice(["dict", "pair"])}
    n = ctx.pick(200 if spin else 500, 8000)
    made = 0
    while made < n:
        cons = []
        names = ["lam"] if rng.random() < 0.6 else ["lam", "mu"]
        for _ in range(rng.randint(1, 2)):
            P = next(gen_models(rng, 1, labels, 3, INT_COEFS, max_terms=3, min_terms=1))
            rel, log = rng.choice(RELS), rng.random() < 0.5
            bounds = rng.choice([None, true_range(P, spin)]) if any(P) else None
            if est(P, rel, log, bounds) > limit_anc:
                continue
            cons.append((rel, P, rng.choice(names), log, bounds))
        if not cons:
            continue
        names = sorted({c[2] for c in cons})
        obj = next(gen_models(rng, 1, labels, 3, [-3, -1, -0.5, 1, 2], max_terms=4))
        for k in list(cons[0][1])[:2]:
            if k and rng.random() < 0.6:
                obj[k] = -rng.choice(VALUES) * abs(cons[0][1][k])
        made += 1
        case = {"obj": obj, "cons": cons, "values": {nm: rng.choice(VALUES) for nm in names},
                "form": rng.choice(["dict", "pair"])}
        if made % 3 == 0:
            case["simplify"] = True
        yield case


def _nontrivial_compare(case):
    """some constraint polynomial has a non-constant term (so a penalty with the symbolic weight is really added)"""
    return any(any(k for k in P) for _, P, _, _, _ in case["cons"])


@clause("C16.pcbo_comparison", "C16", gen=lambda ctx: _gen_compare(ctx, False, "c16.pcbo"),
        nontrivial=_nontrivial_compare)
def check_pcbo_compare(case):
    """PCBO with an objective and one or two comparison constraints (all six relations, log_trick both ways, bounds
    omitted or exact; special forms and random polynomials) whose weights are sympy Symbols (one or two different
    ones): model.subs({symbol: c}) (also the subs(symbol, c) calling form, and one symbol at a time) has the same
    coefficients (numerically), type and recorded constraints as the model built with the numbers c in {0.5, 1, 3};
    objectives are chosen so that some symbolic coefficients vanish at c. subs leaves its receiver unchanged."""
    return commute(case, _build_compare("PCBO", case), "PCBO")


@clause("C16.pcso_comparison", "C16", gen=lambda ctx: _gen_compare(ctx, True, "c16.pcso"),
        nontrivial=_nontrivial_compare)
def check_pcso_compare(case):
    """The same for PCSO: spin objective and spin comparison constraints (integer-valued, including the half-integer
    spin images of the boolean special forms) with symbolic weights; subs commutes with building."""
    return commute(case, _build_compare("PCSO", case), "PCSO")


# ---------------------------------------------------------------------------------------------
# the sixteen logic methods
# ---------------------------------------------------------------------------------------------
def _gen_logic(ctx):
    rng = ctx.rng("c16.logic")
    labels = LABELS[:4]
    for method in c06.METHODS:
        for k in c06.arities(method, ctx.pick(3, 4)):
            for c in VALUES:
                args = [("v", LABELS[j % 5]) for j in range(k)]
                yield {"obj": {}, "logic": [(method, args, "lam")], "values": {"lam": c}, "form": "dict"}
    n = ctx.pick(800, 12000)
    for _ in range(n):
        logic = []
        names = ["lam"] if rng.random() < 0.6 else ["lam", "mu"]
        for _ in range(rng.randint(1, 2)):
            method = rng.choice(c06.METHODS)
            k = rng.choice(c06.arities(method, 4))
            args = [c06.rand_spec(rng, labels, rng.choice([0, 0, 1, 2])) for _ in range(k)]
            logic.append((method, args, rng.choice(names)))
        names = sorted({l[2] for l in logic})
        obj = next(gen_models(rng, 1, labels, 3, [-3, -1, -0.5, 1, 2], max_terms=4))
        yield {"obj": obj, "logic": logic, "values": {nm: rng.choice(VALUES) for nm in names},
               "form": rng.choice(["dict", "pair"])}


@clause("C16.logic_methods", "C16", gen=_gen_logic, nontrivial=lambda c: bool(c["logic"]))
def check_logic(case):
    """Each of the sixteen add_constraint_G / add_constraint_eq_G methods (label operands of every admissible arity,
    then random label / sat-expression / dict operands, one or two constraints, objective present) with a sympy Symbol
    as lam: subs(symbol -> c) gives the same PCBO (coefficients, type, recorded constraints) as lam = c, c in
    {0.5, 1, 3}; subs leaves its receiver unchanged."""
    def build(w):
        H = cls_of("PCBO")()
        for k, v in case["obj"].items():
            H[k] += v
        for method, args, wname in case["logic"]:
            c06.call(H, method, args, w[wname])
        return H
    return commute(case, build, "PCBO")


# ---------------------------------------------------------------------------------------------
# degree reduction with a symbolic penalty
# ---------------------------------------------------------------------------------------------
REDUCE = [("to_qubo", None), ("to_quso", None), ("to_pubo", 2), ("to_pubo", 3), ("to_puso", 2), ("to_puso", 3)]


def _gen_reduce(ctx):
    rng = ctx.rng("c16.reduce")
    labels = LABELS[:5]
    fixed = [{(labels[0], labels[1], labels[2]): 1}, {(labels[0], labels[1], labels[2], labels[3]): -2, (): 1},
             {(labels[0], labels[1], labels[2]): 1, (labels[1], labels[2], labels[3]): -1, (labels[0],): 2},
             {(labels[0], labels[1], labels[2], labels[3]): 1, (labels[0], labels[1], labels[4]): 3,
              (labels[2], labels[3]): -1}]
    for t in ("PUBO", "PCBO", "PUSO", "PCSO"):
        for terms in fixed:
            for meth, deg in REDUCE:
                for c in VALUES:
                    yield {"type": t, "terms": terms, "cons": [], "method": meth, "deg": deg,
                           "values": {"lam": c}, "mu": 1, "form": "dict"}
    n = ctx.pick(500, 8000)
    made = 0
    while made < n:
        t = rng.choice(["PUBO", "PCBO", "PUSO", "PCSO"])
        terms = next(gen_models(rng, 1, labels, 4, [-2, -1, 1, 2, 0.5], max_terms=5, min_terms=1))
        if max(len(k) for k in terms) < 3:
            continue
        cons = []
        if t in ("PCBO", "PCSO") and rng.random() < 0.5:
            # README workflow: the model to reduce carries a constraint whose weight is another symbol (mu)
            P = next(gen_models(rng, 1, labels[:4], 2, [-1, 1, 2], max_terms=3, min_terms=1))
            rel, log = rng.choice(RELS), rng.random() < 0.5
            B = _to_bool(P) if t == "PCSO" else P
            if anc_estimate(rel, *sum_enclosure(B), log) <= 4:
                cons.append((rel, P, "mu", log, None))
        meth, deg = rng.choice(REDUCE)
        made += 1
        case = {"type": t, "terms": terms, "cons": cons, "method": meth, "deg": deg,
                "values": {"lam": rng.choice(VALUES)}, "mu": rng.choice(VALUES),
                "form": rng.choice(["dict", "pair"])}
        if cons and made % 2:
            case["penalty"] = "default"
        yield case
    # the README workflow literally: objective of degree 3 with mixed-sign parts, a constraint with the symbolic
    # weight whose square touches the high-degree term, default reduction penalty
    a, b, c3 = labels[0], labels[1], labels[2]
    for t in ("PCBO", "PCSO"):
        for meth, deg in REDUCE:
            for cval in list(VALUES) + [2, 4]:
                yield {"type": t, "terms": {(a, b, c3): -5, (a,): 1}, "cons": [("eq", {(a,): 1, (b, c3): 1, (): -1}, "lam", True, None)],
                       "method": meth, "deg": deg, "values": {"lam": cval}, "mu": 1, "form": "dict", "penalty": "default"}


def _nontrivial_reduce(case):
    """the model has a term of degree above the target degree, so the penalty really enters the result"""
    target = 2 if case["deg"] is None else case["deg"]
    return any(len(set(k)) > target for k, v in case["terms"].items() if v)


@clause("C16.reduced_forms", "C16", gen=_gen_reduce, nontrivial=_nontrivial_reduce)
def check_reduce(case):
    """PUBO, PCBO, PUSO and PCSO models M of degree 3-4 (PCBO/PCSO optionally carrying a comparison constraint whose
    weight is another Symbol mu, the same in both builds): to_qubo(lam), to_quso(lam), to_pubo(deg, lam) and
    to_puso(deg, lam) for deg in {2, 3} with a sympy Symbol as penalty lam, followed by subs(lam -> c), equal the
    reduced form of the same M obtained with lam = c (compared numerically after mu is substituted on both sides; same
    matrix type), c in {0.5, 1, 3}; subs leaves the symbolic reduced form unchanged. (Reducing a model whose *terms*
    differ, e.g. because a coefficient vanished at c, may legitimately pick other pairs and is not compared.)
    Non-trivial: some term exceeds the target degree."""
    mu = sym("mu")

    def build(w):
        H = cls_of(case["type"])()
        for k, v in case["terms"].items():
            H[k] += v
        default = case.get("penalty") == "default"
        for rel, P, wname, log, bounds in case["cons"]:
            add_constraint(H, rel, P, w["lam"] if default else mu, log, bounds)
        f = getattr(H, case["method"])
        if default:
            # the symbol sits in the constraint weight; the reduction uses the library's default penalty
            return f() if case["deg"] is None else f(deg=case["deg"])
        if case["deg"] is None:
            return f(lam=w["lam"])
        return f(deg=case["deg"], lam=w["lam"])
    if case.get("penalty") == "default":
        # with the symbol in the model's own coefficients a term may vanish at c; the two builds then reduce
        # different models (other pairs may be chosen): not compared, as stated above
        def pre(w):
            H = cls_of(case["type"])()
            for k, v in case["terms"].items():
                H[k] += v
            for rel, P, wname, log, bounds in case["cons"]:
                add_constraint(H, rel, P, w["lam"], log, bounds)
            return H
        with warnings.catch_warnings():
            warnings.simplefilter("ignore")
            Hs, Hn = pre(weights(case, True)), pre(weights(case, False))
        if set(dict(do_subs(Hs, case))) != set(dict(Hs)) or set(dict(Hs)) != set(dict(Hn)):
            return Skip("a coefficient of the model vanishes at the substituted value")
    post = (lambda M: M.subs({mu: case["mu"]})) if case["cons"] and case.get("penalty") != "default" else None
    return commute(case, build, "%s.%s" % (case["type"], case["method"]), post)


# ---------------------------------------------------------------------------------------------
# models whose own coefficients are symbolic, and arithmetic on them
# ---------------------------------------------------------------------------------------------
OPS = ("none", "add", "sub", "rsub", "neg", "scale", "scale_sym", "div", "mul", "pow2", "iadd", "imul_sym")


def _gen_arith(ctx):
    rng = ctx.rng("c16.arith")
    n = ctx.pick(120, 1500)
    coefs = [(-1, 1), (0, 1), (0, -2), (1, 0), (-2, 0), (0.5, 0.5), (-3, 1), (2, -4), (0, 0.5), (-0.5, 1)]

    def model(t, deg, nterms):
        labels = labels_for(t, 4)
        base = next(gen_models(rng, 1, labels, deg, [1], max_terms=nterms, min_terms=1))
        return {k: rng.choice(coefs) for k in base}

    for t in MODEL_TYPES:
        maxdeg = 2 if t in DEG2_TYPES else 3
        for op in OPS:
            for _ in range(max(1, n // len(OPS))):
                if op in ("mul", "pow2"):
                    d = 1 if t in DEG2_TYPES else 2
                    A, B = model(t, d, 3), model(t, 1, 2)
                else:
                    A, B = model(t, maxdeg, 4), model(t, maxdeg, 3)
                yield {"type": t, "A": A, "B": B, "op": op, "values": {"lam": rng.choice(VALUES)},
                       "form": rng.choice(["dict", "pair"])}


def _nontrivial_arith(case):
    """a coefficient of the first operand involves the symbol"""
    return any(w for u, w in case["A"].values())


@clause("C16.symbolic_models", "C16", gen=_gen_arith, nontrivial=_nontrivial_arith)
def check_arith(case):
    """Models of all ten types whose coefficients are u + w*lam (lam a sympy Symbol; pairs chosen so that several
    vanish at the substituted value), combined by +, -, unary -, scalar and symbolic scaling, division, product and
    square (within the type's degree): result.subs(lam -> c) equals the result computed from the numeric models, same
    type; c in {0.5, 1, 3}; subs leaves its receiver unchanged. Non-trivial: the first operand has a symbolic
    coefficient."""
    cls = cls_of(case["type"])
    op = case["op"]

    def build(w):
        lam = w["lam"]
        A = cls({k: u + x * lam for k, (u, x) in case["A"].items()})
        B = cls({k: u + x * lam for k, (u, x) in case["B"].items()})
        if op == "none":
            return A
        if op == "add":
            return A + B
        if op == "sub":
            return A - B
        if op == "rsub":
            return 2 - A
        if op == "neg":
            return -A
        if op == "scale":
            return 3 * A
        if op == "scale_sym":
            return A * lam + B
        if op == "div":
            return A / 2
        if op == "mul":
            return A * B
        if op == "pow2":
            return A ** 2
        if op == "iadd":
            A += B
            A += lam
            return A
        if op == "imul_sym":
            A *= lam
            return A
        raise AssertionError(op)
    return commute(case, build, case["type"])
