"""C14 bounded stand-in: model bookkeeping stays consistent under every history of edits.

A case is {"type": T, "ops": [op, ...]}; an op is a literal tuple:
  ("set", key, v)  ("iadd_k", key, v)  ("isub_k", key, v)  ("imul_k", key, v)          M[key] (op)= v
  ("iadd", opd)  ("isub", opd)  ("imul", opd)  ("idiv", c)  ("ifloordiv", c)  ("ipow", n)  M (op)= operand
  ("update", opd)  ("clear",)  ("refresh",)  ("copy",) -> M = M.copy()   ("ctor",) -> M = T(M)
  ("con", name, args, kwargs)                                                        M.add_constraint_<name>(...)
with opd = ("num", c) | ("dict", terms) | ("model", typename, terms).
The true variables / degree are always recomputed from dict(model); nothing of the library's bookkeeping is trusted.
"""
from .common import (clause, Fail, Skip, LABELS, INT_LABELS, COEFS, INT_COEFS, MODEL_TYPES, BOOL_TYPES, SPIN_TYPES,
                     MATRIX_TYPES, canonical_keys, raw_keys, variables_of, assignments, peval, b2s, s2b, close, qv,
                     cls_of)

LABELLED = ["QUBO", "PUBO", "PCBO", "QUSO", "PUSO", "PCSO"]          # boolean types first (see conversion clauses)
NEG_INF = -float("inf")
LAM = 1000                                                            # penalty weight that makes reductions exact
RESERVED = {True: [6, 7, 8, 9, 10, 11], False: ['m0', 'm1', 'm2', 'm3', 'm4', 'm5']}     # [is matrix type]


# ---------------------------------------------------------------------------------------------
# keys and operands
# ---------------------------------------------------------------------------------------------
def _kind(t):
    if t in ("QUBO", "QUBOMatrix"):
        return "qubo"
    if t in ("QUSO", "QUSOMatrix"):
        return "quso"
    return "puso" if t in SPIN_TYPES else "pubo"


def _odd(key):
    return [l for l in dict.fromkeys(key) if key.count(l) % 2]


def _valid_key(kind, key):
    if kind == "qubo":
        return len(set(key)) <= 2
    if kind == "quso":
        return len(_odd(key)) <= 2
    return True


def _survives(key):
    """no label of the raw key is squashed away under z*z = 1"""
    return all(key.count(l) % 2 for l in set(key))


_POOLS = {}


def _pool(t, nlab, squash):
    k = (t, nlab, squash)
    if k not in _POOLS:
        labels = (INT_LABELS if t in MATRIX_TYPES else LABELS)[:nlab]
        ks = [x for x in raw_keys(labels, 3) if _valid_key(_kind(t), x)]
        if t in SPIN_TYPES and not squash:
            ks = [x for x in ks if _survives(x)]
        _POOLS[k] = ks
    return _POOLS[k]


def _operand(opd):
    if opd[0] == "num":
        return opd[1]
    if opd[0] == "dict":
        return dict(opd[1])
    return cls_of(opd[1])(opd[2])


def _apply(M, op, t):
    k = op[0]
    if k == "set":
        M[op[1]] = op[2]
    elif k == "iadd_k":
        M[op[1]] += op[2]
    elif k == "isub_k":
        M[op[1]] -= op[2]
    elif k == "imul_k":
        M[op[1]] *= op[2]
    elif k == "iadd":
        M += _operand(op[1])
    elif k == "isub":
        M -= _operand(op[1])
    elif k == "imul":
        M *= _operand(op[1])
    elif k == "idiv":
        M /= op[1]
    elif k == "ifloordiv":
        M //= op[1]
    elif k == "ipow":
        M **= op[1]
    elif k == "update":
        M.update(_operand(op[1]))
    elif k == "clear":
        M.clear()
    elif k == "refresh":
        M.refresh()
    elif k == "copy":
        M = M.copy()
    elif k == "ctor":
        M = cls_of(t)(M)
    elif k == "round":
        M = round(M, op[1])
    elif k == "subs":
        M = M.subs({})
    elif k == "neg":
        M = -M
    elif k == "set_mapping":
        # a user enumeration of the current variables (a permutation of 0..n-1), through either setter
        labs = list(M.mapping)
        n = len(labs)
        perm = {l: (i + op[1]) % n if n else 0 for i, l in enumerate(labs)}
        if op[2]:
            M.set_reverse_mapping({v: l for l, v in perm.items()})
        else:
            M.set_mapping(perm)
    elif k == "con":
        args = [_operand(a) if isinstance(a, tuple) and a and a[0] in ("dict", "model") else a for a in op[2]]
        r = getattr(M, "add_constraint_" + op[1])(*args, **op[3])
        M = r if r is not None else M
    else:
        raise ValueError("unknown op %r" % (op,))
    return M


# ---------------------------------------------------------------------------------------------
# history generator
# ---------------------------------------------------------------------------------------------
def _gen_ops(rng, t, nops, zero=False, squash=False, products=True, con=0.0, high=0.0):
    """Random history for type t.
    zero=False   : no op can assign a zero value to a key whose labels the model has not seen (values are non-zero,
                   M[k] *= v is not used).
    squash=False : for spin types no op can squash a label away (raw keys have odd multiplicities only; products use
                   operands over reserved labels that occur nowhere else; no **=).
    products     : allow `*= dict/model` and `**=` at all.
    con          : probability of a constraint op (PCBO / PCSO only).
    high         : probability that an item edit uses a key with >= 3 distinct labels (higher-degree types)."""
    spin = t in SPIN_TYPES
    mat = t in MATRIX_TYPES
    kind = _kind(t)
    deg2 = kind in ("qubo", "quso")
    nlab = rng.choice([2, 3, 3, 4] if mat else [2, 3, 3, 4, 5])
    if high:
        nlab = rng.choice([3, 4, 4] if mat else [3, 4, 4, 5])
    pool = _pool(t, nlab, squash)
    hpool = [k for k in pool if len(set(k)) >= 3]
    labels = (INT_LABELS if mat else LABELS)[:nlab]
    ckeys = canonical_keys(labels, 2)
    family = [x for x in (SPIN_TYPES if spin else BOOL_TYPES) if (x in MATRIX_TYPES) == mat]
    maxdeg = 2 if deg2 else 4
    st = {"degb": 0, "tb": 0, "res": 0}

    def val():
        return 0 if (zero and rng.random() < 0.3) else rng.choice(COEFS)

    def nzval():
        return rng.choice(COEFS)

    def terms(keys, nmax=3):
        return {k: val() for k in rng.sample(keys, min(len(keys), rng.randint(1, nmax)))}

    def opd(allow_num=True, keys=None):
        r = rng.random()
        if allow_num and r < 0.25:
            return ("num", val() if zero else nzval())
        if r < 0.65:
            return ("dict", terms(keys or pool))
        return ("model", rng.choice(family), terms(ckeys))

    def dmax(ts):
        return max([len(set(k)) for k in ts] or [0])

    names = ["set", "iadd_k", "isub_k", "cancel", "iadd", "isub", "imul_num", "imul", "idiv", "ifloordiv", "ipow",
             "update", "clear", "copy", "ctor", "refresh"]
    weights = [3, 3, 2, 2, 2, 1.5, 1, 1.2 if products else 0, 0.5, 0.4, 0.4 if products else 0,
               1.2, 0.5, 0.7, 0.5, 1]
    if zero:
        names.append("imul_k")
        weights.append(1.5)
    ops = []
    while len(ops) < nops:
        if con and rng.random() < con:
            ops.append(_gen_con(rng, t, labels))
            st["degb"] = max(st["degb"], 2)
            st["tb"] += 12
            continue
        n = rng.choices(names, weights)[0]
        if n in ("set", "iadd_k", "isub_k", "imul_k"):
            k = rng.choice(hpool if hpool and rng.random() < high else pool)
            v = val() if n != "imul_k" else rng.choice([2, -1, 0.5, 0])
            ops.append((n, k, v))
            st["degb"] = max(st["degb"], len(set(k)))
            st["tb"] += 1
        elif n == "cancel":
            k, v = rng.choice(hpool if hpool and rng.random() < high else pool), nzval()
            ops.append(("iadd_k", k, v))
            # the cancelling edit may use a differently written but equivalent key
            k2 = tuple(reversed(k)) if rng.random() < 0.5 else k
            ops.append(("isub_k", k2, v))
            st["degb"] = max(st["degb"], len(set(k)))
            st["tb"] += 1
        elif n in ("iadd", "isub", "update"):
            o = opd(allow_num=(n != "update"))
            ops.append((n, o))
            if o[0] != "num":
                st["degb"] = max(st["degb"], dmax(o[-1]))
                st["tb"] += len(o[-1])
        elif n == "imul_num":
            ops.append(("imul", ("num", rng.choice([2, -1, 0.5, 3, 0]))))
        elif n == "imul":
            if spin and not squash:
                if st["res"] >= len(RESERVED[mat]):
                    continue
                lab = RESERVED[mat][st["res"]]
                st["res"] += 1
                ts = {(lab,): nzval()}
                if rng.random() < 0.6:
                    ts[()] = nzval()
                o = ("dict", ts) if rng.random() < 0.6 else ("model", rng.choice(family), ts)
            else:
                o = opd(allow_num=False, keys=[k for k in pool if len(k) <= 2])
            d = dmax(o[-1])
            if st["degb"] + d > maxdeg or st["tb"] * len(o[-1]) > 40:
                continue
            ops.append(("imul", o))
            st["degb"] += d
            st["tb"] = max(1, st["tb"]) * len(o[-1])
        elif n == "ipow":
            if (spin and not squash) or st["degb"] * 2 > maxdeg or st["tb"] ** 2 > 40:
                continue
            ops.append(("ipow", 2))
            st["degb"] *= 2
            st["tb"] = st["tb"] ** 2
        elif n == "idiv":
            ops.append(("idiv", rng.choice([2, -2, 4])))
        elif n == "ifloordiv":
            ops.append(("ifloordiv", rng.choice([2, 3, -2])))
        elif n == "clear":
            ops.append(("clear",))
            st["degb"] = st["tb"] = 0
        else:
            ops.append((n,))
    return ops


CON_CMP = ["eq_zero", "ne_zero", "lt_zero", "le_zero", "gt_zero", "ge_zero"]
CON_LOGIC = [("eq_AND", 3), ("eq_OR", 3), ("eq_XOR", 3), ("eq_NAND", 3), ("eq_NOR", 3), ("eq_XNOR", 3), ("eq_NOT", 2),
             ("eq_BUFFER", 2), ("AND", 2), ("OR", 2), ("XOR", 2), ("NAND", 2), ("NOR", 2), ("XNOR", 2), ("NOT", 1),
             ("BUFFER", 1), ("eq_AND", 4), ("eq_OR", 4), ("OR", 3), ("XOR", 3)]


def _gen_con(rng, t, labels):
    spin = t in SPIN_TYPES
    if not spin and rng.random() < 0.3:
        name, n = rng.choice(CON_LOGIC)
        args = [rng.choice(labels) for _ in range(n)]
        return ("con", name, args, {"lam": rng.choice([1, 2, 0])})
    name = rng.choice(CON_CMP)
    keys = [k for k in canonical_keys(labels, 2)]
    ts = {k: rng.choice(INT_COEFS) for k in rng.sample(keys, min(len(keys), rng.randint(1, 3)))}
    if rng.random() < 0.5:
        ts[()] = rng.choice([-4, -3, -2, -1, 1, 2])
    r = rng.random()
    arg = ("dict", ts) if r < 0.6 else ("model", rng.choice(["PUSO", "PCSO"] if spin else ["PUBO", "PCBO"]), ts)
    kw = {"lam": rng.choice([1, 1, 2, 0])}
    if name != "eq_zero":
        kw["log_trick"] = rng.random() < 0.5
    return ("con", name, [arg], kw)


# ---------------------------------------------------------------------------------------------
# oracles
# ---------------------------------------------------------------------------------------------
def _true(M):
    d = dict(M)
    vs = set()
    for k in d:
        vs.update(k)
    return d, vs, max([len(k) for k in d], default=None)


def _where(i, op, M):
    r = repr(dict(M))
    return "after step %d %r: terms %s" % (i, op, r if len(r) < 500 else r[:500] + "...")


def _bounds(M, t, where):
    d, vs, deg = _true(M)
    rv = M.variables
    if not vs <= rv:
        return Fail("variables %r lacks %r (%s)" % (rv, vs - rv, where), key="variables-not-upper-bound")
    if deg is not None and not M.degree >= deg:
        return Fail("degree %r < true degree %r (%s)" % (M.degree, deg, where), key="degree-not-upper-bound")
    if not M.num_binary_variables >= len(vs):
        return Fail("num_binary_variables %r < %d true variables (%s)" % (M.num_binary_variables, len(vs), where),
                    key="num_binary_variables-not-upper-bound")
    if t in MATRIX_TYPES and vs:
        mi = M.max_index
        if mi is None or mi < max(vs):
            return Fail("max_index %r < largest label %r (%s)" % (mi, max(vs), where), key="max_index-not-upper-bound")
    return None


def _touched(op, before):
    """raw keys handed to __setitem__ by the op (None if unknown)"""
    k = op[0]
    if k in ("set", "iadd_k", "isub_k", "imul_k"):
        return [op[1]]
    if k in ("iadd", "isub", "update"):
        return [()] if op[1][0] == "num" else list(_operand(op[1]))
    if k == "imul":
        if op[1][0] == "num":
            return list(before)
        return [a + b for a in before for b in _operand(op[1])]
    if k == "ipow":
        return [a + b for a in before for b in before]
    if k in ("idiv", "ifloordiv"):
        return list(before)
    return None


def _why_extra(extra, op, before, spin):
    ts = _touched(op, before)
    if ts is None:
        return "by-" + op[0]
    e = sorted(extra, key=repr)[0]
    ks = [k for k in ts if e in k]
    if spin and any(k.count(e) % 2 == 0 for k in ks):
        return "squashed-label"
    if ks:
        return "zero-value-assignment"
    return "unexplained"


def _bijection(M, where, exact_vars=None, why=None):
    mp, rmp, rv, n = M.mapping, M.reverse_mapping, M.variables, M.num_binary_variables
    if exact_vars is not None and rv != exact_vars:
        return Fail("variables %r != true variables %r (%s)" % (rv, exact_vars, where), key="refresh-variables-inexact")
    missing = rv - set(mp)
    if missing:
        return Fail("reported variables %r missing from mapping %r (%s)" % (missing, mp, where),
                    key="variable-not-in-mapping")
    extra = set(mp) - rv
    if extra:
        return Fail("mapping %r has labels %r that are not reported variables %r (%s)" % (mp, extra, rv, where),
                    key="mapping-has-label-not-in-variables:%s" % (why(extra) if why else "after-refresh"))
    if sorted(mp.values()) != list(range(n)):
        return Fail("mapping values %r are not 0..%d (%s)" % (sorted(mp.values()), n - 1, where),
                    key="mapping-values-not-0..n-1")
    if len(rmp) != len(mp) or rmp != {v: k for k, v in mp.items()}:
        return Fail("reverse_mapping %r is not the inverse of mapping %r (%s)" % (rmp, mp, where),
                    key="reverse-mapping-not-inverse")
    return None


def _refresh_exact(M, t, where):
    before = dict(M)
    M.refresh()
    d, vs, deg = _true(M)
    if d != before:
        return Fail("refresh changed the terms: %r -> %r (%s)" % (before, d, where), key="refresh-changed-terms")
    if M.variables != vs:
        return Fail("after refresh variables %r != true %r (%s)" % (M.variables, vs, where),
                    key="refresh-variables-inexact")
    if M.num_binary_variables != len(vs):
        return Fail("after refresh num_binary_variables %r != %d (%s)" % (M.num_binary_variables, len(vs), where),
                    key="refresh-num_binary_variables-inexact")
    if not (M.degree == deg if deg is not None else M.degree in (0, NEG_INF)):
        return Fail("after refresh degree %r != true %r (%s)" % (M.degree, deg, where), key="refresh-degree-inexact")
    if t in MATRIX_TYPES:
        want = max(vs) if vs else None
        if M.max_index != want:
            return Fail("after refresh max_index %r != %r (%s)" % (M.max_index, want, where),
                        key="refresh-max_index-inexact")
        return None
    if M.max_index != len(vs) - 1:
        return Fail("after refresh max_index %r != %d (%s)" % (M.max_index, len(vs) - 1, where),
                    key="refresh-max_index-inexact")
    return _bijection(M, "after refresh, " + where, exact_vars=vs)


def _run(case, per_step):
    """Replay the history; per_step(M, i, op, before_terms) -> Fail/None is called after every step (i = -1 for the
    empty model). Returns (M, fail)."""
    t = case["type"]
    M = cls_of(t)()
    f = per_step(M, -1, ("new",), {})
    if f:
        return M, f
    for i, op in enumerate(case["ops"]):
        before = dict(M)
        M = _apply(M, op, t)
        f = per_step(M, i, op, before)
        if f:
            return M, f
    return M, None


def _has_edit(case):
    for op in case["ops"]:
        if op[0] in ("set", "iadd_k") and op[1] and op[2]:
            return True
        if op[0] in ("iadd", "isub", "update") and op[1][0] != "num" and any(k and v for k, v in op[1][-1].items()):
            return True
        if op[0] == "con" and op[3].get("lam"):
            return True
    return False


# ---------------------------------------------------------------------------------------------
# explicit small histories (every type), used by several clauses
# ---------------------------------------------------------------------------------------------
def _explicit(t, zero, squash):
    mat = t in MATRIX_TYPES
    a, b, c = (0, 1, 2) if mat else ('a', 'b', 0)
    out = [
        [("iadd_k", (a,), 1), ("isub_k", (a,), 1)],
        [("iadd_k", (a,), 1), ("iadd_k", (b, a), 2), ("isub_k", (a,), 1), ("refresh",)],
        [("set", (b, a), 2), ("set", (a, b), -2), ("set", (a, b, b), 0), ("copy",)],
        [("iadd", ("dict", {(a,): 1, (b,): 2})), ("isub", ("dict", {(b,): 2})), ("ctor",), ("iadd", ("num", 3))],
        [("set", (a, b), 1), ("imul", ("num", 0)), ("set", (b,), 1)],
        [("set", (a,), 1), ("clear",), ("set", (b,), 1)],
        [("update", ("dict", {(b, a): 1, (a,): 2})), ("update", ("dict", {(a, b): 0}))],
        [("set", (a,), 2), ("idiv", 2), ("ifloordiv", 2)],
        [("set", (a,), 1), ("iadd", ("num", 1)), ("imul", ("dict", {(b,): 1, (): 1}))],
    ]
    if zero:
        out += [
            [("set", (a,), 0), ("set", (b,), 1)],
            [("set", (b,), 1), ("set", (a,), 0)],
            [("iadd_k", (a,), 0)],
            [("imul_k", (a, b), 2), ("set", (b,), 1)],
            [("set", (b,), 1), ("iadd", ("dict", {(a,): 0}))],
            [("set", (b,), 1), ("update", ("dict", {(a, b): 0}))],
        ]
    if squash and t in SPIN_TYPES:
        out += [
            [("set", (a, a, b), 1)],
            [("set", (b,), 1), ("iadd_k", (a, b, a), 1)],
            [("set", (a,), 1), ("imul", ("dict", {(a,): 1, (b,): 1}))],
            [("set", (a,), 1), ("iadd", ("num", 1)), ("ipow", 2)],
        ]
    if _kind(t) in ("pubo", "puso"):
        out += [[("set", (a, b, c), 1), ("isub_k", (c, b, a), 1), ("set", (a,), 1)],
                [("set", (a, b), 1), ("iadd", ("num", 1)), ("ipow", 2)] if (squash or t in BOOL_TYPES) else
                [("set", (a, b), 1)]]
    return out


def _histories(ctx, salt, types, n_quick, n_thorough, zero=False, squash=False, products=True, con=0.0, maxops=7,
               high=0.0):
    for t in types:
        if not con:
            for ops in _explicit(t, zero, squash):
                yield {"type": t, "ops": ops}
    rng = ctx.rng(salt)
    n = ctx.pick(n_quick, n_thorough)
    hi = ctx.pick(maxops, maxops + 3)
    for t in types:
        for _ in range(n):
            yield {"type": t, "ops": _gen_ops(rng, t, rng.randint(1, hi), zero, squash, products, con, high)}


# ---------------------------------------------------------------------------------------------
# 1. upper bounds
# ---------------------------------------------------------------------------------------------
def _gen_bounds(ctx):
    yield from _histories(ctx, "c14.b0", MODEL_TYPES, 1200, 20000)
    yield from _histories(ctx, "c14.b1", MODEL_TYPES, 1200, 20000, zero=True, squash=True)


@clause("C14.upper_bounds", "C14", gen=_gen_bounds, nontrivial=_has_edit)
def check_bounds(case):
    """After every step of a history of documented edits (item and augmented assignment incl. zero values, repeated
    labels and cancellations, += -= *= /= //= **= with numbers / dicts / models, update, clear, refresh, copy(), copy
    constructor) on each of the ten model types: variables is a superset of the labels occurring in dict(model),
    degree >= the longest stored key, num_binary_variables >= the number of such labels, and for Matrix types
    max_index >= the largest such label. Non-trivial: the history enters a non-constant non-zero term."""
    t = case["type"]
    return _run(case, lambda M, i, op, before: _bounds(M, t, _where(i, op, M)))[1]


# ---------------------------------------------------------------------------------------------
# 2. mapping / reverse_mapping bijection (labelled types)
# ---------------------------------------------------------------------------------------------
def _check_bij(case):
    t = case["type"]
    spin = t in SPIN_TYPES
    return _run(case, lambda M, i, op, before: _bijection(
        M, _where(i, op, M), why=lambda extra: _why_extra(extra, op, before, spin)))[1]


@clause("C14.mapping_bijection", "C14", gen=lambda ctx: _histories(ctx, "c14.m", LABELLED, 3000, 50000),
        nontrivial=_has_edit)
def check_bijection(case):
    """Labelled types; histories in which no edit assigns zero to a key with unseen labels and (spin types) no label is
    squashed away by z*z = 1 (cancellations by later edits, repeated labels, products, clear, copies all occur).
    After every step: mapping's keys are exactly the reported variables, its values exactly
    0..num_binary_variables-1, and reverse_mapping is its inverse. Non-trivial: a non-constant term is entered."""
    return _check_bij(case)


@clause("C14.mapping_bijection_zero_values", "C14",
        gen=lambda ctx: _histories(ctx, "c14.mz", LABELLED, 1000, 20000, zero=True), nontrivial=_has_edit)
def check_bijection_zero(case):
    """Same contract as C14.mapping_bijection; histories additionally assign zero values (M[k] = 0, M[k] += 0,
    M[k] *= v on an absent key, operands / update dicts with zero entries). Failure keys name the cause."""
    return _check_bij(case)


@clause("C14.mapping_bijection_squashed_labels", "C14",
        gen=lambda ctx: _histories(ctx, "c14.ms", [t for t in LABELLED if t in SPIN_TYPES], 1000, 20000, squash=True),
        nontrivial=_has_edit)
def check_bijection_squash(case):
    """Same contract as C14.mapping_bijection for the spin types; histories additionally use raw keys and products in
    which a label occurs an even number of times (z*z = 1 removes it from the stored key)."""
    return _check_bij(case)


# ---------------------------------------------------------------------------------------------
# 3. refresh
# ---------------------------------------------------------------------------------------------
def _gen_refresh(ctx):
    yield from _histories(ctx, "c14.r0", MODEL_TYPES, 350, 7000, maxops=6)
    yield from _histories(ctx, "c14.r1", MODEL_TYPES, 350, 7000, zero=True, squash=True, maxops=6)
    yield from _histories(ctx, "c14.r2", ["PCBO", "PCSO"], 150, 3000, con=0.35, maxops=5)


@clause("C14.refresh_exact", "C14", gen=_gen_refresh, nontrivial=_has_edit)
def check_refresh(case):
    """For every prefix of a history (all ten types; zero values, squashed labels, products, constraints included):
    refresh() leaves dict(model) unchanged and afterwards variables, num_binary_variables, degree (0 or -inf for the
    empty model) and max_index are exactly those of dict(model), and for labelled types mapping / reverse_mapping are
    inverse bijections between exactly these variables and 0..n-1. Non-trivial: a non-constant term is entered."""
    t = case["type"]
    ops = case["ops"]
    for n in range(len(ops) + 1):
        M = cls_of(t)()
        for op in ops[:n]:
            M = _apply(M, op, t)
        f = _refresh_exact(M, t, "prefix of %d steps, terms %r" % (n, dict(M)))
        if f:
            return f
    return None


# ---------------------------------------------------------------------------------------------
# 4. labels of enumerated and reduced forms
# ---------------------------------------------------------------------------------------------
def _conversions(t):
    if _kind(t) in ("qubo", "quso"):
        return [("to_qubo", {}, False, None), ("to_quso", {}, True, None), ("to_pubo", {}, False, None),
                ("to_puso", {}, True, None)]
    return [("to_pubo", {}, False, None), ("to_puso", {}, True, None),
            ("to_qubo", {"lam": LAM}, False, 2), ("to_quso", {"lam": LAM}, True, 2),
            ("to_pubo", {"deg": 2, "lam": LAM}, False, 2), ("to_puso", {"deg": 2, "lam": LAM}, True, 2)]


def _represents(Md, mspin, Rd, rspin, mapping, live):
    """Does min over the non-model labels of R equal M at every assignment? None when too large to decide."""
    img = {mapping[l] for l in live}
    anc = sorted(set(variables_of(Rd)) - img)
    if len(live) + len(anc) > 12:
        return None
    for x in assignments(live, mspin):
        xc = x if mspin == rspin else (s2b(x) if mspin else b2s(x))
        y = {mapping[l]: v for l, v in xc.items()}
        best = None
        for a in assignments(anc, rspin):
            y.update(a)
            v = peval(Rd, y)
            best = v if best is None or v < best else best
        if not close(best, peval(Md, x)):
            return False
    return True


def _conv_labels(M, t, where, cause):
    Md, live, deg = _true(M)
    live = sorted(live, key=repr)
    mspin = t in SPIN_TYPES
    mapping = M.mapping
    nbv = M.num_binary_variables
    if any(l not in mapping for l in live):
        return Fail("model labels missing from mapping %r (%s)" % (mapping, where), key="label-missing-in-mapping")
    mapped = set(mapping.values())
    img = {mapping[l] for l in live}
    top = max(mapped, default=-1)
    for name, kw, rspin, target in _conversions(t):
        R = getattr(M, name)(**kw)
        Rd = dict(R)
        L = set(variables_of(Rd))
        call = "%s(%s)" % (name, ", ".join("%s=%r" % kv for kv in kw.items()))
        info = "%s -> %r; mapping %r, num_binary_variables %r (%s)" % (call, Rd, mapping, nbv, where)
        if any(not isinstance(l, int) or isinstance(l, bool) or l < 0 for l in L):
            return Fail("non-integer label in " + info, key="conversion-label-not-integer")
        low = [l for l in L - mapped if l <= top]
        if low:
            return Fail("label %r is neither in the mapping nor larger than all mapping labels: %s" % (low, info),
                        key="ancilla-label-not-larger-than-mapping-labels")
        why = cause(M)
        reducing = target is not None and deg is not None and deg > target
        if L & (mapped - img):
            return Fail("label(s) %r belong to the mapping but to no model variable, yet occur in %s"
                        % (sorted(L & (mapped - img)), info), key="ancilla-collides-with-mapping-label:" + why)
        if not reducing and L - mapped:
            return Fail("labels %r outside the mapping although no reduction is required: %s" % (sorted(L - mapped), info),
                        key="enumeration-label-not-in-mapping")
        if reducing and not (L - mapped):
            return Fail("degree %d > %d needs an ancilla but every label is a mapping label: %s" % (deg, target, info),
                        key="ancilla-collides-with-mapping-label:" + why)
        ok = _represents(Md, mspin, Rd, rspin, mapping, live)
        if ok is False:
            # is the reduction itself at fault (not a bookkeeping matter)? ask a freshly built equal model
            M2 = cls_of(t)(Md)
            R2 = dict(getattr(M2, name)(**kw))
            if _represents(Md, mspin, R2, rspin, M2.mapping, live) is False:
                return Skip("conversion wrong even for a freshly built model: not a bookkeeping matter")
            return Fail("result does not represent the model (ancilla label reused for a model variable?): %s" % info,
                        key="ancilla-collides-with-mapping-label:" + why)
    return None


def _cause_tracker(spin):
    """classifies, along a history, why the mapping got ahead of the reported variables"""
    state = {"why": None}

    def per_step(M, i, op, before):
        if state["why"] is None:
            extra = set(M.mapping) - M.variables
            if extra:
                state["why"] = _why_extra(extra, op, before, spin)
        elif not (set(M.mapping) - M.variables):
            state["why"] = None
        return None

    def cause(M):
        if set(M.mapping) - M.variables:
            return "mapping-has-label-not-in-variables:%s" % (state["why"] or "unexplained")
        if spin:
            return "spin-model-temporary-pubo-has-fewer-variables"
        return "unexplained"
    return per_step, cause


def _check_conv(case, every_step):
    t = case["type"]
    spin = t in SPIN_TYPES
    track, cause = _cause_tracker(spin)
    result = []
    last = [None]

    def per_step(M, i, op, before):
        track(M, i, op, before)
        state = (dict(M), M.mapping, M.num_binary_variables)
        if not every_step or not state[0] or state == last[0]:
            return None
        last[0] = state
        r = _conv_labels(M, t, _where(i, op, M), cause)
        if isinstance(r, Skip):
            result.append(r)
            return None
        return r
    M, f = _run(case, per_step)
    if f:
        return f
    if case.get("refresh_last"):
        M.refresh()
    r = _conv_labels(M, t, "at the end%s: terms %r" % (" (refreshed)" if case.get("refresh_last") else "", dict(M)),
                     cause)
    if r is None and result:
        return result[0]
    return r


def _needs_reduction(case):
    return _has_edit(case) and any(len(set(op[1])) > 2 for op in case["ops"] if op[0] in ("set", "iadd_k")) or any(
        op[0] in ("imul", "ipow") for op in case["ops"])


def _gen_conv_refreshed(ctx):
    for c in _histories(ctx, "c14.c0", LABELLED, 150, 3000, maxops=5, high=0.5):
        c["refresh_last"] = True
        yield c
    for c in _histories(ctx, "c14.c1", LABELLED, 150, 3000, zero=True, squash=True, maxops=5, high=0.5):
        c["refresh_last"] = True
        yield c


@clause("C14.conversion_labels_refreshed", "C14", gen=_gen_conv_refreshed, nontrivial=_needs_reduction)
def check_conv_refreshed(case):
    """Labelled types, any history followed by refresh(): to_pubo(), to_puso(), to_qubo(lam), to_quso(lam),
    to_pubo(deg=2, lam), to_puso(deg=2, lam) (for QUBO/QUSO the four argument-free forms) use non-negative integer
    labels; labels of M.mapping only for M's variables; no label outside the mapping unless a reduction is required,
    and then only labels larger than every mapping label; no mapping label that belongs to no variable; and with
    lam = 1000 the minimum of the result over the non-mapping labels equals M at every assignment (an ancilla that
    shares a label with a model variable breaks this). If a freshly built equal model fails the last test too the
    case is skipped (reduction correctness is another property). Non-trivial: a key of degree > 2 or a product."""
    return _check_conv(case, False)


def _gen_conv_unrefreshed(ctx):
    yield from _histories(ctx, "c14.c2", LABELLED, 160, 3200, maxops=5, high=0.5)


@clause("C14.conversion_labels_unrefreshed", "C14", gen=_gen_conv_unrefreshed, nontrivial=_needs_reduction)
def check_conv_unrefreshed(case):
    """Same label contract as C14.conversion_labels_refreshed, evaluated after every step of a history WITHOUT
    refresh, for histories that never assign zero to unseen labels nor squash labels away (cancellations do occur).
    Boolean types are generated before spin types. Failure keys name the cause."""
    return _check_conv(case, True)


def _gen_conv_unused(ctx):
    yield from _histories(ctx, "c14.c3", LABELLED, 160, 3200, zero=True, squash=True, maxops=5, high=0.5)


@clause("C14.conversion_labels_unused_mapping_labels", "C14", gen=_gen_conv_unused, nontrivial=_needs_reduction)
def check_conv_unused(case):
    """Same label contract, after every step and without refresh, for histories that do assign zero values to unseen
    labels and (spin) squash labels away. Failure keys name the cause (zero-value-assignment / squashed-label)."""
    return _check_conv(case, True)


# ---------------------------------------------------------------------------------------------
# 5. constraints
# ---------------------------------------------------------------------------------------------
def _gen_con_book(ctx):
    yield from _histories(ctx, "c14.k0", ["PCBO", "PCSO"], 600, 12000, con=0.45, maxops=6)


@clause("C14.constraint_bookkeeping", "C14", gen=_gen_con_book,
        nontrivial=lambda c: any(op[0] == "con" and op[3].get("lam") for op in c["ops"]))
def check_con_book(case):
    """PCBO / PCSO histories mixing edits with add_constraint_{eq,ne,lt,le,gt,ge}_zero (dict or model argument,
    lam 0 / non-zero, log_trick both ways) and for PCBO the logic constraints: after every step the upper bounds of
    C14.upper_bounds and the bijection of C14.mapping_bijection hold (ancilla labels included). Histories contain
    no zero-valued assignment to unseen labels and no squashed labels. Non-trivial: a constraint with lam != 0."""
    t = case["type"]
    spin = t in SPIN_TYPES

    def per_step(M, i, op, before):
        w = _where(i, op, M)
        return _bounds(M, t, w) or _bijection(M, w, why=lambda extra: _why_extra(extra, op, before, spin))
    return _run(case, per_step)[1]


def _anc(labels):
    return {l for l in labels if isinstance(l, str) and l[:3] == "__a" and l[3:].isdigit()}


def _check_anc(case):
    t = case["type"]
    st = {"seen": set(), "reset": None, "na": 0}

    def per_step(M, i, op, before):
        st["seen"] |= _anc(variables_of(before))
        na, st["na"] = st["na"], M.num_ancillas
        if op[0] == "clear":
            st["seen"], st["reset"] = set(), None
            return None
        after = dict(M)
        if op[0] != "con":
            if M.num_ancillas < na:
                st["reset"] = op[0] + ("-" + op[1][0] if op[0] == "imul" else "")
            return None
        diff = [k for k in set(after) | set(before) if after.get(k, 0) != before.get(k, 0)]
        new = _anc(variables_of(diff))
        reused = new & st["seen"]
        if reused:
            return Fail("constraint %r introduces ancilla name(s) %r already used in this model; num_ancillas was %r "
                        "before (%s)" % (op, sorted(reused), na, _where(i, op, M)),
                        key="constraint-ancilla-name-reused:" + ("num_ancillas-reset-by-%s" % st["reset"]
                                                                 if st["reset"] else "unexplained"))
        st["seen"] |= new
        return None
    return _run(case, per_step)[1]


def _two_cons(c):
    return sum(1 for op in c["ops"] if op[0] == "con" and op[3].get("lam")) >= 2


@clause("C14.constraint_ancilla_names", "C14",
        gen=lambda ctx: _histories(ctx, "c14.a0", ["PCBO", "PCSO"], 700, 14000, products=False, con=0.55, maxops=7),
        nontrivial=_two_cons)
def check_anc_names(case):
    """PCBO / PCSO: along a history of edits, copies, refresh and successive constraints (log_trick both ways), the
    terms a constraint adds never mention an ancilla name '__a<k>' that occurred in the model before (since creation
    or the last clear()). Operands never contain '__a' labels; no `*= dict` / `**=` here. Non-trivial: at least two
    constraints with lam != 0."""
    return _check_anc(case)


def _gen_anc_products(ctx):
    for t in ("PCBO", "PCSO"):
        x, y, z = 'a', 'b', 0
        con = ("con", "le_zero", [("dict", {(x,): 3, (y,): 2, (): -4})], {"lam": 1, "log_trick": True})
        yield {"type": t, "ops": [con, ("imul", ("dict", {(z,): 1})), con]}
        yield {"type": t, "ops": [con, ("imul", ("num", 2)), con]}
        yield {"type": t, "ops": [con, ("imul", ("dict", {(): 2})), con]}
        if t == "PCBO":
            yield {"type": t, "ops": [con, ("ipow", 2), con]}
    rng = ctx.rng("c14.a1")
    for t in ("PCBO", "PCSO"):
        labels = LABELS[:3]
        for _ in range(ctx.pick(150, 3000)):
            prod = rng.choice([("imul", ("dict", {(rng.choice(labels),): 1})), ("imul", ("dict", {(): 2, ('m0',): 1})),
                               ("imul", ("model", "PUSO" if t == "PCSO" else "PUBO", {(): -1})), ("ipow", 2),
                               ("imul", ("num", 2))])
            pre = _gen_ops(rng, t, rng.randint(0, 2), False, True, False, 0.0) if rng.random() < 0.5 else []
            mid = _gen_ops(rng, t, rng.randint(0, 2), False, True, False, 0.3) if rng.random() < 0.5 else []
            c1, c2 = _gen_con(rng, t, labels), _gen_con(rng, t, labels)
            if prod[0] == "ipow" and (c1[1] not in ("eq_zero",) or t == "PCSO"):
                c1 = ("con", "eq_zero", [("dict", {(labels[0],): 1, (labels[1],): -1})], {"lam": 1})   # keep it small
            yield {"type": t, "ops": pre + [c1] + mid + [prod, c2]}


def _gen_anc_derived(ctx):
    rng = ctx.rng("c14.a2")
    for t in ("PCBO", "PCSO"):
        labels = LABELS[:3]
        con = ("con", "le_zero", [("dict", {('a',): 3, ('b',): 2, (): -4})], {"lam": 1, "log_trick": True})
        for d in (("round", 3), ("subs",), ("neg",), ("copy",), ("ctor",)):
            yield {"type": t, "ops": [con, d, con]}
        for _ in range(ctx.pick(120, 2500)):
            d = rng.choice([("round", rng.choice([None, 0, 2, 5])), ("subs",), ("neg",), ("copy",), ("ctor",)])
            if d == ("round", None):
                d = ("round", 4)
            mid = _gen_ops(rng, t, rng.randint(0, 2), False, True, False, 0.3) if rng.random() < 0.5 else []
            yield {"type": t, "ops": [_gen_con(rng, t, labels)] + mid + [d, _gen_con(rng, t, labels)]}


@clause("C14.constraint_ancilla_names_derived_models", "C14", gen=_gen_anc_derived, nontrivial=_two_cons)
def check_anc_names_derived(case):
    """Same contract as C14.constraint_ancilla_names where, between two constraints, the model is replaced by a model
    derived from it: round(M, n), M.subs({}), -M, M.copy(), type(M)(M). The derived model carries the ancillas of the
    first constraint, so the second must not reuse their names. Non-trivial: two constraints with lam != 0."""
    return _check_anc(case)


def _gen_user_mapping(ctx):
    rng = ctx.rng("c14.um")
    for t in LABELLED:
        yield {"type": t, "ops": [("set", ('a',), 1), ("set", ('b',), 2), ("set_mapping", 1, False), ("set", ('c',), 5)]}
        yield {"type": t, "ops": [("set", ('a',), 1), ("set", ('b',), 2), ("set_mapping", 0, True), ("set", ('c', 'a'), 5)]}
        for _ in range(ctx.pick(150, 3000)):
            pre = _gen_ops(rng, t, rng.randint(1, 3), False, False, False, 0.0)
            post = _gen_ops(rng, t, rng.randint(1, 3), False, False, False, 0.0)
            yield {"type": t, "ops": pre + [("set_mapping", rng.randint(0, 3), rng.random() < 0.5)] + post}


@clause("C14.mapping_bijection_after_user_mapping", "C14", gen=_gen_user_mapping, nontrivial=_has_edit)
def check_bijection_user_mapping(case):
    """C14.mapping_bijection for histories in which the user replaces the enumeration of the current variables by a
    permutation of 0..n-1 (set_mapping or set_reverse_mapping) and then goes on editing: variables added afterwards
    get labels that are new, and mapping / reverse_mapping stay mutually inverse bijections onto 0..n-1."""
    return check_bijection(case)


def _gen_predeclared(ctx):
    rng = ctx.rng("c14.pre")
    for t in LABELLED:
        for labs in (['a', 'b'], ['b', 'a', 0], [0, 1, 2], ['a']):
            for rot in range(len(labs)):
                for rev in (False, True):
                    yield {"type": t, "labels": labs, "rot": rot, "rev": rev, "extra": ['zz']}
                    # declared numbers with gaps (as in the library's own test: {0: 'a', 2: 'b'})
                    yield {"type": t, "labels": labs, "rot": rot, "rev": rev, "extra": ['zz', 'yy'], "stride": 2}
        for _ in range(ctx.pick(40, 800)):
            labs = rng.sample(LABELS, rng.randint(1, 4))
            yield {"type": t, "labels": labs, "rot": rng.randint(0, 3), "rev": rng.random() < 0.5,
                   "extra": rng.sample(['zz', 'yy', 9], rng.randint(1, 2))}


@clause("C14.mapping_bijection_predeclared_mapping", "C14", gen=_gen_predeclared, nontrivial=lambda c: len(c["labels"]) >= 2)
def check_predeclared(case):
    """The documented use of set_mapping / set_reverse_mapping "to ensure consistency in mappings": the enumeration
    of labels L (a permutation of 0..|L|-1) is declared on an empty model, then terms over exactly L are added, then
    terms on further labels. At the end mapping and reverse_mapping are mutually inverse bijections between the
    reported variables and 0..n-1, and the declared labels kept their declared numbers. Non-trivial: |L| >= 2."""
    M = cls_of(case["type"])()
    labs = list(case["labels"])
    n = len(labs)
    decl = {l: ((i + case["rot"]) % n) * case.get("stride", 1) for i, l in enumerate(labs)}
    if case["rev"]:
        M.set_reverse_mapping({v: l for l, v in decl.items()})
    else:
        M.set_mapping(dict(decl))
    for i, l in enumerate(labs):
        M[(l,)] += i + 1
    for j, l in enumerate(case["extra"]):
        M[(l, labs[0])] += 2 + j
    mp, rm, vs = M.mapping, M.reverse_mapping, set(M.variables)
    if set(mp) != vs:
        return Fail("mapping %r does not enumerate exactly the variables %r" % (mp, sorted(vs, key=repr)), key="predeclared-labels")
    if case.get("stride", 1) == 1 and sorted(mp.values()) != list(range(len(vs))):
        return Fail("mapping %r is not a bijection onto 0..%d" % (mp, len(vs) - 1), key="predeclared-not-bijection")
    if len(set(mp.values())) != len(mp):
        return Fail("mapping %r gives two labels the same number" % (mp,), key="predeclared-not-injective")
    if {v: k for k, v in mp.items()} != rm:
        return Fail("reverse_mapping %r is not the inverse of mapping %r" % (rm, mp), key="predeclared-inverse")
    if any(mp[l] != decl[l] for l in labs):
        return Fail("declared numbers %r changed to %r" % (decl, {l: mp[l] for l in labs}), key="predeclared-renumbered")
    return None


@clause("C14.constraint_ancilla_names_after_product", "C14", gen=_gen_anc_products,
        nontrivial=lambda c: _two_cons(c) and any(op[0] in ("imul", "ipow") for op in c["ops"]))
def check_anc_names_products(case):
    """Same contract as C14.constraint_ancilla_names for histories that also multiply the model in place by a dict /
    model (`*=`) or square it (`**=`) between constraints. Non-trivial: two constraints with lam != 0 and a product."""
    return _check_anc(case)


# ---------------------------------------------------------------------------------------------
# known finding of round 4: merging a constrained model into another one
# ---------------------------------------------------------------------------------------------
def _gen_merge(ctx):
    for t in ("PCBO", "PCSO"):
        for how in ("iadd", "update", "add"):
            yield {"type": t, "how": how}


@clause("C14.constraint_ancilla_names_after_merge", "C14", gen=_gen_merge, nontrivial=lambda c: True)
def check_merge(case):
    """A PCBO / PCSO q that carries constraint ancillas is merged into a model p (p += q, p.update(q), p = p + q);
    a constraint added to p afterwards must not reuse the ancilla names that came in with q."""
    T = cls_of(case["type"])
    con = {('a',): 1, ('b',): 1, ('c',): 1, (): -2}
    q_ = T().add_constraint_le_zero(dict(con), lam=1)
    before = {v for v in q_.variables if str(v).startswith("__a")}
    p = T()
    if case["how"] == "iadd":
        p += q_
    elif case["how"] == "update":
        p.update(q_)
    else:
        p = p + q_
    had = {v for v in p.variables if str(v).startswith("__a")}
    terms0 = dict(p)
    p.add_constraint_le_zero({('u',): 1, ('v',): 1, ('w',): 1, (): -2}, lam=1)
    new_terms = {k: v for k, v in dict(p).items() if terms0.get(k) != v}
    reused = sorted({str(l) for k in new_terms for l in k if str(l).startswith("__a") and l in had})
    if reused and any(('u' in k or 'v' in k or 'w' in k) and any(l in had for l in k) for k in new_terms):
        return Fail("after merging a model with ancillas %r (%s), the next constraint reuses %r; num_ancillas of the "
                    "merged model was %r" % (sorted(map(str, before)), case["how"], reused, len(had) and "not advanced"),
                    key="ancilla-reused-after-merge")
    return None
