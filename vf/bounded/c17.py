"""C17 bounded stand-in: the C annealing kernels are memory-safe on every valid call (bounded scope).

The extension is compiled from the repository's *current* C sources with ``-fsanitize=address,undefined``
(``vf.repo.build_canneal(sanitize=True)``, clang) and driven through the public Python API in a separate interpreter
started with LD_PRELOAD=<ASan runtime> (``_c17_driver.py``).  One case is a *batch* of calls run in one process; any
AddressSanitizer / UndefinedBehaviorSanitizer report, crash (negative return code) or hang (timeout) is a violation; the
key names the kind and the C function, the message names the single failing call (which is re-run alone to tell whether
it fails without the history).  Identical seeded calls inside a batch must give identical results ("later calls are
unaffected by earlier ones").  One further clause replays the raw C-level argument tuples, as marshalled by the real
Python front ends, against the plain (-O1 -g) build under valgrind memcheck, which also sees uninitialised reads.

Call spec: {"fn": "qubo"|"quso"|"pubo"|"puso", "type": "dict"|class name, "terms": {...}, "cancel": [labels], "kw": {...}}
"""
import os
import re
import subprocess
import sys

from .common import clause, Fail, Skip, variables_of
from .. import REPO
from ..repo import import_qubovert, build_canneal
from ._c17_driver import run_driver
from .c11 import fresh_qubovert, register_build_cleanup
from .c11 import TYPES, SPIN_FN, MATRIX, FNS, SCHEDULE_KWS, _special_models, _random_models, _vars_for, _kw

_DRIVER = os.path.join(os.path.dirname(os.path.abspath(__file__)), "_c17_driver.py")
_C_FILES = ("_canneal.c", "anneal_quso.c", "anneal_puso.c", "random.c", "pcg_basic.c")
_TIMEOUT = 60

_asan_rt = None


def _asan_runtime():
    global _asan_rt
    if _asan_rt is None:
        r = subprocess.run(["clang", "-print-file-name=libclang_rt.asan-x86_64.so"], capture_output=True, text=True)
        p = r.stdout.strip()
        _asan_rt = p if (r.returncode == 0 and os.path.isabs(p) and os.path.exists(p)) else ""
    return _asan_rt


def _c_function(text):
    """first stack frame that lies in one of the extension's C files -> function name"""
    for m in re.finditer(r"#\d+ 0x[0-9a-f]+ in (\w+) [^\n]*?([\w.]+\.c):\d+", text):
        if m.group(2) in _C_FILES:
            return m.group(1)
    for m in re.finditer(r"(?:at|by) 0x[0-9A-Fa-f]+: (\w+) \(([\w.]+\.c):\d+\)", text):
        if m.group(2) in _C_FILES:
            return m.group(1)
    return "unknown"


def _slug(msg):
    words = []
    for w in re.sub(r"[^a-z ]", "", msg.lower()).split():
        if w in ("cannot", "for", "is", "which", "in", "to") or len(words) == 4:
            break
        words.append(w)
    return "-".join(words) or "report"


def _classify(stderr, returncode, timed_out):
    """-> (key, excerpt) or None"""
    if timed_out:
        return "hang", stderr[-1500:]
    m = re.search(r"ERROR: AddressSanitizer: ([\w-]+)", stderr)
    if m:
        at = stderr.index(m.group(0))
        rep = stderr[at:at + 6000]
        return "asan:%s:%s" % (m.group(1), _c_function(rep)), rep[:1800]
    m = re.search(r"([\w./-]+\.[ch]):(\d+):(\d+): runtime error: ([^\n]*)", stderr)
    if m:
        at = stderr.index(m.group(0))
        rep = stderr[at:at + 4000]
        kind = _slug(m.group(4))
        fn = _c_function(rep)
        return "ubsan:%s:%s" % (kind, fn if fn != "unknown" else os.path.basename(m.group(1))), rep[:1800]
    m = re.search(r"==\d+== (Invalid (?:read|write|free)[^\n]*|Conditional jump or move depends on uninitialised[^\n]*|"
                  r"Use of uninitialised value[^\n]*|Mismatched free[^\n]*|Syscall param[^\n]*uninitialised[^\n]*|"
                  r"Process terminating[^\n]*|Argument '\w+' of function \w+ has a fishy[^\n]*)", stderr)
    if m:
        # only reports whose stack touches the extension's sources
        for block in re.split(r"\n==\d+== \n", stderr[max(0, stderr.index(m.group(0)) - 10):]):
            if any(f in block for f in _C_FILES):
                k = re.search(r"==\d+== ([A-Z][^\n]*)", block)
                kind = _slug(k.group(1) if k else m.group(1))
                return "valgrind:%s:%s" % (kind, _c_function(block)), block[:1800]
    if returncode is not None and returncode < 0:
        return "crash:signal%d" % (-returncode), stderr[-1500:]
    return None


def _run_driver(mode, so, payload, wrapper=(), env_extra=None):
    return run_driver(mode, so, payload, repo=REPO, wrapper=wrapper, env_extra=env_extra, timeout=_TIMEOUT)


def _asan_env():
    return {"LD_PRELOAD": _asan_runtime(),
            "ASAN_OPTIONS": "detect_leaks=0:abort_on_error=0:halt_on_error=1",
            "UBSAN_OPTIONS": "halt_on_error=1:print_stacktrace=1"}


def _last_call(stderr, excerpt=None):
    """index of the call that was running when the report (whose text starts with `excerpt`) was printed"""
    if excerpt:
        at = stderr.find(excerpt[:60])
        if at >= 0:
            stderr = stderr[:at]
    ms = re.findall(r"^CALL (\d+)$", stderr, flags=re.M)
    return int(ms[-1]) if ms else None


def _results(stdout):
    out = {}
    for m in re.finditer(r"^RESULT (\d+) (.*)$", stdout, flags=re.M):
        out[int(m.group(1))] = m.group(2)
    return out


def _spec_key(c):
    return repr(c)


def _check_batch(case):
    fresh_qubovert()                       # (cached) the unsanitised fresh build is not what is driven here
    if not _asan_runtime():
        return Skip("ASan runtime not found")
    so = build_canneal(sanitize=True)
    register_build_cleanup(so)
    calls = case["calls"]
    rc, out, err, to = _run_driver("api", so, calls, env_extra=_asan_env())
    bad = _classify(err, rc, to)
    if bad is None and "DONE" not in out:
        bad = ("driver-died:rc=%r" % rc, (err or out)[-1500:])
    if bad is not None:
        key, rep = bad
        located = key.startswith(("asan:", "ubsan:", "valgrind:"))
        i = _last_call(err, rep if located else None)
        which = calls[i] if i is not None and i < len(calls) else None
        if not located and which is not None:
            key += ":anneal_" + which["fn"]
        alone = ""
        if which is not None and len(calls) > 1 and not key.startswith("hang"):
            rc2, out2, err2, to2 = _run_driver("api", so, [which], env_extra=_asan_env())
            b2 = _classify(err2, rc2, to2)
            alone = " [the same call alone in a fresh process: %s]" % (b2[0] if b2 else "no report")
        return Fail("sanitizer/crash report %s during call #%r of the batch: %r%s" % (key, i, which, alone), key=key,
                    observed=rep, required="no AddressSanitizer/UBSan report, no crash, no hang")
    m = re.search(r"^GARBAGE (\d+) (.*)$", out, flags=re.M)
    if m:
        i = int(m.group(1))
        return Fail("call #%d of the batch (%r) returned memory it never wrote: %s" % (i, calls[i] if i < len(calls) else None, m.group(2)),
                    key="uninitialised-output:anneal_" + (calls[i]["fn"] if i < len(calls) else "?"),
                    observed=m.group(2), required="states in the domain and values equal to the model at the state")
    # history independence: identical seeded calls give identical results wherever they stand in the batch
    res = _results(out)
    first = {}
    for i, c in enumerate(calls):
        if c["kw"].get("seed") is None or c["kw"]["seed"] < 0 or i not in res:
            continue
        k = _spec_key(c)
        if k in first and res[first[k]] != res[i]:
            return Fail("call #%d repeats call #%d (%r) but returns a different result after the calls in between"
                        % (i, first[k], c), key="history-dependent:" + c["fn"], observed=res[i][:600],
                        required=res[first[k]][:600])
        first.setdefault(k, i)
    return None


# ---------------------------------------------------------------------------------------------
# scope
# ---------------------------------------------------------------------------------------------
def _spec(fn, tname, terms, kw, cancel=()):
    s = {"fn": fn, "type": tname, "terms": terms, "kw": kw}
    if cancel:
        s["cancel"] = list(cancel)
    return s


def _stress_models(fn, tname):
    """single variable, many isolated variables, far gap, dense couplings, long chain, very high degree"""
    matrix = tname in MATRIX
    lab = (lambda i: i) if matrix else (lambda i: ("v", i) if i % 3 == 0 else (i if i % 3 == 1 else "s%d" % i))
    q2 = fn in ("qubo", "quso") or tname.startswith("Q")
    out = [{(lab(0),): 1}, {(lab(0),): -1, (): 2},
           {(lab(i),): (1 if i % 2 else -0.5) for i in range(12)},                                  # no couplings
           {(lab(0), lab(40)): 1.5} if matrix else {(lab(0), lab(1)): 1.5},                            # far gap
           {(lab(40),): 1} if matrix else {(lab(5),): 1},
           {(lab(i), lab(j)): ((i * 7 + j * 3) % 5 - 2) or 1 for i in range(8) for j in range(i + 1, 8)},  # dense
           {(lab(i), lab(i + 1)): (-1) ** i * (1 + i % 3) for i in range(30)}]                        # chain
    # every number of variables 2..10: a ring with alternating couplings plus one field
    for n in range(2, 11):
        ring = {(lab(i), lab((i + 1) % n)): (1.5 if i % 2 else -1) for i in range(n if n > 2 else 1)}
        ring[(lab(0),)] = 0.5
        out.append(ring)
    if not q2:
        out += [{tuple(lab(i) for i in range(9)): 1},
                {tuple(lab(i) for i in range(7)): -2, tuple(lab(i) for i in range(3, 10)): 1, (lab(11),): 0.5},
                {tuple(lab(i) for i in range(d)): 1.0 / d for d in range(1, 8)},
                {(lab(0), lab(5), lab(9)): 1, (lab(20),): -1} if matrix else {(lab(0), lab(5), lab(9)): 1}]
    return out


def _batch_for(ctx, fns, salt, n_random, heavy=False):
    rng = ctx.rng(salt)
    calls = []
    for fn in fns:
        spin = SPIN_FN[fn]
        for tname in TYPES[fn]:
            models = [m for m in _special_models(fn, tname)] + _stress_models(fn, tname)
            models += list(_random_models(rng, fn, tname, n_random))
            for terms in models:
                if tname in MATRIX and not variables_of(terms):
                    continue                       # Python-level TypeError (C11), never reaches C
                vs = _vars_for(tname, terms)
                for _ in range(2 if not heavy else 4):
                    kw = _kw(rng, vs, spin)
                    kw["num_anneals"] = rng.choice([1, 1, 2, 5] if not heavy else [1, 3, 17, 64])
                    calls.append(_spec(fn, tname, terms, kw))
                # deliberately: empty schedule, zeros, no/with initial state, both orders
                for sched in ({"schedule": []}, {"schedule": [0, 0]}):
                    for init in ("none", "rand"):
                        kw = _kw(rng, vs, spin, sched=sched, init=init, num_anneals=2)
                        calls.append(_spec(fn, tname, terms, kw))
    return calls


def _chunks(xs, n):
    for i in range(0, len(xs), n):
        yield xs[i:i + n]


def _gen_quadratic(ctx):
    calls = _batch_for(ctx, ["quso", "qubo"], "c17.q", ctx.pick(10, 120), heavy=ctx.thorough)
    for ch in _chunks(calls, ctx.pick(800, 800)):
        yield {"calls": ch}


def _gen_higher(ctx):
    calls = _batch_for(ctx, ["puso", "pubo"], "c17.p", ctx.pick(8, 100), heavy=ctx.thorough)
    for ch in _chunks(calls, ctx.pick(800, 800)):
        yield {"calls": ch}


def _nt_batch(case):
    return len(case["calls"]) >= 1


@clause("C17.asan_quadratic_kernels", "C17", gen=_gen_quadratic, nontrivial=lambda c: len(c["calls"]) >= 20)
def check_quadratic(case):
    """anneal_quso / anneal_qubo over the C11 scope plus stress models (single variable, 12 isolated variables, Matrix
    label 40 alone (41 spins, 40 without any term), dense 8-clique, 30-chain), every schedule kind including the empty
    list and zeros, with/without initial state, both orders, 1..5 anneals (thorough: up to 64), all in one process
    against the ASan+UBSan build: no sanitizer report, crash or hang. Non-trivial: the batch has >= 20 calls."""
    return _check_batch(case)


@clause("C17.asan_higher_degree_kernels", "C17", gen=_gen_higher, nontrivial=lambda c: len(c["calls"]) >= 20)
def check_higher(case):
    """anneal_puso / anneal_pubo likewise, including terms of degree up to 9, nested terms of every degree 1..7,
    degree <= 2 models (no coupling at all, linear terms only) and QUSO/QUSOMatrix inputs to anneal_puso.
    Non-trivial: the batch has >= 20 calls."""
    return _check_batch(case)


# --- models whose terms have all cancelled -----------------------------------------------------------
LABELLED = {"qubo": ["QUBO"], "quso": ["QUSO"], "pubo": ["PUBO", "PCBO", "QUBO"], "puso": ["PUSO", "PCSO", "QUSO"]}


def _gen_cancelled(ctx):
    rng = ctx.rng("c17.cancel")
    for fn in ("puso", "pubo", "quso", "qubo"):
        spin = SPIN_FN[fn]
        calls = []
        for tname in LABELLED[fn]:
            for cancel in (['a'], ['a', 0], [('t', 1), 'b', 1]):
                base = {"num_anneals": 1, "anneal_duration": 2, "seed": 1}
                calls.append(_spec(fn, tname, {}, dict(base), cancel))                      # the minimal input first
                calls.append(_spec(fn, tname, {(): 2}, dict(base), cancel))
                for sched in ({"schedule": []}, {"schedule": [0]}, {"schedule": [1.0, 0.5]}, {"schedule": "linear"}):
                    for in_order in (True, False):
                        kw = dict(sched, num_anneals=2, in_order=in_order, anneal_duration=2)
                        calls.append(_spec(fn, tname, {}, kw, cancel))
                        dom = (1, -1) if spin else (0, 1)
                        kw2 = dict(kw, initial_state={l: rng.choice(dom) for l in cancel})
                        calls.append(_spec(fn, tname, {}, kw2, cancel))
        # one call per batch for the minimal ones (the process dies at the first report), then the rest together
        yield {"calls": calls[:1]}
        yield {"calls": calls}
    # partially cancelled: some variables keep terms
    calls = []
    for fn in FNS:
        for tname in LABELLED[fn]:
            for terms in ({('b',): 1}, {('b', 'c'): -1, (): 1}):
                for sched in ({"schedule": [1.0]}, {"schedule": []}, {}):
                    calls.append(_spec(fn, tname, terms, dict(sched, num_anneals=2, anneal_duration=2, seed=5),
                                       ['a', 'z']))
    yield {"calls": calls}


@clause("C17.asan_cancelled_models", "C17", gen=_gen_cancelled, nontrivial=lambda c: True if c["calls"] else False)
def check_cancelled(case):
    """Model objects whose terms have all cancelled (H = PUSO(); H[('a',)] += 1; H[('a',)] -= 1: variables are still
    registered, N > 0, but there is no non-constant term) and partially cancelled ones, for every function and
    labelled type, all schedule kinds, both orders, with/without initial state, against the ASan+UBSan build. Such
    a model is a valid model (a constant). Non-trivial: the batch is non-empty."""
    return _check_batch(case)


# --- enumerations chosen by the user -----------------------------------------------------------------
PREMAPS = [[('a', 0), ('b', 1), ('c', 2), ('d', 3)],           # 'b' (or more) stays unused: superset of the variables
           [('a', 0), ('c', 5), ('d', 2)],                      # integers with gaps
           [('d', 0), ('c', 1), ('a', 2), ('zz', 7)],           # an unused label far beyond the variables
           [('a', 3), ('c', 4), ('d', 9)]]                      # nothing mapped to 0


def _gen_user_mappings(ctx):
    for fn in ("puso", "pubo", "quso", "qubo"):
        calls = []
        for tname in LABELLED[fn]:
            deg3 = fn in ("puso", "pubo") and not tname.startswith("Q")
            models = [{('a', 'd'): 1, ('c',): -1}, {('a',): 1}, {('d', 'c'): -2, ('a', 'c'): 1, (): 3}]
            if deg3:
                models.append({('a', 'd', 'c'): 1})
            for terms in models:
                for pm in PREMAPS:
                    for kw in ({"num_anneals": 2, "anneal_duration": 2, "seed": 1},
                               {"schedule": [1.0, 0], "in_order": False, "seed": 3},
                               {"schedule": [0.5], "seed": 2, "initial_state": "first"}):
                        kw = dict(kw)
                        if kw.get("initial_state") == "first":
                            dom0 = 1 if SPIN_FN[fn] else 0
                            kw["initial_state"] = {l: dom0 for l in variables_of(terms)}
                        s = _spec(fn, tname, terms, kw)
                        s["premap"] = pm
                        calls.append(s)
        yield {"calls": calls[:1]}
        yield {"calls": calls}


@clause("C17.asan_user_mappings", "C17", gen=_gen_user_mappings, nontrivial=lambda c: True if c["calls"] else False)
def check_user_mappings(case):
    """Labelled models whose enumeration was chosen with set_mapping before the terms were entered: the mapping names
    labels the model never uses, or uses integers with gaps or beyond the number of variables. The buffers handed to
    the C kernels must cover every integer label that occurs in the enumerated model; run against the ASan+UBSan
    build, every function and labelled type."""
    return _check_batch(case)


# --- sequences ------------------------------------------------------------------------------------------
def _gen_sequences(ctx):
    rng = ctx.rng("c17.seq")
    pool = []
    for fn in FNS:
        spin = SPIN_FN[fn]
        for tname in TYPES[fn]:
            for terms in _special_models(fn, tname)[2:12:3] + _stress_models(fn, tname)[2::3]:
                if tname in MATRIX and not variables_of(terms):
                    continue
                vs = _vars_for(tname, terms)
                kw = _kw(rng, vs, spin, seed=rng.choice([0, 3, 99]))
                kw["num_anneals"] = rng.choice([1, 4, 9])
                pool.append(_spec(fn, tname, terms, kw))
    for b in range(ctx.pick(2, 8)):
        seq = [rng.choice(pool) for _ in range(ctx.pick(250, 600))]
        # every call of the pool occurs at least twice, far apart
        yield {"calls": pool + seq + list(reversed(pool))}


@clause("C17.asan_call_sequences", "C17", gen=_gen_sequences, nontrivial=lambda c: len(c["calls"]) >= 50)
def check_sequences(case):
    """Long random sequences of calls of all four functions in one process (models of different sizes alternate, so
    stale sizes or buffers would show), every seeded call repeated later in the same process: no sanitizer report and
    the repeated call returns the identical result (later calls are unaffected by earlier ones).
    Non-trivial: >= 50 calls in the sequence."""
    return _check_batch(case)


# --- valgrind: uninitialised reads ------------------------------------------------------------------------
def _capture_raw(specs):
    """Run the specs through the real front ends in this process, recording the argument tuples that reach the C
    functions."""
    from . import _c17_driver as drv
    q = fresh_qubovert()
    mod = q.sim._anneal
    raw = []
    real = (mod.c_anneal_quso, mod.c_anneal_puso)

    def rec(name, f):
        def g(*args):
            # record only: the C code is never executed in this process (a corrupted heap would kill the checker);
            # a placeholder of the right shape lets the front end finish
            raw.append((name, _plain(args)))
            n = len(args[0]) if name == "quso" else args[0]
            num = args[5]
            return [[1] * n for _ in range(num)], [0.0] * num
        return g
    mod.c_anneal_quso, mod.c_anneal_puso = rec("quso", real[0]), rec("puso", real[1])
    try:
        import warnings
        with warnings.catch_warnings():
            warnings.simplefilter("ignore")
            for c in specs:
                try:
                    getattr(q.sim, "anneal_" + c["fn"])(drv.build_model(q, c), **c["kw"])
                except Exception:      # noqa   python-level rejections never reach C
                    pass
    finally:
        mod.c_anneal_quso, mod.c_anneal_puso = real
    return raw


def _plain(x):
    if isinstance(x, (list, tuple)):
        return type(x)(_plain(y) for y in x)
    if isinstance(x, bool):
        return int(x)
    if isinstance(x, int):
        return int(x)
    return float(x)


def _gen_valgrind(ctx):
    rng = ctx.rng("c17.vg")
    calls = []
    for fn in FNS:
        spin = SPIN_FN[fn]
        for tname in TYPES[fn][:1] + [t for t in TYPES[fn] if t in MATRIX][:1]:
            for terms in _special_models(fn, tname)[:12:2] + _stress_models(fn, tname)[:4] + _stress_models(fn, tname)[7:16:2]:
                if tname in MATRIX and not variables_of(terms):
                    continue
                vs = _vars_for(tname, terms)
                for sched, init in (({"schedule": []}, "none"), ({"schedule": [0]}, "rand"), ({"anneal_duration": 2}, "none"),
                                    ({"schedule": [1.0, 0.5]}, "rand")):
                    kw = _kw(rng, vs, spin, sched=sched, init=init, num_anneals=rng.choice([1, 3]), seed=4)
                    calls.append(_spec(fn, tname, terms, kw))
    for ch in _chunks(calls, ctx.pick(150, 150)):
        yield {"calls": ch}
        if not ctx.thorough:
            break


@clause("C17.valgrind_uninitialised", "C17", gen=_gen_valgrind, nontrivial=lambda c: len(c["calls"]) >= 20)
def check_valgrind(case):
    """The argument tuples which the real Python front ends pass to c_anneal_quso / c_anneal_puso for a batch of
    calls (empty schedule, zeros, with/without initial state, isolated variables, Matrix gaps) are replayed directly
    on the plain (-O1 -g) build of the current C sources under valgrind memcheck: no invalid read/write/free and
    no use of uninitialised values whose stack lies in the extension's sources (ASan does not see uninitialised
    reads). Non-trivial: >= 20 calls."""
    raw = _capture_raw(case["calls"])
    if not raw:
        return Skip("no call reached the C functions")
    so = build_canneal(sanitize=False)
    rc, out, err, to = _run_driver("raw", so, raw, wrapper=("valgrind", "-q", "--error-exitcode=9", "--num-callers=12"))
    bad = _classify(err, rc, to)
    if bad is None and "DONE" not in out:
        bad = ("driver-died:rc=%r" % rc, (err or out)[-1500:])
    if bad is not None:
        key, rep = bad
        i = _last_call(err, rep if key.startswith("valgrind:") else None)
        if not key.startswith("valgrind:") and i is not None:
            key += ":c_anneal_" + raw[i][0]
        return Fail("valgrind report %s (last call started: #%r = c_anneal_%s%r)"
                    % (key, i, raw[i][0] if i is not None else "?", raw[i][1] if i is not None else "?"), key=key,
                    observed=rep, required="no memcheck report in the extension's code")
    return None
