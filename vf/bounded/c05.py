"""C05 bounded stand-in: model arithmetic and evaluation agree with polynomial arithmetic.

Expressions are literals (nested tuples):
  leaves   ("m", T, terms)            model of type T built from the term dict (keys may be raw: unsorted/repeated)
           ("acc", T, ((key, c), ...)) model of type T built by  M = T(); M[key] += c  in the given order
           ("mc", T, terms, cons)     PCBO/PCSO built from terms, then add_constraint_eq_zero(cons) (immutability only)
           ("d", terms)               plain dict,   ("n", c)  number
  ops      ("+", L, R) ("-", L, R) ("*", L, R) ("**", L, k) ("neg", L) ("/", L, c)
           ("+=", L, R) ("-=", L, R) ("*=", L, R) ("**=", L, k) ("/=", L, c)       (L evaluates to a model)
           R may be the string "self": the right operand is the very same object as the left one.

Oracle: the function denoted by an expression is evaluated pointwise on the truth table (common.peval on the leaf
term dicts, python arithmetic on the numbers); its unique multilinear form is obtained from the truth table by the
Moebius (boolean) / Walsh-Hadamard (spin) transform, never by polynomial arithmetic on term dicts.
"""
import itertools
import sys

from .common import (clause, Fail, Skip, COEFS, BOOL_TYPES, SPIN_TYPES, MATRIX_TYPES, DEG2_TYPES,
                     canonical_keys, raw_keys, all_small_models, assignments, peval, qv, cls_of, close, snapshot,
                     _innermost_in_repo)

LBL = ['a', 0, ('t', 1), 'b', 10, ('t', 0), 'c', 1]       # mixed hashable label types on purpose
ILBL = [0, 1, 10, 3]                                       # 10: numeric order differs from string order
NUMS = [-2, -1, 0, 1, 2, 0.5, 3]
DIVS = [2, -2, 4, 0.5, -1]
BIN = ("+", "-", "*")
IBIN = ("+=", "-=", "*=")
LEAVES = ("m", "acc", "mc", "d", "n")
MODEL_LEAVES = ("m", "acc", "mc")


# ---------------------------------------------------------------------------------------------
# expression helpers (pure functions of the literal)
# ---------------------------------------------------------------------------------------------
def _okey():
    return qv().utils.ordering_key


def _reduce(key, spin):
    """idempotence (boolean) / parity (spin) reduction of a raw key, sorted per qubovert.utils.ordering_key."""
    key = tuple(key)
    if spin:
        ls = [i for i in dict.fromkeys(key) if key.count(i) % 2]
    else:
        ls = list(dict.fromkeys(key))
    return tuple(sorted(ls, key=_okey()))


def _base(op):
    return op[:-1] if op.endswith("=") else op


def _children(e):
    if e[0] in LEAVES:
        return []
    if _base(e[0]) in BIN:
        return [e[1]] if e[2] == "self" else [e[1], e[2]]
    return [e[1]]


def _leaf_keys(e):
    if e[0] in ("m", "mc"):
        return list(e[2])
    if e[0] == "acc":
        return [k for k, _ in e[2]]
    if e[0] == "d":
        return list(e[1])
    return []


def _labels_of(e):
    out = []
    stack = [e]
    while stack:
        n = stack.pop(0)
        if n[0] in LEAVES:
            for k in _leaf_keys(n):
                for i in k:
                    if i not in out:
                        out.append(i)
        else:
            stack.extend(_children(n))
    return out


def _types_in(e):
    if e[0] in MODEL_LEAVES:
        return [e[1]]
    out = []
    for c in _children(e):
        out.extend(_types_in(c))
    return out


def _rtype(e):
    """static result type: 'num', 'dict' or the model type name (type of the model operand, left one first)."""
    op = e[0]
    if op in MODEL_LEAVES:
        return e[1]
    if op == "d":
        return "dict"
    if op == "n":
        return "num"
    lt = _rtype(e[1])
    if _base(op) in BIN and lt in ("num", "dict"):
        return lt if e[2] == "self" else _rtype(e[2])
    return lt


def _fval(e, x):
    """value of the denoted function at assignment x (direct evaluation)."""
    op = e[0]
    if op == "m":
        return peval(e[2], x)
    if op == "acc":
        tot = 0
        for k, c in e[2]:
            p = c
            for i in k:
                p *= x[i]
            tot += p
        return tot
    if op == "d":
        return peval(e[1], x)
    if op == "n":
        return e[1]
    b = _base(op)
    lv = _fval(e[1], x)
    if b == "neg":
        return -lv
    if b == "**":
        return lv ** e[2]
    if b == "/":
        return lv / e[2]
    rv = lv if e[2] == "self" else _fval(e[2], x)
    if b == "+":
        return lv + rv
    if b == "-":
        return lv - rv
    if b == "*":
        return lv * rv
    raise ValueError("bad expression %r" % (e,))


def _canon(e, vs, spin):
    """The unique multilinear form {sorted key: nonzero coef} of the function denoted by e, from its truth table."""
    svs = sorted(vs, key=_okey())
    n = len(svs)
    f = []
    for mask in range(1 << n):
        if spin:
            x = {svs[i]: (-1 if (mask >> i) & 1 else 1) for i in range(n)}
        else:
            x = {svs[i]: (mask >> i) & 1 for i in range(n)}
        f.append(_fval(e, x))
    for i in range(n):
        bit = 1 << i
        for mask in range(1 << n):
            if mask & bit:
                if spin:
                    u, v = f[mask ^ bit], f[mask]
                    f[mask ^ bit], f[mask] = (u + v) / 2, (u - v) / 2
                else:
                    f[mask] -= f[mask ^ bit]
    return {tuple(svs[i] for i in range(n) if (mask >> i) & 1): c for mask, c in enumerate(f) if c != 0}


def _deg(terms):
    return max([len(k) for k in terms] + [0])


def _classify(e, vs, spin):
    """'clean'  : every term/pairwise product of terms formed at every node whose result is a degree-2 type has
                  degree <= 2 after reduction -> no KeyError is legitimate, the identities must hold;
       'raise'  : the first non-clean node (evaluation order) has a value with a term of degree > 2 -> KeyError;
       'cancel' : the first non-clean node has a value of degree <= 2 (the offending terms cancel / have zero coef)."""
    def terms_of(node):
        if node[0] == "d":
            return list(node[1])
        if node[0] == "n":
            return [()]
        return list(_canon(node, vs, spin))

    def verdict(node):
        return "raise" if _deg(_canon(node, vs, spin)) > 2 else "cancel"

    def too_big(k):
        return len(_reduce(k, spin)) > 2

    def walk(node):
        op = node[0]
        if op in ("d", "n"):
            return None
        if op in MODEL_LEAVES:
            if node[1] in DEG2_TYPES and any(too_big(k) for k in _leaf_keys(node)):
                return verdict(node)
            return None
        for ch in _children(node):
            r = walk(ch)
            if r:
                return r
        if _rtype(node) not in DEG2_TYPES:
            return None
        b = _base(op)
        bad = False
        if b in ("+", "-"):
            bad = any(too_big(k) for ch in _children(node) for k in terms_of(ch))
        elif b == "*":
            lt = terms_of(node[1])
            rt = lt if node[2] == "self" else terms_of(node[2])
            bad = any(too_big(tuple(k1) + tuple(k2)) for k1 in lt for k2 in rt)
        elif b == "**":
            a = terms_of(node[1])
            cur = a
            for j in range(2, node[2] + 1):
                if any(too_big(tuple(k1) + tuple(k2)) for k1 in cur for k2 in a):
                    bad = True
                    break
                cur = list(_canon(("**", node[1], j), vs, spin))
                if any(len(k) > 2 for k in cur):
                    bad = True
                    break
        return verdict(node) if bad else None

    return walk(e) or "clean"


def _nonconstant(case):
    e, spin = case["expr"], case["kind"] == "spin"
    vs = _labels_of(e)
    return len(set(_fval(e, x) for x in assignments(vs, spin))) > 1


# ---------------------------------------------------------------------------------------------
# running the real code
# ---------------------------------------------------------------------------------------------
_CTYPE = [None]        # coefficient type of the case being run (C05.numeric_types), None = as written


def _num(v):
    ct = _CTYPE[0]
    if not ct:
        return v
    import fractions
    import numpy as np
    return {"fraction": lambda x: fractions.Fraction(x).limit_denominator(64), "np_float64": np.float64,
            "np_int64_x4": lambda x: np.int64(round(4 * x)) if float(4 * x).is_integer() else np.float64(4 * x),
            "np_float32": np.float32}[ct](v)


def _build_leaf(e):
    op = e[0]
    if _CTYPE[0] and op in ("m", "d"):
        terms = {k: _num(v) for k, v in (e[2] if op == "m" else e[1]).items()}
        return cls_of(e[1])(terms) if op == "m" else dict(terms)
    if op == "m":
        return cls_of(e[1])(e[2])
    if op == "acc":
        m = cls_of(e[1])()
        for k, c in e[2]:
            m[k] += c
        return m
    if op == "mc":
        m = cls_of(e[1])(e[2])
        m.add_constraint_eq_zero(e[3], lam=1)
        return m
    if op == "d":
        return dict(e[1])
    return e[1]


def _apply(op, l, r):
    """apply a (possibly in-place) operator to built operands; r is the exponent/divisor for ** and /."""
    if op == "neg":
        return -l
    if op == "**":
        return l ** r
    if op == "/":
        return l / r
    if op == "+":
        return l + r
    if op == "-":
        return l - r
    if op == "*":
        return l * r
    if op == "+=":
        l += r
    elif op == "-=":
        l -= r
    elif op == "*=":
        l *= r
    elif op == "**=":
        l **= r
    elif op == "/=":
        l /= r
    else:
        raise ValueError("bad op %r" % (op,))
    return l


def _run(e):
    op = e[0]
    if op in LEAVES:
        return _build_leaf(e)
    l = _run(e[1])
    if _base(op) in BIN:
        r = l if e[2] == "self" else _run(e[2])
    elif op == "neg":
        r = None
    else:
        r = e[2]
    return _apply(op, l, r)


def _items(m):
    return {k: v for k, v in dict.items(m)}


def _canonical_violation(m):
    """violations of canonical storage of a model object, or None."""
    okey = _okey()
    for k, v in dict.items(m):
        if not isinstance(k, tuple):
            return Fail("stored key %r is not a tuple" % (k,), key="non-tuple-key")
        if len(set(k)) != len(k):
            return Fail("stored key %r has a repeated label" % (k,), key="repeated-label")
        if list(k) != sorted(k, key=okey):
            return Fail("stored key %r is not sorted per ordering_key" % (k,), key="unsorted-key")
        if v == 0:
            return Fail("stored zero coefficient at key %r" % (k,), key="zero-coef")
    return None


def _repo_keyerror():
    """True when the KeyError being handled was raised from inside the repository (not by this harness)."""
    return _innermost_in_repo(sys.exc_info()[2])


def _check_expr(case, cancel_clause=False, check_type=False):
    spin = case["kind"] == "spin"
    e = case["expr"]
    rt = _rtype(e)
    if rt in ("num", "dict"):
        return Skip("expression has no model operand")
    vs = _labels_of(e)
    cl = _classify(e, vs, spin)
    if cancel_clause and cl != "cancel":
        return Skip("not a cancelling case")
    if not cancel_clause and cl == "cancel":
        return Skip("terms of degree > 2 cancel: covered by C05.deg2_cancelling")
    try:
        R = _run(case.get("run_expr", e))
    except KeyError as ex:
        if not _repo_keyerror():
            raise
        if cl == "raise":
            return None
        if cl == "cancel":
            return Fail("KeyError (%s) although the value of the expression has degree <= 2 "
                        "(the degree-3 terms cancel or have zero coefficient)" % (ex,),
                        key="keyerror-" + case.get("family", "cancelling"))
        return Fail("KeyError (%s) although no term of degree > 2 is ever formed" % (ex,), key="keyerror-unexpected")
    if cl == "raise":
        return Fail("no KeyError although the value of a %s-typed subexpression has a term of degree > 2; got %r"
                    % (rt, _items(R)), key="keyerror-missing")
    if not isinstance(R, dict) or type(R) is dict:
        return Fail("result is %s, not a model" % type(R).__name__, key="result-not-model")
    if check_type and type(R) is not cls_of(rt):
        return Fail("result type %s, model operand type %s" % (type(R).__name__, rt), key="result-type")
    got = _items(R)
    for x in assignments(vs, spin):
        want = _fval(e, x)
        have = peval(got, x)
        if not close(have, want):
            return Fail("at %r: result evaluates to %r, operands give %r; result %r" % (x, have, want, got),
                        key="function-differs", observed=have, required=want)
    bad = _canonical_violation(R)
    if bad:
        return bad
    want = _canon(e, vs, spin)
    if got != want or not (R == want) or (R != want):
        return Fail("result %r is not equal to the canonical form %r of the same function" % (got, want),
                    key="not-equal-canonical", observed=got, required=want)
    return None


# ---------------------------------------------------------------------------------------------
# case generation helpers
# ---------------------------------------------------------------------------------------------
_KEYS_CACHE = {}


def _keys(labels, maxlen, raw, spin, deg2):
    ck = (tuple(map(repr, labels)), maxlen, raw, spin, deg2)
    if ck not in _KEYS_CACHE:
        ks = raw_keys(labels, maxlen) if raw else canonical_keys(labels, maxlen)
        if deg2:
            ks = [k for k in ks if len(_reduce(k, spin)) <= 2]
        _KEYS_CACHE[ck] = ks
    return _KEYS_CACHE[ck]


def _rand_terms(rng, labels, maxlen, raw, spin, deg2=False, max_terms=3, coefs=COEFS):
    ks = _keys(labels, maxlen, raw, spin, deg2)
    t = rng.randint(0, max_terms)
    return {k: rng.choice(coefs) for k in rng.sample(ks, min(t, len(ks)))}


def _operand(rng, what, labels, spin, maxlen=3, max_terms=3):
    if what == "num":
        return ("n", rng.choice(NUMS))
    if what == "dict":
        return ("d", _rand_terms(rng, labels, maxlen, True, spin, max_terms=max_terms))
    deg2 = what in DEG2_TYPES
    raw = rng.random() < 0.4
    if rng.random() < 0.15:
        ks = _keys(labels, maxlen, True, spin, deg2)
        return ("acc", what, tuple((rng.choice(ks), rng.choice(COEFS)) for _ in range(rng.randint(0, 4))))
    return ("m", what, _rand_terms(rng, labels, maxlen if (raw or not deg2) else 2, raw, spin, deg2=deg2,
                                   max_terms=max_terms))


def _pool(rng, kinds, n):
    if any(k in MATRIX_TYPES for k in kinds):
        return ILBL[:n]
    start = rng.randrange(len(LBL))
    return [LBL[(start + i) % len(LBL)] for i in range(n)]


def _types(spin):
    return SPIN_TYPES if spin else BOOL_TYPES


def _kinds(spin):
    return list(_types(spin)) + ["dict", "num"]


def _kind(spin):
    return "spin" if spin else "bool"


def _gen_binary(ctx, ops, salt, exhaustive_types):
    # exhaustive small scope for the basic type pairs
    for T in exhaustive_types:
        spin = T in SPIN_TYPES
        labels = ILBL[:2] if T in MATRIX_TYPES else ['a', 0]
        ms = list(all_small_models(labels, 2, [-1, 2], 2))
        for op in ops:
            for a in ms:
                for b in ms:
                    yield {"kind": _kind(spin), "expr": (op, ("m", T, a), ("m", T, b))}
    # every ordered pair of operand kinds (model types, dict, number), incl. reflected forms (non-model on the left)
    rng = ctx.rng(salt)
    n = ctx.pick(5, 100)
    for spin in (False, True):
        for lk in _kinds(spin):
            for rk in _kinds(spin):
                if lk in ("dict", "num") and rk in ("dict", "num"):
                    continue
                for op in ops:
                    for _ in range(n):
                        labels = _pool(rng, (lk, rk), rng.choice([2, 3, 4]))
                        yield {"kind": _kind(spin), "expr": (op, _operand(rng, lk, labels, spin),
                                                             _operand(rng, rk, labels, spin))}


# ---------------------------------------------------------------------------------------------
# clauses: arithmetic identities
# ---------------------------------------------------------------------------------------------
def _gen_add_sub(ctx):
    return _gen_binary(ctx, ("+", "-"), "c05.addsub", ["PUBO", "PUSO", "QUSO", "PUBOMatrix"])


@clause("C05.add_sub", "C05", gen=_gen_add_sub, nontrivial=_nonconstant)
def check_add_sub(case):
    """(a+b)(x) = a(x)+b(x) and (a-b)(x) = a(x)-b(x) on the full truth table, for operand pairs drawn from the model
    types of one kind, plain dicts (raw keys allowed) and numbers, including the reflected forms dict/number op model;
    the result is stored canonically and equals the canonical form of the same function. For a degree-2 result type
    a KeyError is required exactly when the result has a term of degree > 2. Non-trivial: result is non-constant."""
    return _check_expr(case)


def _gen_mul(ctx):
    return _gen_binary(ctx, ("*",), "c05.mul", ["PUBO", "PUSO", "QUBO", "QUSO", "PUSOMatrix"])


@clause("C05.mul", "C05", gen=_gen_mul, nontrivial=_nonconstant)
def check_mul(case):
    """(a*b)(x) = a(x)*b(x) on the full truth table with boolean idempotence / spin squaring-to-one, for all operand
    kind pairs incl. reflected number*model and dict*model; canonical result. Degree-2 result types: KeyError exactly
    when the product has a term of degree > 2 (cases where degree-3 products cancel are in C05.deg2_cancelling).
    Non-trivial: result is non-constant."""
    return _check_expr(case)


def _gen_unary(ctx):
    for T in ("PUBO", "PUSO", "QUBO", "QUSOMatrix"):
        spin = T in SPIN_TYPES
        labels = ILBL[:3] if T in MATRIX_TYPES else ['b', 0, ('t', 1)]
        for a in all_small_models(labels, 2, [-1, 2, 0.5], 2):
            leaf = ("m", T, a)
            for k in (1, 2, 3):
                yield {"kind": _kind(spin), "expr": ("**", leaf, k)}
            if len(a) <= 1 or max(abs(v) for v in a.values()) <= 1:
                for k in (4, 5, 6, 7, 9, 10, 11):         # larger exponents (odd ones included) on models with small values
                    yield {"kind": _kind(spin), "expr": ("**", leaf, k)}
                    yield {"kind": _kind(spin), "expr": ("**=", leaf, k)}
            yield {"kind": _kind(spin), "expr": ("neg", leaf)}
            yield {"kind": _kind(spin), "expr": ("/", leaf, 2)}
    rng = ctx.rng("c05.unary")
    n = ctx.pick(25, 500)
    for spin in (False, True):
        for T in _types(spin):
            for _ in range(n):
                labels = _pool(rng, (T,), rng.choice([2, 3, 4]))
                leaf = _operand(rng, T, labels, spin, max_terms=4)
                yield {"kind": _kind(spin), "expr": ("**", leaf, rng.choice([1, 2, 3, 4, 5] + ctx.pick([], [6, 7])))}
                yield {"kind": _kind(spin), "expr": ("neg", leaf)}
                yield {"kind": _kind(spin), "expr": ("/", leaf, rng.choice(DIVS))}


@clause("C05.pow_neg_div", "C05", gen=_gen_unary, nontrivial=_nonconstant)
def check_unary(case):
    """(a**k)(x) = a(x)**k for positive integer k, (-a)(x) = -a(x), (a/c)(x) = a(x)/c for nonzero scalar c, for every
    model type; canonical result; KeyError for a degree-2 type exactly when a**k has a term of degree > 2.
    Non-trivial: result is non-constant."""
    return _check_expr(case)


def _gen_inplace(ctx):
    rng = ctx.rng("c05.inplace")
    for T in ("PUBO", "PUSO", "QUBOMatrix", "QUSO"):
        spin = T in SPIN_TYPES
        labels = ILBL[:2] if T in MATRIX_TYPES else [('t', 1), 'a']
        ms = list(all_small_models(labels, 2, [-1, 2], 2))
        for op in IBIN:
            for a in ms:
                for b in ms:
                    yield {"kind": _kind(spin), "expr": (op, ("m", T, a), ("m", T, b))}
    n = ctx.pick(4, 80)
    for spin in (False, True):
        for lk in _types(spin):
            for rk in _kinds(spin):
                for op in IBIN:
                    for _ in range(n):
                        labels = _pool(rng, (lk, rk), rng.choice([2, 3, 4]))
                        yield {"kind": _kind(spin), "expr": (op, _operand(rng, lk, labels, spin),
                                                             _operand(rng, rk, labels, spin))}
            for _ in range(3 * n):
                labels = _pool(rng, (lk,), rng.choice([2, 3]))
                yield {"kind": _kind(spin), "expr": ("**=", _operand(rng, lk, labels, spin), rng.choice([1, 2, 3]))}
                yield {"kind": _kind(spin), "expr": ("/=", _operand(rng, lk, labels, spin), rng.choice(DIVS))}


@clause("C05.inplace", "C05", gen=_gen_inplace, nontrivial=_nonconstant)
def check_inplace(case):
    """In-place forms a += b, a -= b, a *= b, a **= k, a /= c (a a model of any type; b model, dict or number): after
    the statement a denotes a(x) op b(x) on the full truth table, stored canonically and of a's type. Degree-2 a:
    KeyError exactly when the result has a term of degree > 2. Non-trivial: result is non-constant."""
    return _check_expr(case, check_type=True)


def _gen_aliased(ctx):
    rng = ctx.rng("c05.alias")
    n = ctx.pick(20, 300)
    for spin in (False, True):
        for T in _types(spin):
            labels = ILBL[:3] if T in MATRIX_TYPES else ['a', 0, ('t', 1)]
            fixed = [{}, {(): 2}, {(labels[0],): 1}, {(labels[0],): 1, (labels[1],): 2},
                     {(labels[0], labels[1]): -1, (): 0.5}]
            rnd = [_rand_terms(rng, labels, 2, False, spin, deg2=T in DEG2_TYPES) for _ in range(n)]
            for terms in fixed + rnd:
                for op in ("+", "-", "*", "+=", "*="):
                    yield {"kind": _kind(spin), "expr": (op, ("m", T, terms), "self")}
    # a -= a last (the runner records only the first 25 failures of a clause)
    for spin in (False, True):
        for T in _types(spin):
            labels = ILBL[:3] if T in MATRIX_TYPES else ['a', 0, ('t', 1)]
            for terms in ({}, {(): 2}, {(labels[0],): 1}, {(labels[0],): 1, (labels[1], labels[2]): 2}):
                yield {"kind": _kind(spin), "expr": ("-=", ("m", T, terms), "self")}


@clause("C05.aliased_operands", "C05", gen=_gen_aliased,
        nontrivial=lambda c: any(k for k in c["expr"][1][2]))
def check_aliased(case):
    """The identities hold when both operands are the same object: a+a = 2a, a-a = 0, a*a = a^2 and the in-place
    forms a += a, a -= a, a *= a (the statement quantifies over all operand pairs, which includes a, a).
    Non-trivial: a has a non-constant term."""
    return _check_expr(case, check_type=True)


def _rand_tree(rng, depth, kinds, labels, spin, need_model):
    """random expression; every operator node has a model-valued operand (so it is model-valued itself)."""
    if depth == 0 or (not need_model and rng.random() < 0.4):
        if need_model:
            what = rng.choice([k for k in kinds if k not in ("dict", "num")])
        else:
            what = rng.choice(kinds)
        return _operand(rng, what, labels, spin, max_terms=2)
    op = rng.choice(["+", "-", "*", "+", "-", "*", "**", "neg", "/", "+=", "-=", "*=", "**=", "/="])
    if op == "neg":
        return (op, _rand_tree(rng, depth - 1, kinds, labels, spin, True))
    if op in ("**", "**="):
        return (op, _rand_tree(rng, depth - 1, kinds, labels, spin, True), rng.choice([1, 2, 2, 3]))
    if op in ("/", "/="):
        return (op, _rand_tree(rng, depth - 1, kinds, labels, spin, True), rng.choice(DIVS))
    dl, dr = depth - 1, rng.randint(0, depth - 1)
    if rng.random() < 0.5:
        dl, dr = dr, dl
    left_model = op in IBIN or rng.random() < 0.6
    return (op, _rand_tree(rng, dl, kinds, labels, spin, left_model),
            _rand_tree(rng, dr, kinds, labels, spin, not left_model))


def _gen_trees(ctx):
    rng = ctx.rng("c05.trees")
    n = ctx.pick(6000, 100000)
    made = 0
    while made < n:
        spin = rng.random() < 0.5
        ts = list(_types(spin))
        fam = rng.random()
        if fam < 0.45:        # labelled, no degree-2 types: arbitrary trees
            kinds = [t for t in ts if t not in MATRIX_TYPES and t not in DEG2_TYPES] + ["dict", "num"]
        elif fam < 0.6:       # matrix types (integer labels)
            kinds = [t for t in ts if t in MATRIX_TYPES and t not in DEG2_TYPES] + ["dict", "num"]
        elif fam < 0.8:       # everything labelled, incl. degree-2 types
            kinds = [t for t in ts if t not in MATRIX_TYPES] + ["dict", "num"]
        else:                 # all ten-type family of that kind on integer labels
            kinds = ts + ["dict", "num"]
        labels = _pool(rng, kinds, rng.choice([2, 3, 3, 4]))
        e = _rand_tree(rng, rng.choice([2, 2, 3]), kinds, labels, spin, True)
        if _rtype(e) in ("num", "dict"):
            continue
        vs = _labels_of(e)
        try:
            big = max(abs(_fval(e, x)) for x in assignments(vs, spin))
        except OverflowError:
            continue
        if big > 1e6:
            continue
        made += 1
        yield {"kind": _kind(spin), "expr": e}


def _tree_nontrivial(case):
    e = case["expr"]
    return _nonconstant(case) and any(c[0] not in LEAVES for c in _children(e))


@clause("C05.expr_trees", "C05", gen=_gen_trees, nontrivial=_tree_nontrivial)
def check_trees(case):
    """Expression trees of depth 2-3 mixing + - * ** unary- /scalar, their reflected and in-place forms, over models
    of all types of one kind, dicts and numbers: the final model denotes the pointwise-computed function on the full
    truth table, is stored canonically, equals the canonical form, and has the type of the (leftmost) model operand.
    Trees in which a degree-2-typed subexpression has a term of degree > 2 must raise KeyError. Non-trivial: nested
    and non-constant."""
    return _check_expr(case, check_type=True)


def _thaw(o):
    """cases are literals: a frozenset label is written ('__fs__', members...)"""
    if isinstance(o, tuple):
        if o and o[0] == '__fs__':
            return frozenset(_thaw(x) for x in o[1:])
        return tuple(_thaw(x) for x in o)
    if isinstance(o, list):
        return [_thaw(x) for x in o]
    if isinstance(o, dict):
        return {_thaw(k): _thaw(v) for k, v in o.items()}
    return o


FS_LBL = [('__fs__', 0, 1), ('__fs__', 0, 1, 2), ('__fs__', 5), ('__fs__', 1, 2), ('__fs__', 2)]


def _gen_partial_order(ctx):
    rng = ctx.rng("c05.fslabels")
    for spin in (False, True):
        for T in _types(spin):
            if T in MATRIX_TYPES:
                continue
            deg2 = T in DEG2_TYPES
            for combo in itertools.combinations(FS_LBL, 2 if deg2 else 3):
                perms = list(itertools.permutations(combo))
                for p, q in zip(perms, perms[1:] + perms[:1]):
                    yield {"kind": _kind(spin), "expr": ("-", ("m", T, {p: 3, (p[0],): 1}), ("m", T, {q: 3, (q[-1],): -2}))}
            for _ in range(ctx.pick(10, 200)):
                labels = rng.sample(FS_LBL, 3)
                yield {"kind": _kind(spin), "expr": (rng.choice(["+", "-", "*"]),
                                                     _operand(rng, T, labels, spin, maxlen=2, max_terms=2),
                                                     _operand(rng, rng.choice([T, "dict"]), labels, spin, maxlen=2, max_terms=2))}


def _gen_tuple_labels(ctx):
    # tuple labels (grid coordinates): every pair (i, j) / (j, i) over range(6), written in both orders
    pairs = [((i, j), (j, i)) for i in range(6) for j in range(i + 1, 6)]
    for spin in (False, True):
        for T in _types(spin):
            if T in MATRIX_TYPES:
                continue
            for a, b in pairs:
                yield {"kind": _kind(spin), "expr": ("-", ("m", T, {(a, b): 3, (a,): 1}), ("m", T, {(b, a): 3, (b,): -2}))}
                yield {"kind": _kind(spin), "expr": ("*", ("m", T, {(a,): 1}), ("m", T, {(b,): 1}))}
                yield {"kind": _kind(spin), "expr": ("*", ("m", T, {(b,): 1}), ("m", T, {(a,): 1}))}
    rng = ctx.rng("c05.tuplelabels")
    labs = [(i, j) for i in range(4) for j in range(4) if i != j] + [(0, 'a'), ('a', 0), (1, 1)]
    for _ in range(ctx.pick(60, 1500)):
        spin = rng.random() < 0.5
        T = rng.choice([t for t in _types(spin) if t not in MATRIX_TYPES])
        labels = rng.sample(labs[:12], 3)
        yield {"kind": _kind(spin), "expr": (rng.choice(["+", "-", "*"]), _operand(rng, T, labels, spin, maxlen=2, max_terms=2),
                                             _operand(rng, rng.choice([T, "dict"]), labels, spin, maxlen=2, max_terms=2))}


@clause("C05.tuple_labels", "C05", gen=_gen_tuple_labels, nontrivial=_nonconstant)
def check_tuple_labels(case):
    """the arithmetic contract over labels that are tuples (e.g. grid coordinates), in particular labels that are
    permutations of each other such as (0, 1) and (1, 0): one stored key per monomial whatever order the labels were
    written in, models of one function compare equal. Non-trivial: result is non-constant."""
    return _check_expr(case)


@clause("C05.partially_ordered_labels", "C05", gen=_gen_partial_order, nontrivial=_nonconstant)
def check_partial_order(case):
    """the arithmetic contract of C05.add_sub / C05.mul over hashable labels whose own `<` is only a partial order
    (frozensets: `<` is the subset relation): the same monomial written with its labels in any order must land
    under one stored key, so that models denoting the same function compare equal and their difference is empty.
    Non-trivial: result is non-constant."""
    return _check_expr(dict(case, expr=_thaw(case["expr"])))


def _gen_numeric_types(ctx):
    rng = ctx.rng("c05.ctypes")
    n = ctx.pick(8, 150)
    for ctype in ("fraction", "np_float64", "np_int64_x4", "np_float32"):
        for spin in (False, True):
            kinds = list(_types(spin)) + ["dict"]
            for lk in kinds:
                for rk in kinds:
                    if lk == "dict" and rk == "dict":
                        continue
                    for op in ("+", "-", "*"):
                        for _ in range(n // 8 + 1):
                            labels = _pool(rng, (lk, rk), rng.choice([2, 3]))
                            l = _operand(rng, lk, labels, spin, maxlen=2, max_terms=2)
                            r = _operand(rng, rk, labels, spin, maxlen=2, max_terms=2)
                            if l[0] not in ("m", "d") or r[0] not in ("m", "d"):
                                continue
                            yield {"kind": _kind(spin), "expr": (op, l, r), "ctype": ctype}


@clause("C05.numeric_types", "C05", gen=_gen_numeric_types, nontrivial=_nonconstant)
def check_numeric_types(case):
    """the arithmetic contract of C05.add_sub / C05.mul for real coefficients that are not int / float instances
    (fractions.Fraction, numpy.float64, numpy.float32, numpy.int64): same function on the full truth table, canonical
    storage, no zero coefficients. The oracle evaluates the operands as written and scales where the coefficient
    type scales (np_int64_x4 stores 4*v). Non-trivial: result is non-constant."""
    ct = case["ctype"]
    scale = 4 if ct == "np_int64_x4" else 1
    e = case["expr"]

    def scaled(leaf):
        if leaf[0] == "m":
            return ("m", leaf[1], {k: _exact(ct, v) * scale for k, v in leaf[2].items()})
        return ("d", {k: _exact(ct, v) * scale for k, v in leaf[1].items()})
    ref = (e[0], scaled(e[1]), scaled(e[2]))
    _CTYPE[0] = ct
    try:
        # run the library on the typed coefficients, judge against the reference written with plain numbers
        return _check_expr({"kind": case["kind"], "expr": ref, "run_expr": e})
    finally:
        _CTYPE[0] = None


def _exact(ct, v):
    import fractions
    if ct == "fraction":
        return fractions.Fraction(v).limit_denominator(64)
    if ct == "np_float32":
        import numpy as np
        return float(np.float32(v))
    return v


NUM_LBL = [1, 2.5, 0, -0.5]      # numeric labels of two types: native `<` and ordering_key disagree on them


def _gen_mixed_numeric(ctx):
    # the same monomial written with its labels in either order, for every labelled model type
    for spin in (False, True):
        for T in _types(spin):
            if T in MATRIX_TYPES:
                continue
            for a, b in itertools.permutations(NUM_LBL, 2):
                for op in ("+", "-", "*"):
                    yield {"kind": _kind(spin), "expr": (op, ("m", T, {(a, b): 3, (a,): 1}), ("m", T, {(b, a): 3, (b,): -2}))}
    rng = ctx.rng("c05.numlabels")
    n = ctx.pick(25, 600)
    for spin in (False, True):
        kinds = [t for t in _types(spin) if t not in MATRIX_TYPES] + ["dict"]
        for lk in kinds:
            for rk in kinds:
                if lk == "dict" and rk == "dict":
                    continue
                for op in ("+", "-", "*"):
                    for _ in range(n // 5 + 1):
                        labels = rng.sample(NUM_LBL, rng.choice([2, 3]))
                        yield {"kind": _kind(spin), "expr": (op, _operand(rng, lk, labels, spin, maxlen=2, max_terms=2),
                                                             _operand(rng, rk, labels, spin, maxlen=2, max_terms=2))}


@clause("C05.mixed_numeric_labels", "C05", gen=_gen_mixed_numeric, nontrivial=_nonconstant)
def check_mixed_numeric(case):
    """the arithmetic contract of C05.add_sub / C05.mul over labels that are numbers of different types (int and
    float), where Python's native order and qubovert's ordering_key disagree: the same monomial written with its
    labels in either order must land under one canonical key (sorted per ordering_key), so that models denoting
    the same function compare equal. Non-trivial: result is non-constant."""
    return _check_expr(case)


# ---------------------------------------------------------------------------------------------
# degree-2 types: KeyError exactly when degree > 2
# ---------------------------------------------------------------------------------------------
def _gen_deg2(ctx):
    rng = ctx.rng("c05.deg2")
    for T in DEG2_TYPES:
        spin = T in SPIN_TYPES
        labels = ILBL[:3] if T in MATRIX_TYPES else ['a', 0, ('t', 1)]
        ms = list(all_small_models(labels, 2, [1], 2))           # positive coefficients: nothing can cancel
        hi = "PUSO" if spin else "PUBO"
        for a in ms:
            for b in ms:
                yield {"kind": _kind(spin), "expr": ("*", ("m", T, a), ("m", T, b))}
            for k in (2, 3):
                yield {"kind": _kind(spin), "expr": ("**", ("m", T, a), k)}
        tri = tuple(labels)
        for a in ms[:12]:
            for b in ({tri: 1}, {tri: 2, (labels[0],): 1}, {(labels[2], labels[0], labels[0], labels[1]): 1},
                      {(labels[0], labels[1]): 1}, {(labels[1], labels[1], labels[0], labels[2], labels[2]): 1}):
                for op in ("+", "-", "*", "+=", "-=", "*="):
                    yield {"kind": _kind(spin), "expr": (op, ("m", T, a), ("d", b))}
                    yield {"kind": _kind(spin), "expr": (op, ("m", T, a), ("m", hi, b))}
                for op in ("+", "-", "*"):
                    yield {"kind": _kind(spin), "expr": (op, ("d", b), ("m", T, a))}
                    yield {"kind": _kind(spin), "expr": (op, ("m", hi, b), ("m", T, a))}
    n = ctx.pick(60, 1200)
    for T in DEG2_TYPES:
        spin = T in SPIN_TYPES
        others = _kinds(spin)
        for _ in range(n):
            rk, ck = rng.choice(others), rng.choice(others)
            labels = _pool(rng, (T, rk, ck), rng.choice([3, 4]))
            a = _operand(rng, T, labels, spin, max_terms=3)
            b = _operand(rng, rk, labels, spin, maxlen=4, max_terms=3)
            op = rng.choice(BIN + IBIN)
            yield {"kind": _kind(spin), "expr": (op, a, b)}
            if op in BIN:
                yield {"kind": _kind(spin), "expr": (op, b, a) if rk in ("dict", "num") else (op, a, b)}
            yield {"kind": _kind(spin), "expr": (rng.choice(["**", "**="]), a, rng.choice([2, 3]))}
            # a short chain:  (a op b) op2 c
            c = _operand(rng, ck, labels, spin, max_terms=2)
            yield {"kind": _kind(spin), "expr": (rng.choice(BIN), (op, a, b), c)}


def _deg2_nontrivial(case):
    e, spin = case["expr"], case["kind"] == "spin"
    vs = _labels_of(e)
    cl = _classify(e, vs, spin)
    return cl == "raise" or (cl == "clean" and _deg(_canon(e, vs, spin)) == 2)


@clause("C05.deg2_keyerror", "C05", gen=_gen_deg2, nontrivial=_deg2_nontrivial)
def check_deg2(case):
    """Degree-2 result types (QUBO, QUSO, QUBOMatrix, QUSOMatrix): an operation raises KeyError when its result has a
    term of degree > 2 after idempotence/parity reduction, and otherwise (every formed term has degree <= 2) does not
    raise and satisfies the arithmetic identity, canonical form and type. Non-trivial: KeyError is required, or the
    result has degree exactly 2."""
    return _check_expr(case, check_type=True)


def _gen_cancel(ctx):
    rng = ctx.rng("c05.cancel")
    for T in DEG2_TYPES:
        spin = T in SPIN_TYPES
        a, b, c = ILBL[:3] if T in MATRIX_TYPES else ['a', 'b', 'c']
        k = _kind(spin)
        # (ab - ac)(b + c): boolean = ab - ac ; spin = 0.  All pairwise products abc cancel.
        yield {"kind": k, "family": "cancelling-products",
               "expr": ("*", ("m", T, {(a, b): 1, (a, c): -1}), ("m", T, {(b,): 1, (c,): 1}))}
        yield {"kind": k, "family": "cancelling-products",
               "expr": ("*=", ("m", T, {(a, b): 1, (a, c): -1}), ("m", T, {(b,): 1, (c,): 1}))}
        yield {"kind": k, "family": "cancelling-products",
               "expr": ("*", ("d", {(b,): 1, (c,): 1}), ("m", T, {(a, b): 1, (a, c): -1}))}
        # dict operand whose raw keys denote cancelling degree-3 terms
        yield {"kind": k, "family": "cancelling-dict-terms",
               "expr": ("+", ("m", T, {(a,): 1}), ("d", {(a, b, c): 1, (c, b, a): -1, (b,): 2}))}
        yield {"kind": k, "family": "cancelling-dict-terms",
               "expr": ("-", ("d", {(a, b, c): 1, (c, b, a): -1, (b,): 2}), ("m", T, {(a,): 1}))}
        # zero-coefficient degree-3 term in a dict operand
        yield {"kind": k, "family": "zero-coef-term",
               "expr": ("+", ("m", T, {(a,): 1}), ("d", {(a, b, c): 0, (b,): 2}))}
        yield {"kind": k, "family": "zero-coef-term",
               "expr": ("*", ("m", T, {(a,): 1}), ("d", {(a, b, c): 0, (b,): 2}))}
    n = ctx.pick(40, 400)
    for T in DEG2_TYPES:
        spin = T in SPIN_TYPES
        found = tries = 0
        while found < n and tries < 60 * n:
            tries += 1
            labels = _pool(rng, (T,), 3)
            x = ("m", T, _rand_terms(rng, labels, 2, False, spin, coefs=[1, -1], max_terms=3))
            y = ("m", T, _rand_terms(rng, labels, 2, False, spin, coefs=[1, -1], max_terms=3))
            e = ("*", x, y)
            if _classify(e, _labels_of(e), spin) == "cancel":
                found += 1
                yield {"kind": _kind(spin), "family": "cancelling-products", "expr": e}


@clause("C05.deg2_cancelling", "C05", gen=_gen_cancel, nontrivial=lambda c: True if c.get("family") else False)
def check_cancel(case):
    """Degree-2 result types, boundary of the KeyError rule: the value of the expression has degree <= 2, but terms of
    degree 3 appear among the pairwise products / dict terms and cancel (or carry a zero coefficient). The statement
    admits KeyError only for trees whose value has degree > 2, so the operation must succeed and satisfy the identity.
    Non-trivial: every case (each is a cancelling case by construction; others are skipped)."""
    return _check_expr(case, cancel_clause=True, check_type=True)


# ---------------------------------------------------------------------------------------------
# value functions
# ---------------------------------------------------------------------------------------------
def _value_targets(spin):
    """(fn, type, maxlen, raw) combinations within each function's documented contract."""
    p, q = ("puso_value", "quso_value") if spin else ("pubo_value", "qubo_value")
    out = [(p, "dict", 4, True), (q, "dict", 2, True)]
    for T in _types(spin):
        d2 = T in DEG2_TYPES
        out.append((p, T, 4, True))
        out.append(("method", T, 4, True))
        if d2:
            out.append((q, T, 4, True))
    return out


def _value_terms(rng, fn, T, maxlen, spin, labels):
    d2 = T in DEG2_TYPES
    coefs = COEFS + ([0] if T == "dict" else [])
    return _rand_terms(rng, labels, maxlen, True, spin, deg2=d2, max_terms=4, coefs=coefs)


def _gen_values(ctx):
    rng = ctx.rng("c05.values")
    for spin in (False, True):
        p, q = ("puso_value", "quso_value") if spin else ("pubo_value", "qubo_value")
        # exhaustive: every raw key of length <= 3 (<= 2 for the quadratic functions) over two labels, single term
        for k in raw_keys(['a', 0], 3):
            yield {"fn": p, "type": "dict", "terms": {k: 2}, "extra": None, "seq": None}
            if len(k) <= 2:
                yield {"fn": q, "type": "dict", "terms": {k: 2, (): 1}, "extra": None, "seq": None}
        n = ctx.pick(150, 3000)
        for fn, T, maxlen, raw in _value_targets(spin):
            for _ in range(n):
                labels = _pool(rng, (T,), rng.choice([1, 2, 3, 4]))
                terms = _value_terms(rng, fn, T, maxlen, spin, labels)
                extra = rng.choice([None, None, 3 if T in MATRIX_TYPES else 'zz'])
                yield {"fn": fn, "type": T, "terms": terms, "extra": extra, "seq": None}


def _gen_value_seqs(ctx):
    rng = ctx.rng("c05.valueseq")
    n = ctx.pick(100, 2000)
    for spin in (False, True):
        for fn, T, maxlen, raw in _value_targets(spin):
            for _ in range(n):
                labels = ILBL[:rng.choice([1, 2, 3, 4])]
                terms = _value_terms(rng, fn, T, maxlen, spin, labels)
                yield {"fn": fn, "type": T, "terms": terms, "extra": rng.choice([None, 4]),
                       "seq": rng.choice(["list", "tuple"])}


def _value_nontrivial(case):
    return any(k and v for k, v in case["terms"].items())


def _check_value(case):
    q = qv()
    fn, T, terms = case["fn"], case["type"], case["terms"]
    spin = fn in ("puso_value", "quso_value") or T in SPIN_TYPES
    if fn in ("qubo_value", "quso_value") and T == "dict" and any(len(k) > 2 for k in terms):
        return Skip("qubo_value/quso_value assume keys of length <= 2")
    obj = dict(terms) if T == "dict" else cls_of(T)(terms)
    vs = []
    for k in terms:
        for i in k:
            if i not in vs:
                vs.append(i)
    if case.get("extra") is not None and case["extra"] not in vs:
        vs.append(case["extra"])
    if case.get("seq"):
        if any(not isinstance(i, int) or i < 0 for i in vs):
            return Skip("sequence assignments need non-negative integer labels")
        size = max(vs + [-1]) + 1
    for x in assignments(vs, spin):
        want = peval(terms, x)
        if case.get("seq"):
            fill = 1
            arg = [x.get(i, fill) for i in range(size)]
            arg = tuple(arg) if case["seq"] == "tuple" else arg
        else:
            arg = dict(x)
        before = repr(arg)
        got = obj.value(arg) if fn == "method" else getattr(q.utils, fn)(arg, obj)
        if not close(got, want):
            return Fail("%s%s at %r: got %r, direct evaluation %r" % (
                fn, "" if T == "dict" else " on " + T, arg, got, want), key="value-differs:" + fn,
                observed=got, required=want)
        if repr(arg) != before:
            return Fail("assignment %s mutated to %r" % (before, arg), key="assignment-mutated")
    return None


@clause("C05.value_functions", "C05", gen=_gen_values, nontrivial=_value_nontrivial)
def check_values(case):
    """pubo_value / puso_value (any dict with raw keys: unsorted, repeated labels; every model type of the kind),
    qubo_value / quso_value (dicts with raw keys of length <= 2; the degree-2 model types) and the .value method of
    every model type equal direct evaluation of the polynomial (common.peval on the defining term dict) for every
    dict assignment over the variables (boolean 0/1, spin 1/-1), also when the assignment has extra entries.
    Non-trivial: a non-constant term with non-zero coefficient."""
    return _check_value(case)


@clause("C05.value_sequences", "C05", gen=_gen_value_seqs, nontrivial=_value_nontrivial)
def check_value_seqs(case):
    """Same as C05.value_functions for list and tuple assignments (x[i] = value of the variable labelled i), for
    integer-labelled dicts and every model type incl. the four Matrix types. Non-trivial: a non-constant term."""
    return _check_value(case)


# ---------------------------------------------------------------------------------------------
# canonical storage: same function => equal
# ---------------------------------------------------------------------------------------------
def _gen_canonical(ctx):
    rng = ctx.rng("c05.canon")
    n = ctx.pick(40, 800)
    for spin in (False, True):
        ts = _types(spin)
        # exhaustive: every raw key of length <= 4 over three mixed labels, one term, every labelled model type
        for T in ts:
            labels = ILBL[:3] if T in MATRIX_TYPES else ['a', 0, ('t', 1)]
            for k in raw_keys(labels, ctx.pick(3, 4)):
                if T in DEG2_TYPES and len(_reduce(k, spin)) > 2:
                    continue
                yield {"kind": _kind(spin), "law": "constructor", "lhs": ("m", T, {k: 2}),
                       "rhs": ("acc", T, ((_reduce(k, spin), 2),))}
        for T in ts:
            d2 = T in DEG2_TYPES
            for _ in range(n):
                T2 = rng.choice(ts)
                labels = _pool(rng, (T, T2), rng.choice([2, 3, 4]))
                deg = 2
                a = ("m", T, _rand_terms(rng, labels, deg if d2 else 3, True, spin, deg2=d2))
                b = ("m", T2, _rand_terms(rng, labels, deg, True, spin, deg2=True, max_terms=2))
                c = ("m", T, _rand_terms(rng, labels, 1, False, spin, max_terms=2))
                k = _kind(spin)
                # raw constructor vs accumulation of the canonical form in another order
                can = _canon(a, _labels_of(a), spin)
                items = list(can.items())
                rng.shuffle(items)
                yield {"kind": k, "law": "constructor", "lhs": a,
                       "rhs": ("acc", T2 if not (T2 in DEG2_TYPES and _deg(can) > 2) else T,
                               tuple((tuple(reversed(kk)), v) for kk, v in items))}
                # accumulate-and-cancel history: adding then removing a term leaves no trace
                ks = _keys(labels, 3, True, spin, d2)
                junk = rng.choice(ks)
                yield {"kind": k, "law": "cancel-history", "lhs": a,
                       "rhs": ("acc", T, tuple(a[2].items()) + ((junk, 0.5), (tuple(reversed(junk)), -0.5)))}
                yield {"kind": k, "law": "commute+", "lhs": ("+", a, b), "rhs": ("+", b, a)}
                yield {"kind": k, "law": "commute*", "lhs": ("*", a, c), "rhs": ("*", c, a)}
                yield {"kind": k, "law": "distribute", "lhs": ("*", ("+", a, b), c),
                       "rhs": ("+", ("*", a, c), ("*", b, c))}
                yield {"kind": k, "law": "sub=add-neg", "lhs": ("-", a, b), "rhs": ("+", a, ("neg", b))}
                yield {"kind": k, "law": "double", "lhs": ("+", a, "self"), "rhs": ("*", ("n", 2), a)}
                yield {"kind": k, "law": "square", "lhs": ("**", c, 2), "rhs": ("*", c, c)}
                yield {"kind": k, "law": "halve", "lhs": ("/", a, 2), "rhs": ("*", a, ("n", 0.5))}
                yield {"kind": k, "law": "a+b-b", "lhs": ("-", ("+", a, b), b), "rhs": a}
                yield {"kind": k, "law": "inplace=copying", "lhs": ("+=", a, b), "rhs": ("+", a, b)}


def _canon_nontrivial(case):
    return _nonconstant({"kind": case["kind"], "expr": case["lhs"]})


@clause("C05.canonical_equal", "C05", gen=_gen_canonical, nontrivial=_canon_nontrivial)
def check_canonical(case):
    """Two models that denote the same function (built by different routes: raw-key constructor vs accumulation of
    the reduced keys in another order, add-then-remove histories, both sides of an algebraic law, in-place vs copying
    form) are each stored canonically (keys sorted per ordering_key, no repeated labels [spin: odd multiplicity only],
    no zero coefficient) and compare equal with ==, across model types. Non-trivial: the function is non-constant."""
    spin = case["kind"] == "spin"
    lhs, rhs = case["lhs"], case["rhs"]
    vs = _labels_of(("+", lhs, rhs))
    for e in (lhs, rhs):
        if _classify(e, vs, spin) != "clean":
            return Skip("a side forms terms of degree > 2 in a degree-2 type")
    tl = [_fval(lhs, x) for x in assignments(vs, spin)]
    tr = [_fval(rhs, x) for x in assignments(vs, spin)]
    if tl != tr:
        raise AssertionError("harness: the two sides of %r denote different functions" % (case,))
    L, R = _run(lhs), _run(rhs)
    for side, m in (("lhs", L), ("rhs", R)):
        bad = _canonical_violation(m)
        if bad:
            bad.msg = side + ": " + bad.msg
            return bad
    if not (L == R) or not (R == L) or (L != R):
        return Fail("same function, but %r != %r" % (_items(L), _items(R)), key="equal-functions-unequal-models",
                    observed=_items(L), required=_items(R))
    return None


# ---------------------------------------------------------------------------------------------
# operands unchanged, result type
# ---------------------------------------------------------------------------------------------
def _gen_operands(ctx):
    rng = ctx.rng("c05.operands")
    n = ctx.pick(12, 240)
    for spin in (False, True):
        for lk in _kinds(spin):
            for rk in _kinds(spin):
                if lk in ("dict", "num") and rk in ("dict", "num"):
                    continue
                for op in BIN:
                    for i in range(n):
                        labels = _pool(rng, (lk, rk), rng.choice([2, 3]))
                        a = _operand(rng, lk, labels, spin, max_terms=3)
                        b = _operand(rng, rk, labels, spin, max_terms=3)
                        yield {"kind": _kind(spin), "expr": (op, a, b)}
        for T in _types(spin):
            for i in range(3 * n):
                labels = _pool(rng, (T,), rng.choice([2, 3]))
                a = _operand(rng, T, labels, spin, max_terms=3)
                yield {"kind": _kind(spin), "expr": ("**", a, rng.choice([1, 2, 3]))}
                yield {"kind": _kind(spin), "expr": ("neg", a)}
                yield {"kind": _kind(spin), "expr": ("/", a, rng.choice(DIVS))}
        # constrained models: the bookkeeping (constraints, ancillas, mapping) of an operand must stay put as well
        PC = "PCSO" if spin else "PCBO"
        for i in range(4 * n):
            labels = _pool(rng, (PC,), 3)
            a = ("mc", PC, _rand_terms(rng, labels, 3, False, spin), {(labels[0],): 1, (labels[1],): -1})
            b = _operand(rng, rng.choice(_kinds(spin)[:3] + ["dict", "num"]), labels, spin)
            op = rng.choice(BIN)
            yield {"kind": _kind(spin), "expr": (op, a, b)}
            yield {"kind": _kind(spin), "expr": (op, b, a)}
            yield {"kind": _kind(spin), "expr": ("neg", a)}
            yield {"kind": _kind(spin), "expr": ("**", a, 2)}


def _operands_nontrivial(case):
    e = case["expr"]
    return any(ch[0] in MODEL_LEAVES and any(k for k in _leaf_keys(ch)) for ch in _children(e))


@clause("C05.operands_unchanged_type", "C05", gen=_gen_operands, nontrivial=_operands_nontrivial)
def check_operands(case):
    """The copying operators a+b, a-b, a*b (incl. reflected dict/number op model), a**k, -a, a/c leave both operands
    unchanged (terms and all bookkeeping: mapping, variables, degree, constraints, name - snapshot before/after, also
    when the operation raises KeyError for a degree-2 type) and return a new object whose type is the type of the
    model operand (the left one when both are models). Non-trivial: a model operand has a non-constant term."""
    e = case["expr"]
    op = e[0]
    l = _build_leaf(e[1])
    if op in BIN:
        r = _build_leaf(e[2])
    elif op == "neg":
        r = None
    else:
        r = e[2]
    before = (snapshot(l), snapshot(r))
    raised = None
    try:
        R = _apply(op, l, r)
    except KeyError as ex:
        if not _repo_keyerror():
            raise
        if _rtype(e) not in DEG2_TYPES:
            raise
        raised = ex
    after = (snapshot(l), snapshot(r))
    for name, b, a in (("left", before[0], after[0]), ("right", before[1], after[1])):
        if a != b:
            return Fail("%s operand changed by %s%s: %r -> %r" % (
                name, op, " (which raised KeyError)" if raised else "", b, a), key="operand-mutated:" + name,
                observed=a, required=b)
    if raised:
        return None
    rt = _rtype(e)
    if type(R) is not cls_of(rt):
        return Fail("%s %s %s returned %s, expected %s" % (_rtype(e[1]), op, _rtype(e[2]) if op in BIN else e[2:],
                                                            type(R).__name__, rt), key="result-type")
    return None


# ---------------------------------------------------------------------------------------------
# known findings of round 4 (reported by seeding agents on their unchanged worktrees, confirmed natively)
# ---------------------------------------------------------------------------------------------
def _gen_equal_labels(ctx):
    for T in ("PUBO", "QUBO", "PUSO", "QUSO", "PCBO", "PCSO"):
        yield {"type": T, "a": (0, True), "b": (0, 1)}
        yield {"type": T, "a": (1.0, 2), "b": (1, 2.0)}
        yield {"type": T, "a": (2, 1.0), "b": (2, 1)}
    for T in ("PUBOMatrix", "QUBOMatrix"):
        yield {"type": T, "a": (0, True), "b": (0, 1)}


@clause("C05.equal_labels_of_different_types", "C05", gen=_gen_equal_labels, nontrivial=lambda c: True)
def check_equal_labels(case):
    """Labels that are equal as Python objects but of different types (1 == True == 1.0) are one variable; a monomial
    written with either spelling denotes the same function, so the two models must compare equal and their difference
    must be empty."""
    T = cls_of(case["type"])
    A, B = T({tuple(case["a"]): 3}), T({tuple(case["b"]): 3})
    if tuple(case["a"]) != tuple(case["b"]) and sorted(map(hash, case["a"])) != sorted(map(hash, case["b"])):
        return Skip("labels are not equal")
    d = A - B
    if not (A == B) or dict(d):
        return Fail("%s({%r: 3}) stores %r, %s({%r: 3}) stores %r: equal labels, one monomial, two stored keys "
                    "(difference %r)" % (case["type"], tuple(case["a"]), dict(A), case["type"], tuple(case["b"]), dict(B), dict(d)),
                    key="equal-labels-two-keys")
    return None


def _gen_qvalue_raw(ctx):
    for fn, spin in (("qubo_value", False), ("quso_value", True)):
        dom = (1, -1) if spin else (0, 1)
        for key in ((0, 0, 1), (0, 1, 0), (1, 1, 0, 0), (0, 0, 0)):
            for x0 in dom:
                for x1 in dom:
                    yield {"fn": fn, "spin": spin, "terms": {key: 3, (1,): 1}, "x": {0: x0, 1: x1}}


@clause("C05.q_value_raw_repeated_labels", "C05", gen=_gen_qvalue_raw, nontrivial=lambda c: True)
def check_qvalue_raw(case):
    """qubo_value / quso_value on a plain dict whose keys repeat a label (the function still has degree <= 2, e.g.
    (0, 0, 1) is x0*x1 for booleans and z1 for spins) equal direct evaluation of the polynomial, as pubo_value /
    puso_value do."""
    q = qv()
    got = getattr(q.utils, case["fn"])(dict(case["x"]), dict(case["terms"]))
    want = peval(case["terms"], case["x"])
    if not close(got, want):
        return Fail("%s(%r, %r) = %r, direct evaluation gives %r" % (case["fn"], case["x"], case["terms"], got, want),
                    key="q-value-raw-repeated-label")
    return None
