"""C11 bounded stand-in: the four annealers return well-formed results whose values match their states.

Every check compiles the C kernels from the repository's current working tree (``import_qubovert(fresh_c=True)``).

A case is ``{"fn": "qubo"|"quso"|"pubo"|"puso", "type": "dict"|<model class name>, "terms": {key: coef}, "kw": {...}}``
where kw holds the keyword arguments of the call literally (num_anneals, anneal_duration, schedule, temperature_range,
initial_state, in_order, seed).  Models use duplicate-free keys and non-zero coefficients, so "the model's variables"
are unambiguous: the labels occurring in the keys (for Matrix types: every index 0..max label).
Oracle for values: common.peval on the raw term dict (includes the offset key ()).
"""
import itertools

from .common import (clause, Fail, Skip, LABELS, COEFS, gen_models, variables_of, peval, cls_of, close)
from .. import REPO
from ..repo import import_qubovert, build_canneal
from ._c17_driver import run_driver

FNS = ["qubo", "quso", "pubo", "puso"]
SPIN_FN = {"qubo": False, "quso": True, "pubo": False, "puso": True}
# model types each function documents as accepted ("dict" = plain dict)
TYPES = {
    "qubo": ["dict", "QUBO", "QUBOMatrix"],
    "quso": ["dict", "QUSO", "QUSOMatrix"],
    "pubo": ["dict", "QUBO", "PUBO", "PCBO", "PUBOMatrix"],
    "puso": ["dict", "QUSO", "PUSO", "PCSO", "QUSOMatrix", "PUSOMatrix"],
}
MATRIX = ("QUBOMatrix", "QUSOMatrix", "PUBOMatrix", "PUSOMatrix")


def _maxdeg(fn, tname):
    if fn in ("qubo", "quso") or tname.startswith("Q"):
        return 2
    return 4


def _build(case):
    t = case["type"]
    terms = case["terms"]
    if t == "dict":
        return dict(terms)
    M = cls_of(t)(terms)
    mp = case.get("mapping")
    if mp and hasattr(M, "set_mapping"):
        # a user-chosen enumeration of the variables (documented API): reversed or rotated label -> integer mapping
        labels = sorted(M.mapping, key=lambda l: M.mapping[l])
        n = len(labels)
        if mp == "reversed":
            new = {l: n - 1 - i for i, l in enumerate(labels)}
        else:
            new = {l: (i + 1) % n for i, l in enumerate(labels)}
        if mp.endswith("_rev_api"):
            M.set_reverse_mapping({v: k for k, v in new.items()})
        else:
            M.set_mapping(new)
    return M


def _expected_vars(case):
    vs = variables_of(case["terms"])
    if case["type"] in MATRIX:
        return list(range(max(vs) + 1)) if vs else []
    return vs


_cleanup_registered = set()


def fresh_qubovert():
    """import_qubovert(fresh_c=True) (cached per process), and make sure the private build directory is removed
    when this process ends - clause processes are forked pool workers, in which plain atexit handlers do not run."""
    q = import_qubovert(fresh_c=True)
    register_build_cleanup(build_canneal())
    return q


def register_build_cleanup(so):
    import multiprocessing.util as mpu
    import os
    import shutil
    d = os.path.dirname(so)
    if d not in _cleanup_registered and os.path.basename(d).startswith("canneal_"):
        _cleanup_registered.add(d)
        mpu.Finalize(None, shutil.rmtree, args=(d, True), exitpriority=0)


def _call(case, both=False):
    """the annealer is called twice on the same model object (same arguments): a call must not leave the model in
    a state that makes the next results wrong. Returns the second result, or both."""
    q = fresh_qubovert()
    fn = getattr(q.sim, "anneal_" + case["fn"])
    M = _build(case)
    r1 = fn(M, **case["kw"])
    r2 = fn(M, **case["kw"])
    return (r1, r2) if both else r2


# ---------------------------------------------------------------------------------------------
# the individual aspects of well-formedness
# ---------------------------------------------------------------------------------------------
def _aspect_count(case, res):
    q = fresh_qubovert()
    n = max(case["kw"].get("num_anneals", 1), 0)
    if not isinstance(res, q.sim.AnnealResults):
        return Fail("result is %s, not AnnealResults" % type(res).__name__, key="type")
    if len(res) != n:
        return Fail("%d results for num_anneals=%r" % (len(res), case["kw"].get("num_anneals", 1)), key="count",
                    observed=len(res), required=n)
    for r in res:
        if not isinstance(r, q.sim.AnnealResult):
            return Fail("element %r is not an AnnealResult" % (r,), key="element-type")
    return None


def _aspect_keys(case, res):
    exp = _expected_vars(case)
    for r in res:
        ks = list(r.state.keys())
        if len(ks) != len(exp) or set(ks) != set(exp):
            return Fail("state keys %r, model variables %r" % (ks, exp),
                        key="keys:matrix" if case["type"] in MATRIX else "keys", observed=ks, required=exp)
    return None


def _aspect_domain(case, res):
    spin = SPIN_FN[case["fn"]]
    dom = (1, -1) if spin else (0, 1)
    for r in res:
        bad = {k: v for k, v in r.state.items() if not any(v == d for d in dom)}
        if bad:
            return Fail("state values %r outside %r" % (bad, dom), key="domain", observed=r.state)
        if r.spin != spin:
            return Fail("spin flag %r from anneal_%s" % (r.spin, case["fn"]), key="spin-flag")
    return None


def _aspect_value(case, res):
    terms = case["terms"]
    for r in res:
        try:
            want = peval(terms, r.state)
        except KeyError:
            return Skip("state does not cover the variables (reported by the keys clause)")
        if not close(r.value, want):
            return Fail("value %r but the model evaluates to %r at state %r" % (r.value, want, r.state), key="value",
                        observed=r.value, required=want)
    return None


def _aspect_best(case, res):
    best = getattr(res, "best", "<missing>")
    if len(res) == 0:
        if best is not None:
            return Fail("no results but best = %r" % (best,), key="best-nonempty")
        return None
    if best is None or not hasattr(best, "value"):
        return Fail("results present but best = %r" % (best,), key="best-none")
    lo = min(r.value for r in res)
    if best.value != lo:
        return Fail("best.value = %r, smallest value %r" % (best.value, lo), key="best-not-min", observed=best.value,
                    required=lo)
    if not any(best is r or best == r for r in res):
        return Fail("best %r is not one of the results" % (best,), key="best-not-member")
    return None


_ASPECTS = [_aspect_count, _aspect_keys, _aspect_domain, _aspect_value, _aspect_best]


_preflight_result = None


def preflight():
    """Once per process: run a fixed set of ordinary calls on the freshly built kernels in a *separate* interpreter.
    If that interpreter is killed by a signal (or hangs), the kernels are not executed in this process at all - every
    case is reported as a violation with key crash:... instead of taking the checker down.  -> Fail or None"""
    global _preflight_result
    if _preflight_result is None:
        fresh_qubovert()
        so = build_canneal()
        calls = []
        for fn in FNS:
            for tname in TYPES[fn]:
                for terms in _special_models(fn, tname):
                    if not variables_of(terms):
                        continue
                    vs = _expected_vars({"type": tname, "terms": terms})
                    dom = (1, -1) if SPIN_FN[fn] else (0, 1)
                    calls.append({"fn": fn, "type": tname, "terms": terms,
                                  "kw": {"num_anneals": 3, "anneal_duration": 3, "seed": 5}})
                    calls.append({"fn": fn, "type": tname, "terms": terms,
                                  "kw": {"num_anneals": 2, "schedule": [1.0, 0], "seed": 6, "in_order": False,
                                         "initial_state": {v: dom[0] for v in vs}}})
        rc, out, err, to = run_driver("api", so, calls, repo=REPO, timeout=60)
        if to or (rc is not None and rc < 0) or "DONE" not in out:
            import re
            ms = re.findall(r"^CALL (\d+)$", err, flags=re.M)
            i = int(ms[-1]) if ms else None
            which = calls[i] if i is not None and i < len(calls) else None
            kind = "hang" if to else ("crash:signal%d" % -rc if rc is not None and rc < 0 else "died:rc=%r" % rc)
            _preflight_result = Fail("the freshly built kernels %s in a separate interpreter during an ordinary call: %r"
                                     % ("hang" if to else "crash", which),
                                     key="%s:anneal_%s" % (kind, which["fn"] if which else "?"),
                                     observed=(err or out)[-1200:], required="the call returns")
        else:
            _preflight_result = False
    return _preflight_result or None


def _check(case, aspects):
    pf = preflight()
    if pf is not None:
        return pf
    if case["type"] in MATRIX and not variables_of(case["terms"]):
        try:
            res = _call(case)
        except Exception as e:      # noqa
            return Fail("anneal_%s(%s(%r)) raised %s: %s" % (case["fn"], case["type"], case["terms"],
                                                             type(e).__name__, e),
                        key="raises:matrix-without-variables", observed="%s: %s" % (type(e).__name__, e),
                        required="%d results with empty state and value %r"
                                 % (max(case["kw"].get("num_anneals", 1), 0), case["terms"].get((), 0)))
        results = [res]
    else:
        results = _call(case, both=True)
    for i, res in enumerate(results):
        for a in aspects:
            f = a(case, res)
            if f is not None:
                if i and isinstance(f, Fail):
                    f.msg = "second call on the same model object: " + f.msg
                return f
    return None


# ---------------------------------------------------------------------------------------------
# scope
# ---------------------------------------------------------------------------------------------
GAP_LABELS = [0, 3, 4, 1]        # matrix labels: gaps arise whenever a prefix label is not used


def _labels(tname):
    return GAP_LABELS if tname in MATRIX else LABELS


def _special_models(fn, tname):
    """Hand-picked term dicts: single variable, isolated variables, offset, no couplings, gaps, high degree."""
    L = _labels(tname)
    a, b, c = L[0], L[1], L[2]
    deg = _maxdeg(fn, tname)
    out = [
        {(a,): 1}, {(b,): -2}, {(a,): 1, (): 3}, {(a,): 0.5, (b,): -1}, {(a,): 1, (b,): 1, (c,): 1, (): -2},
        {(a, b): 1}, {(a, b): -1, (): 0.5}, {(b, c): 2}, {(a, b): 1, (c,): -1}, {(a, b): 1, (b, c): -2, (a, c): 0.5},
        {(a,): 1, (b,): -2, (a, b): 0.5, (): 2}, {(b,): 1, (a, c): -1, (a,): 2}, {(c,): 1},
    ]
    if tname not in MATRIX:
        out += [{(b, a): 1, (a,): 1}, {(c, a): -1, (b,): 2}]         # unsorted keys
        out += [{}, {(): 3}]                                          # no variables
    if deg > 2:
        d, e = L[3], (L[4] if len(L) > 4 else None)
        out += [{(a, b, c): 1}, {(a, b, c): -1, (a,): 0.5, (): 1}, {(a, b, c, d): 2, (b,): -1},
                {(a, b, c, d): 1, (a, b): -1, (c, d): 0.5, (): -3}, {(a, b, c): 1, (d,): -1}]
        if e is not None:
            out += [{(a, b, c, d, e): 1}, {(a, b, c, d, e): -0.5, (a, e): 1, (c,): 2}]
    return out


def _random_models(rng, fn, tname, n):
    L = _labels(tname)
    for terms in gen_models(rng, n, L[:4] if tname in MATRIX else L, _maxdeg(fn, tname), COEFS, max_terms=5,
                            min_terms=1):
        if variables_of(terms):
            yield terms


def _init_state(rng, vars_, spin, how):
    dom = (1, -1) if spin else (0, 1)
    if how == "first":
        return {v: dom[0] for v in vars_}
    if how == "second":
        return {v: dom[1] for v in vars_}
    return {v: rng.choice(dom) for v in vars_}


SCHEDULE_KWS = [
    {}, {"anneal_duration": 1}, {"anneal_duration": 2}, {"anneal_duration": 5},
    {"schedule": "linear", "anneal_duration": 1}, {"schedule": "linear", "anneal_duration": 5},
    {"schedule": "geometric", "anneal_duration": 2}, {"schedule": "geometric", "anneal_duration": 5},
    {"schedule": "linear", "anneal_duration": 2, "temperature_range": (3, 0.5)},
    {"schedule": "linear", "anneal_duration": 5, "temperature_range": (2, 0)},
    {"schedule": "linear", "anneal_duration": 2, "temperature_range": (0, 0)},
    {"schedule": "linear", "anneal_duration": 1, "temperature_range": (1.5, 1.5)},
    {"schedule": "geometric", "anneal_duration": 5, "temperature_range": (3, 0.5)},
    {"schedule": "geometric", "anneal_duration": 1, "temperature_range": (2, 2)},
    {"schedule": []}, {"schedule": [0]}, {"schedule": [0, 0, 0]}, {"schedule": [1.0]}, {"schedule": [2, 1, 0.5]},
    {"schedule": [0.5, 0, 1]}, {"schedule": [3.0, 0.0]}, {"schedule": [1, 1], "anneal_duration": 5},
    {"schedule": [1.0, 0.25], "temperature_range": (3, 1)}, {"schedule": [], "anneal_duration": 2},
]


def _kw(rng, case_vars, spin, sched=None, num_anneals=None, init=None, in_order=None, seed="rand"):
    kw = dict(sched if sched is not None else rng.choice(SCHEDULE_KWS))
    kw.setdefault("anneal_duration", rng.choice([1, 2, 5]))
    kw["num_anneals"] = num_anneals if num_anneals is not None else rng.choice([1, 1, 3])
    how = init if init is not None else rng.choice(["none", "none", "first", "second", "rand"])
    if how != "none":
        kw["initial_state"] = _init_state(rng, case_vars, spin, how)
    kw["in_order"] = in_order if in_order is not None else rng.random() < 0.5
    if seed == "rand":
        seed = rng.choice([None, 0, 1, 7, 12345, 2 ** 31 - 1, -1])
    if seed is not None:
        kw["seed"] = seed
    return kw


def _mk(fn, tname, terms, kw):
    return {"fn": fn, "type": tname, "terms": terms, "kw": kw}


def _vars_for(tname, terms):
    return _expected_vars({"type": tname, "terms": terms})


def _gen_main(ctx, salt="c11.main", only_matrix=False, n_quick=60, n_thorough=1200):
    """special models x a few keyword settings, then random models x random keyword settings, for every function and
    every model type it accepts."""
    rng = ctx.rng(salt)
    for fn in FNS:
        spin = SPIN_FN[fn]
        for tname in TYPES[fn]:
            if only_matrix and tname not in MATRIX:
                continue
            if not only_matrix and tname in MATRIX:
                continue
            for terms in _special_models(fn, tname):
                vs = _vars_for(tname, terms)
                yield _mk(fn, tname, terms, _kw(rng, vs, spin, sched={"anneal_duration": 2}, num_anneals=2,
                                                init="none", in_order=True, seed=3))
                yield _mk(fn, tname, terms, _kw(rng, vs, spin))
                yield _mk(fn, tname, terms, _kw(rng, vs, spin, in_order=False))
            k = 0
            for terms in _random_models(rng, fn, tname, ctx.pick(n_quick, n_thorough)):
                c = _mk(fn, tname, terms, _kw(rng, _vars_for(tname, terms), spin))
                yield c
                k += 1
                if tname not in MATRIX and tname != "dict" and len(variables_of(terms)) >= 2:
                    # the same model with a permuted label -> integer mapping (set_mapping / set_reverse_mapping)
                    c2 = dict(c)
                    c2["mapping"] = ("reversed", "rotated", "rotated_rev_api")[k % 3]
                    yield c2


def _has_vars(case):
    return bool(variables_of(case["terms"])) and case["kw"].get("num_anneals", 1) >= 1


# --- count --------------------------------------------------------------------------------------
def _gen_count(ctx):
    rng = ctx.rng("c11.count")
    for fn in FNS:
        spin = SPIN_FN[fn]
        for tname in TYPES[fn]:
            for terms in _special_models(fn, tname)[:7] + list(_random_models(rng, fn, tname, ctx.pick(4, 60))):
                vs = _vars_for(tname, terms)
                for n in (0, -1, 1, 3):
                    yield _mk(fn, tname, terms, _kw(rng, vs, spin, num_anneals=n))
    for c in _gen_main(ctx, "c11.count2", n_quick=6, n_thorough=100):
        yield c


@clause("C11.count", "C11", gen=_gen_count, nontrivial=lambda c: bool(variables_of(c["terms"])))
def check_count(case):
    """anneal_* returns an AnnealResults of exactly num_anneals AnnealResult objects, none when num_anneals <= 0
    (num_anneals in {0, -1, 1, 3}), for every function, accepted model type, schedule, initial state, order and
    seed. Non-trivial: the model has a variable."""
    return _check(case, [_aspect_count])


# --- keys, labelled ------------------------------------------------------------------------------
@clause("C11.state_keys_labelled", "C11", gen=_gen_main, nontrivial=_has_vars)
def check_keys(case):
    """For models given as dict or labelled types (QUBO/QUSO/PUBO/PUSO/PCBO/PCSO) with mixed label types, isolated
    variables, offsets, unsorted keys: every result's state has exactly the model's variables as keys.
    Non-trivial: the model has a variable and num_anneals >= 1."""
    return _check(case, [_aspect_keys])


# --- keys, matrix with gaps ----------------------------------------------------------------------
def _gen_matrix(ctx):
    # a Matrix model without variables (empty / offset only) is a model like any other
    for fn in FNS:
        for tname in TYPES[fn]:
            if tname in MATRIX:
                for terms in ({}, {(): 2}):
                    yield _mk(fn, tname, terms, {"num_anneals": 2, "anneal_duration": 2, "seed": 1})
    for c in _gen_main(ctx, "c11.matrix", only_matrix=True, n_quick=60, n_thorough=1200):
        yield c


def _nt_matrix(case):
    vs = variables_of(case["terms"])
    return bool(vs) and len(vs) < max(vs) + 1


@clause("C11.state_keys_matrix", "C11", gen=_gen_matrix, nontrivial=_nt_matrix)
def check_keys_matrix(case):
    """For integer-indexed Matrix inputs (QUBOMatrix/QUSOMatrix/PUBOMatrix/PUSOMatrix passed to the function of the
    same kind, Q*Matrix also to anneal_puso) whose labels have gaps (e.g. only 0 and 3): the right number of
    results, every state assigns a value of the right domain to every index 0..max_index, and the value is the model
    evaluated at the state. A Matrix model without variables gives num_anneals results with empty states.
    Non-trivial: some index below the maximum does not occur in the model."""
    return _check(case, [_aspect_count, _aspect_keys, _aspect_domain, _aspect_value])


def _gen_matrix_cross(ctx):
    rng = ctx.rng("c11.cross")
    for fn, tname in (("pubo", "QUBOMatrix"),):
        spin = SPIN_FN[fn]
        models = _special_models(fn, tname) + list(_random_models(rng, fn, tname, ctx.pick(30, 600)))
        for terms in models:
            yield _mk(fn, tname, terms, _kw(rng, _vars_for(tname, terms), spin))


@clause("C11.state_keys_matrix_cross_kind", "C11", gen=_gen_matrix_cross, nontrivial=_nt_matrix)
def check_keys_matrix_cross(case):
    """anneal_pubo documents "any type in qubovert.BOOLEAN_MODELS", which includes QUBOMatrix: for a QUBOMatrix with
    gaps the property text demands a value for every index 0..max_index (as anneal_qubo gives for the same object).
    Kept apart from C11.state_keys_matrix because it is the literal reading of the property for a cross-kind input.
    Non-trivial: some index below the maximum does not occur in the model."""
    return _check(case, [_aspect_count, _aspect_keys, _aspect_domain, _aspect_value])


# --- domain / flag -------------------------------------------------------------------------------
def _gen_both(ctx, salt, nq, nt):
    for c in _gen_main(ctx, salt, n_quick=nq, n_thorough=nt):
        yield c
    for c in _gen_main(ctx, salt + "m", only_matrix=True, n_quick=nq, n_thorough=nt):
        yield c


@clause("C11.domain_and_flag", "C11", gen=lambda ctx: _gen_both(ctx, "c11.dom", 25, 500), nontrivial=_has_vars)
def check_domain(case):
    """State values lie in {0,1} for anneal_qubo/anneal_pubo and in {1,-1} for anneal_quso/anneal_puso, and each
    result's spin flag is False resp. True. Non-trivial: the model has a variable and num_anneals >= 1."""
    return _check(case, [_aspect_domain])


# --- value ---------------------------------------------------------------------------------------
def _nt_value(case):
    return _has_vars(case) and any(len(k) >= 2 for k in case["terms"])


@clause("C11.value_matches_state", "C11", gen=lambda ctx: _gen_both(ctx, "c11.val", 60, 1200), nontrivial=_nt_value)
def check_value(case):
    """Each result's value equals the model evaluated at the result's state, including the offset (oracle:
    common.peval on the raw terms, relative tolerance 1e-9) - arbitrary couplings, offsets, linear terms, label
    relabelling, high-degree terms, Matrix inputs. Non-trivial: the model has a coupling term and num_anneals >= 1."""
    return _check(case, [_aspect_value])


# --- best ----------------------------------------------------------------------------------------
def _gen_best(ctx):
    rng = ctx.rng("c11.best")
    for fn in FNS:
        spin = SPIN_FN[fn]
        for tname in TYPES[fn]:
            models = _special_models(fn, tname)[3:12] + list(_random_models(rng, fn, tname, ctx.pick(12, 250)))
            for terms in models:
                vs = _vars_for(tname, terms)
                # hot, short, random order, no initial state: the results differ in value
                yield _mk(fn, tname, terms, _kw(rng, vs, spin, sched={"schedule": [5.0]}, num_anneals=6, init="none",
                                                in_order=False))
                yield _mk(fn, tname, terms, _kw(rng, vs, spin, sched={"schedule": []}, num_anneals=5, init="none"))
                yield _mk(fn, tname, terms, _kw(rng, vs, spin, num_anneals=rng.choice([0, -1, 1, 3])))


@clause("C11.best_is_minimum", "C11", gen=_gen_best,
        nontrivial=lambda c: _has_vars(c) and c["kw"]["num_anneals"] >= 3)
def check_best(case):
    """res.best is None when there are no results, otherwise it is one of the results and has the smallest value
    (short hot anneals and the empty schedule from random initial states give results of different values).
    Non-trivial: model with a variable, at least 3 anneals."""
    f = _check(case, [_aspect_count, _aspect_best])
    return f


# --- schedules -----------------------------------------------------------------------------------
def _gen_sched(ctx):
    rng = ctx.rng("c11.sched")
    for fn in FNS:
        spin = SPIN_FN[fn]
        for tname in TYPES[fn]:
            models = _special_models(fn, tname)
            models = [models[0], models[3], models[10]] + list(_random_models(rng, fn, tname, ctx.pick(2, 40)))
            for terms in models:
                vs = _vars_for(tname, terms)
                for s in SCHEDULE_KWS:
                    yield _mk(fn, tname, terms, _kw(rng, vs, spin, sched=s))


@clause("C11.schedules", "C11", gen=_gen_sched, nontrivial=_has_vars)
def check_sched(case):
    """All aspects (count, keys, domain, flag, value, best) under every kind of schedule: 'linear' and 'geometric'
    with anneal_duration in {1, 2, 5} and temperature_range None or given (including (0, 0), (2, 0) for linear and
    equal end points), explicit lists including zeros and the empty list, explicit list together with a (then
    ignored) temperature_range. Non-trivial: model with a variable, num_anneals >= 1."""
    return _check(case, _ASPECTS)


# --- initial state / order / seed ----------------------------------------------------------------
def _gen_init(ctx):
    rng = ctx.rng("c11.init")
    for fn in FNS:
        spin = SPIN_FN[fn]
        for tname in TYPES[fn]:
            models = _special_models(fn, tname)[:13:2] + list(_random_models(rng, fn, tname, ctx.pick(6, 120)))
            for terms in models:
                vs = _vars_for(tname, terms)
                for init in ("first", "second", "rand"):
                    for in_order in (True, False):
                        for sched in ({"schedule": []}, {"schedule": [0, 0]}, {"anneal_duration": 2}):
                            yield _mk(fn, tname, terms, _kw(rng, vs, spin, sched=sched, init=init, in_order=in_order))


@clause("C11.initial_state_order_seed", "C11", gen=_gen_init, nontrivial=_has_vars)
def check_init(case):
    """All aspects with a supplied initial state (all-first-value, all-second-value, random; given over exactly the
    state's variables, i.e. every index for Matrix inputs), both visiting orders, seed None / 0 / positive / 2^31-1 /
    negative. Non-trivial: model with a variable."""
    return _check(case, _ASPECTS)


# ---------------------------------------------------------------------------------------------
# arguments at the edge of the documented domain (known findings of round 4)
# ---------------------------------------------------------------------------------------------
def _gen_edge_args(ctx):
    for fn in FNS:
        spin = SPIN_FN[fn]
        one = 1 if spin else 1
        other = -1 if spin else 0
        terms = {(0, 1): 1, (0,): -1}
        yield {"fn": fn, "type": "dict", "terms": terms, "kw": {"seed": 2 ** 31, "num_anneals": 1}, "what": "seed"}
        yield {"fn": fn, "type": "dict", "terms": terms, "kw": {"seed": 2 ** 40, "num_anneals": 2}, "what": "seed"}
        yield {"fn": fn, "type": "dict", "terms": terms,
               "kw": {"initial_state": {0: float(one), 1: float(other)}, "seed": 1, "num_anneals": 1}, "what": "float-state"}


@clause("C11.edge_arguments", "C11", gen=_gen_edge_args, nontrivial=lambda c: True)
def check_edge_args(case):
    """'any seed': an integer seed >= 2**31; 'any initial_state': an initial state whose values are the floats
    1.0 / -1.0 (0.0 / 1.0), which are values in {1,-1} ({0,1}). The call must return num_anneals well-formed results
    (count, keys, domain, flag, value) like any other call."""
    try:
        res = _call(case)
    except Exception as e:          # noqa
        return Fail("anneal_%s(..., %s) raised %s: %s" % (case["fn"], ", ".join("%s=%r" % kv for kv in case["kw"].items()),
                                                          type(e).__name__, str(e)[:120]),
                    key="raises:" + case["what"])
    for a in (_aspect_count, _aspect_keys, _aspect_domain, _aspect_value):
        f = a(case, res)
        if f is not None:
            return f
    return None


# ---------------------------------------------------------------------------------------------
# models that report a variable all of whose terms have cancelled
# ---------------------------------------------------------------------------------------------
def _gen_cancelled(ctx):
    rng = ctx.rng("c11.cancelled")
    for fn in FNS:
        spin = SPIN_FN[fn]
        for tname in TYPES[fn]:
            if tname == "dict":
                continue
            labs = GAP_LABELS if tname in MATRIX else LABELS
            extra = 6 if tname in MATRIX else 'gone'
            bases = [{}, {(labs[0],): 1}, {(labs[0], labs[1]): -1, (labs[1],): 2, (): 3}, {(): -2}]
            for terms in bases:
                for ck in ((extra,), (labs[0], extra)):
                    for kwset in ({"num_anneals": 2, "anneal_duration": 2, "seed": 5},
                                  {"num_anneals": 1, "schedule": [3, 2], "in_order": False, "seed": 1}):
                        yield {"fn": fn, "type": tname, "terms": dict(terms), "cancel": ck, "kw": dict(kwset)}


@clause("C11.cancelled_variables", "C11", gen=_gen_cancelled, nontrivial=lambda c: True)
def check_cancelled_variables(case):
    """A model object on which a term was added and subtracted again still reports the variables of that term
    (``variables`` / ``max_index`` are upper bounds until ``refresh()``): the results must assign exactly the
    variables the model reports (Matrix types: every index 0..max_index), with values in the right domain, and the
    value must equal the model at the state."""
    pf = preflight()
    if pf is not None:
        return pf
    q = fresh_qubovert()
    fn = getattr(q.sim, "anneal_" + case["fn"])
    spin = SPIN_FN[case["fn"]]
    M = cls_of(case["type"])(case["terms"])
    M[case["cancel"]] += 2
    M[case["cancel"]] -= 2
    if case["type"] in MATRIX:
        exp = list(range((M.max_index if M.max_index is not None else -1) + 1))
    else:
        exp = list(M.variables)
    if not set(case["cancel"]) <= set(exp):
        return Skip("the model does not report the cancelled variable")
    res = fn(M, **case["kw"])
    f = _aspect_count(case, res)
    if f:
        return f
    dom = (1, -1) if spin else (0, 1)
    for r in res:
        ks = list(r.state.keys())
        if len(ks) != len(exp) or set(ks) != set(exp):
            return Fail("anneal_%s on a %s that reports the variables %r (a term over %r was added and subtracted "
                        "again): state keys %r" % (case["fn"], case["type"], exp, case["cancel"], ks),
                        key="keys:cancelled-boolean" if not spin else "keys:cancelled", observed=ks, required=exp)
        if any(not any(v == d for d in dom) for v in r.state.values()):
            return Fail("state values %r outside %r" % (r.state, dom), key="domain")
        want = peval(case["terms"], r.state)
        if not close(r.value, want):
            return Fail("value %r but the model evaluates to %r at %r" % (r.value, want, r.state), key="value")
    return None


# ---------------------------------------------------------------------------------------------
# enumerations chosen with set_mapping before the terms are entered
# ---------------------------------------------------------------------------------------------
PREMAPS = [[('a', 0), ('b', 1), ('c', 2), ('d', 3)], [('a', 0), ('c', 5), ('d', 2)],
           [('d', 0), ('c', 1), ('a', 2), ('zz', 7)], [('a', 3), ('c', 4), ('d', 9)]]


def _gen_premap(ctx):
    for fn in FNS:
        for tname in TYPES[fn]:
            if tname == "dict" or tname in MATRIX:
                continue
            models = [{('a', 'd'): 1, ('c',): -1}, {('a',): 1}, {('d', 'c'): -2, ('a', 'c'): 1, (): 3}]
            if fn in ("puso", "pubo") and not tname.startswith("Q"):
                models.append({('a', 'd', 'c'): 1, ('d',): 0.5})
            for terms in models:
                for pm in PREMAPS:
                    for kwset in ({"num_anneals": 2, "anneal_duration": 2, "seed": 5},
                                  {"num_anneals": 1, "schedule": [3, 0], "in_order": False, "seed": 1, "init": True}):
                        kw = {k: v for k, v in kwset.items() if k != "init"}
                        if kwset.get("init"):
                            kw["initial_state"] = {l: (1 if SPIN_FN[fn] else 0) for l in variables_of(terms)}
                        yield {"fn": fn, "type": tname, "terms": dict(terms), "premap": pm, "kw": kw}


@clause("C11.user_mapping_before_terms", "C11", gen=_gen_premap, nontrivial=lambda c: True)
def check_premap(case):
    """The enumeration is chosen first with set_mapping (it may name labels the model never uses, and integers with
    gaps), the terms are entered afterwards: every result assigns exactly the model's variables, with values in the
    right domain, and its value equals the model at the state."""
    pf = preflight()
    if pf is not None:
        return pf
    q = fresh_qubovert()
    fn = getattr(q.sim, "anneal_" + case["fn"])
    spin = SPIN_FN[case["fn"]]
    M = cls_of(case["type"])()
    M.set_mapping(dict(case["premap"]))
    for k, v in case["terms"].items():
        M[k] += v
    exp = variables_of(case["terms"])
    res = fn(M, **case["kw"])
    f = _aspect_count(case, res)
    if f:
        return f
    dom = (1, -1) if spin else (0, 1)
    for r in res:
        ks = list(r.state.keys())
        if len(ks) != len(exp) or set(ks) != set(exp):
            return Fail("anneal_%s on a %s with the user mapping %r: state keys %r, model variables %r"
                        % (case["fn"], case["type"], case["premap"], ks, exp), key="keys:user-mapping")
        if any(not any(v == d for d in dom) for v in r.state.values()):
            return Fail("state values %r outside %r" % (r.state, dom), key="domain")
        want = peval(case["terms"], r.state)
        if not close(r.value, want):
            return Fail("value %r but the model evaluates to %r at %r" % (r.value, want, r.state), key="value")
    return None
