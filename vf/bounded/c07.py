"""C07 bounded stand-in: qubovert.sat expression builders compute their truth functions.

An expression is a literal (nested tuples):
  operand leaves   'a' / 0           a bare str or int is a variable label
                   ("lbl", x)        label x of any hashable literal type, e.g. ("lbl", ('t', 1))
                   ("var", T, x)     T.create_var(x) for a boolean model type T
                   ("model", T, terms)  T(terms), a model taking values in {0, 1}
                   ("dict", terms)   plain dict taking values in {0, 1}
                   ("ref", i)        the very same object as operand i of the enclosing gate
  gates            (GATE, operand, ...) with GATE in BUFFER, NOT (one operand), AND, NAND, OR, NOR, XOR, XNOR (>= 1)
e.g. ("AND", ("OR", "a", 0), ("NOT", ("var", "PCBO", "b"))).

Oracle: python boolean logic on every 0/1 assignment of the labels (XOR/XNOR = odd/even parity); the returned model
is evaluated with common.peval on its stored terms, not with the library's .value.
"""
import itertools
import sys

from .common import (clause, Fail, Skip, BOOL_TYPES, MATRIX_TYPES, DEG2_TYPES, assignments, peval, qv, cls_of,
                     snapshot, _innermost_in_repo)

GATES1 = ("BUFFER", "NOT")
GATESN = ("AND", "NAND", "OR", "NOR", "XOR", "XNOR")
GATES = GATES1 + GATESN
LEAF_TAGS = ("lbl", "var", "model", "dict", "ref")
MIXED = ['a', 0, ('t', 1), 'b', 1, ('t', 0)]
INTS = [0, 1, 2, 3, 4]


# ---------------------------------------------------------------------------------------------
# pure functions of the literal
# ---------------------------------------------------------------------------------------------
def _L(x):
    """literal for label x."""
    return x if isinstance(x, (str, int)) and not isinstance(x, bool) and x not in GATES else ("lbl", x)


def _is_gate(n):
    return isinstance(n, tuple) and len(n) >= 1 and isinstance(n[0], str) and n[0] in GATES


def _is_label(n):
    return not isinstance(n, tuple) or n[0] == "lbl"


def _label(n):
    l = n[1] if isinstance(n, tuple) else n
    if isinstance(l, tuple) and l and l[0] == "__fs__":      # literal for a frozenset label (cases are literals)
        return frozenset(l[1:])
    return l


def _labels_of(n, out=None):
    out = [] if out is None else out
    if _is_gate(n):
        for o in n[1:]:
            _labels_of(o, out)
    elif _is_label(n):
        if _label(n) not in out:
            out.append(_label(n))
    elif n[0] == "var":
        if n[2] not in out:
            out.append(n[2])
    elif n[0] in ("model", "dict"):
        for k in n[-1]:
            for i in k:
                if i not in out:
                    out.append(i)
    return out


def _leaf_types(n, out=None):
    out = [] if out is None else out
    if _is_gate(n):
        for o in n[1:]:
            _leaf_types(o, out)
    elif isinstance(n, tuple) and n[0] in ("var", "model"):
        out.append(n[1])
    return out


def _depth(n):
    return 1 + max(_depth(o) for o in n[1:]) if _is_gate(n) else 0


def _tv(n, x):
    """truth value (0/1) of the expression at assignment x; None if a model/dict leaf is not boolean-valued."""
    if _is_gate(n):
        vals = []
        for o in n[1:]:
            v = vals[o[1]] if isinstance(o, tuple) and o[0] == "ref" else _tv(o, x)
            if v is None:
                return None
            vals.append(v)
        g = n[0]
        if g == "BUFFER":
            return vals[0]
        if g == "NOT":
            return 1 - vals[0]
        if g in ("AND", "NAND"):
            r = int(all(vals))
        elif g in ("OR", "NOR"):
            r = int(any(vals))
        else:
            r = sum(vals) % 2
        return 1 - r if g in ("NAND", "NOR", "XNOR") else r
    if _is_label(n):
        return x[_label(n)]
    if n[0] == "var":
        return x[n[2]]
    v = peval(n[-1], x)
    return int(v) if v in (0, 1) else None


def _table(e):
    vs = _labels_of(e)
    return [_tv(e, x) for x in assignments(vs)]


def _nontrivial(case):
    t = _table(case["expr"])
    return None not in t and len(set(t)) == 2


def _well_formed(n):
    if _is_gate(n):
        k = len(n) - 1
        if k < 1 or (n[0] in GATES1 and k != 1):
            return False
        for j, o in enumerate(n[1:]):
            if isinstance(o, tuple) and o and o[0] == "ref":
                if not (isinstance(o[1], int) and 0 <= o[1] < j):
                    return False
            elif not _well_formed(o):
                return False
        return True
    if isinstance(n, tuple):
        return len(n) >= 2 and n[0] in ("lbl", "var", "model", "dict")
    return isinstance(n, (str, int))


# ---------------------------------------------------------------------------------------------
# running the real code
# ---------------------------------------------------------------------------------------------
def _run(n, mutated, path=()):
    """build operands bottom-up and call the real gate functions; every dict/model operand of every gate call is
    snapshotted before and after the call, differences are appended to `mutated`."""
    if _is_gate(n):
        ops = []
        for j, o in enumerate(n[1:]):
            if isinstance(o, tuple) and o[0] == "ref":
                ops.append(ops[o[1]])
            else:
                ops.append(_run(o, mutated, path + (j,)))
        before = [snapshot(o) if isinstance(o, dict) else None for o in ops]
        res = getattr(qv().sat, n[0])(*ops)
        for j, o in enumerate(ops):
            if isinstance(o, dict) and snapshot(o) != before[j]:
                mutated.append((n[0], path, j, before[j], snapshot(o)))
        return res
    if _is_label(n):
        return _label(n)
    if n[0] == "var":
        return cls_of(n[1]).create_var(n[2])
    if n[0] == "model":
        return cls_of(n[1])(n[2])
    return dict(n[1])


def _evaluate(case):
    """-> (Skip|Fail|None, result model, mutated list)."""
    e = case["expr"]
    if not _well_formed(e) or not _is_gate(e):
        return Skip("not a gate expression with arity >= 1"), None, None
    vs = _labels_of(e)
    types = _leaf_types(e)
    if any(t in MATRIX_TYPES for t in types) and any(not isinstance(v, int) or isinstance(v, bool) or v < 0
                                                     for v in vs):
        return Skip("Matrix-typed operands need non-negative integer labels"), None, None
    table = [(x, _tv(e, x)) for x in assignments(vs)]
    if any(t is None for _, t in table):
        return Skip("a model/dict operand is not {0,1}-valued"), None, None
    mutated = []
    try:
        P = _run(e, mutated)
    except KeyError as ex:
        if not _innermost_in_repo(sys.exc_info()[2]):
            raise
        if any(t in DEG2_TYPES for t in types) and len(vs) > 2:
            return Skip("degree-2 typed operand: the expression may exceed degree 2 (KeyError is C05's rule)"), None, None
        return Fail("KeyError: %s" % (ex,), key="raised:KeyError"), None, None
    return None, (P, table), mutated


def _check_truth(case):
    st, res, _ = _evaluate(case)
    if st is not None:
        return st
    P, table = res
    if not isinstance(P, dict):
        return Fail("result is %s, not a model" % type(P).__name__, key="result-not-model")
    terms = {k: v for k, v in dict.items(P)}
    for x, want in table:
        try:
            have = peval(terms, x)
        except KeyError as k:
            return Fail("result %r mentions unknown variable %s" % (terms, k), key="unknown-variable")
        if have != want:
            return Fail("at %r: model evaluates to %r, truth value is %r; model %r" % (x, have, want, terms),
                        key="truth-differs:" + case["expr"][0], observed=have, required=want)
    return None


# ---------------------------------------------------------------------------------------------
# generators
# ---------------------------------------------------------------------------------------------
def _bool_models(labels):
    """term dicts over (the first two of) labels that take values in {0,1}."""
    a = labels[0]
    b = labels[1 % len(labels)]
    out = [{(a,): 1}, {(): 1, (a,): -1}, {(): 1}, {}]
    if a != b:
        out += [{(a, b): 1}, {(a,): 1, (b,): 1, (a, b): -1}, {(a,): 1, (b,): 1, (a, b): -2},
                {(): 1, (b, a): -1}, {(b,): 1, (a, b): -1}]
    return out


def _rand_leaf(rng, labels, types, allow_models=True):
    r = rng.random()
    l = rng.choice(labels)
    if r < 0.45 or not allow_models:
        return _L(l)
    if r < 0.7:
        return ("var", rng.choice(types), l)
    sub = rng.sample(labels, min(2, len(labels)))
    terms = rng.choice(_bool_models(sub))
    if r < 0.85:
        return ("model", rng.choice(types), terms)
    if rng.random() < 0.5 and terms:      # raw keys: repeated / unsorted labels, as plain dicts allow them
        terms = {tuple(reversed(k)) + k[:1]: v for k, v in terms.items()}
    return ("dict", terms)


def _rand_expr(rng, depth, labels, types, max_arity=3, allow_models=True):
    if depth == 0:
        return _rand_leaf(rng, labels, types, allow_models)
    g = rng.choice(GATES)
    k = 1 if g in GATES1 else rng.choice(list(range(1, max_arity + 1)))
    ops = []
    deep = rng.randrange(k)
    for j in range(k):
        d = depth - 1 if j == deep else rng.randint(0, depth - 1)
        ops.append(_rand_expr(rng, d, labels, types, max_arity, allow_models))
    return (g,) + tuple(ops)


def _gen_labels(ctx):
    pool = ['a', 0, ('t', 1)]
    for l in pool + [1, 'AND', ('AND', 'a'), (), 2.5, None]:
        for g in GATES1:
            yield {"expr": (g, _L(l))}
        yield {"expr": ("XOR", _L(l), 'a')}
    for g in GATESN:
        for k in range(1, 5):
            for ls in itertools.product(pool, repeat=k):
                yield {"expr": (g,) + tuple(_L(l) for l in ls)}
        for k in ctx.pick((5, 6), (5, 6, 7, 8)):
            yield {"expr": (g,) + tuple(_L(l) for l in (MIXED + INTS)[:k])}
            yield {"expr": (g,) + tuple(_L(l) for l in ((MIXED[:3]) * 3)[:k])}
    # labels that are hashable but only partially ordered by their own `<` (frozensets, e.g. undirected edges):
    # pairwise incomparable ones, and a chain mixed with an incomparable one
    fs = [("__fs__", 0, 1), ("__fs__", 1, 2), ("__fs__", 0, 2), ("__fs__", 0), ("__fs__", 0, 1, 2)]
    for g in GATESN:
        for k in (2, 3):
            for ls in itertools.permutations(fs, k):
                yield {"expr": (g,) + tuple(("lbl", l) for l in ls)}


@clause("C07.gates_on_labels", "C07", gen=_gen_labels, nontrivial=_nontrivial)
def check_labels(case):
    """Each single gate applied to labels: BUFFER/NOT of one label; AND, NAND, OR, NOR, XOR, XNOR of 1..4 labels
    (every tuple over three labels of mixed types, repetitions included) and of 5..6 labels: the returned model
    evaluates on every 0/1 assignment to the gate's truth value (XOR/XNOR = odd/even parity of the operand values).
    Labels of type str, int, tuple (and other hashables). Non-trivial: both truth values occur."""
    return _check_truth(case)


def _operand_kinds(labels, int_only):
    a, b = labels[0], labels[1]
    kinds = [_L(a), _L(b), ("var", "PUBO", a), ("var", "PCBO", b), ("var", "QUBO", a),
             ("dict", {(a, b): 1}), ("dict", {(): 1, (b, b): -1}), ("model", "PCBO", {(a,): 1, (b,): 1, (a, b): -1}),
             ("model", "PUBO", {(): 1})]
    if int_only:
        kinds += [("var", "PUBOMatrix", a), ("var", "QUBOMatrix", b), ("model", "PUBOMatrix", {(a, b): 1})]
    return kinds


def _gen_models(ctx):
    for labels, int_only in ((['a', ('t', 1)], False), ([0, 1], True)):
        kinds = _operand_kinds(labels, int_only)
        for o in kinds:
            for g in GATES1:
                yield {"expr": (g, o)}
        for g in GATESN:
            for k in (1, 2):
                for ops in itertools.product(kinds, repeat=k):
                    yield {"expr": (g,) + tuple(ops)}
    rng = ctx.rng("c07.models")
    n = ctx.pick(4000, 80000)
    for _ in range(n):
        int_only = rng.random() < 0.5
        labels = INTS[:rng.choice([2, 3, 4])] if int_only else rng.sample(MIXED, rng.choice([2, 3, 4]))
        types = BOOL_TYPES if int_only else ["PUBO", "PCBO", "QUBO"]
        if rng.random() < 0.6:
            types = [t for t in types if t not in DEG2_TYPES]
        g = rng.choice(GATESN)
        k = rng.choice([1, 2, 3, 3, 4])
        yield {"expr": (g,) + tuple(_rand_leaf(rng, labels, types) for _ in range(k))}


@clause("C07.gates_on_models", "C07", gen=_gen_models, nontrivial=_nontrivial)
def check_models(case):
    """Each single gate applied to operands that are labels, variables created by create_var of every boolean model
    type (PUBO, QUBO, PCBO and, on integer labels, PUBOMatrix, QUBOMatrix), {0,1}-valued models of those types and
    {0,1}-valued plain dicts (raw keys allowed), in every order and mixture, arity 1..4: the returned model evaluates
    to the gate's truth value of the operand values on every assignment. Expressions with a degree-2 typed operand
    and more than two variables are skipped when they raise KeyError. Non-trivial: both truth values occur."""
    return _check_truth(case)


def _gen_nested(ctx):
    # exhaustive: depth 2 over two labels, binary outer gate, unary/binary inner gates on labels
    inner = [(g, 'a') for g in GATES] + [(g, 'a', 0) for g in GATESN]
    for g in GATESN:
        for i1 in inner:
            for i2 in inner[::3] + ['a', 0]:
                yield {"expr": (g, i1, i2)}
    rng = ctx.rng("c07.nested")
    n = ctx.pick(8000, 160000)
    for _ in range(n):
        fam = rng.random()
        if fam < 0.35:
            labels, types, allow = rng.sample(MIXED, rng.choice([2, 3, 4, 5])), ["PUBO"], False
        elif fam < 0.7:
            labels, types, allow = rng.sample(MIXED, rng.choice([2, 3, 4])), ["PUBO", "PCBO"], True
        elif fam < 0.85:
            labels, types, allow = INTS[:rng.choice([2, 3, 4])], ["PUBO", "PCBO", "PUBOMatrix"], True
        else:
            labels, types, allow = INTS[:rng.choice([2, 3])], BOOL_TYPES, True
        yield {"expr": _rand_expr(rng, rng.choice([2, 2, 3]), labels, types, rng.choice([2, 3, 4]), allow)}


def _nested_nontrivial(case):
    return _depth(case["expr"]) >= 2 and _nontrivial(case)


@clause("C07.nested", "C07", gen=_gen_nested, nontrivial=_nested_nontrivial)
def check_nested(case):
    """Expression trees over the eight gates nested to depth 2-3 with arity 1..4 per gate; operands are labels of
    mixed types, results of other gates, create_var variables, {0,1}-valued models and dicts: the final model
    evaluates on every 0/1 assignment of the labels to the truth value of the whole expression. Non-trivial: depth
    >= 2 and both truth values occur."""
    return _check_truth(case)


def _gen_deg2(ctx):
    for labels, T in ((['a', ('t', 1)], "QUBO"), ([0, 1], "QUBOMatrix"), ([1, 'b'], "QUBO")):
        a, b = labels
        va, vb = ("var", T, a), ("var", T, b)
        atoms = [va, vb, _L(a), _L(b), ("model", T, {(a, b): 1}), ("model", T, {(): 1, (a,): -1})]
        if T == "QUBOMatrix":
            atoms = [va, vb, ("model", T, {(a, b): 1}), ("model", T, {(): 1, (a,): -1})]
        for o in atoms:
            for g in GATES1:
                yield {"expr": (g, o)}
        for g in GATESN:
            for k in (1, 2, 3):
                for ops in itertools.product(atoms, repeat=k):
                    if any(isinstance(o, tuple) and o[0] in ("var", "model") for o in ops):
                        yield {"expr": (g,) + tuple(ops)}
    rng = ctx.rng("c07.deg2")
    n = ctx.pick(600, 12000)
    for _ in range(n):
        T = rng.choice(["QUBO", "QUBOMatrix"])
        labels = INTS[:2] if T == "QUBOMatrix" else rng.sample(MIXED, 2)
        e = _rand_expr(rng, rng.choice([2, 3]), labels, [T], 3, True)
        yield {"expr": e}


@clause("C07.deg2_operands", "C07", gen=_gen_deg2, nontrivial=_nontrivial)
def check_deg2(case):
    """Gates and nested gates over QUBO / QUBOMatrix operands on at most two variables (every boolean function of two
    variables has degree <= 2, so no KeyError is legitimate): the result evaluates to the truth value of the
    expression on every assignment. Non-trivial: both truth values occur."""
    if len(_labels_of(case["expr"])) > 2:
        return Skip("more than two variables")
    return _check_truth(case)


def _gen_shared(ctx):
    for T in BOOL_TYPES:
        a, b = (0, 1) if T in MATRIX_TYPES else ('a', ('t', 1))
        xs = [("var", T, a), ("model", T, {(a, b): 1}), ("model", T, {(): 1, (a,): -1})]
        if T not in MATRIX_TYPES:
            xs.append(("dict", {(a,): 1, (b,): 1, (a, b): -1}))
        for x in xs:
            for g in GATESN:
                yield {"expr": (g, x, ("ref", 0))}
                yield {"expr": (g, x, ("ref", 0), ("ref", 0))}
                yield {"expr": (g, x, _L(b), ("ref", 0))}
                yield {"expr": (g, ("NOT", x), ("ref", 0))}
                yield {"expr": (g, (g, x, ("ref", 0)), ("ref", 0))}


@clause("C07.shared_operand", "C07", gen=_gen_shared, nontrivial=_nontrivial)
def check_shared(case):
    """The same model object passed more than once to a gate (("ref", i) = the object that is operand i): the result
    evaluates to the gate's truth value with equal operand values (AND(x,x)=x, XOR(x,x)=0, XOR(x,x,x)=x, ...).
    Non-trivial: both truth values occur."""
    return _check_truth(case)


def _gen_unchanged(ctx):
    for c in _gen_models(ctx):
        yield c
    for c in _gen_shared(ctx):
        yield c
    rng = ctx.rng("c07.unchanged")
    n = ctx.pick(1500, 30000)
    for _ in range(n):
        int_only = rng.random() < 0.4
        labels = INTS[:rng.choice([2, 3])] if int_only else rng.sample(MIXED, rng.choice([2, 3, 4]))
        types = ["PUBO", "PCBO", "PUBOMatrix", "QUBOMatrix", "QUBO"] if int_only else ["PUBO", "PCBO", "QUBO"]
        yield {"expr": _rand_expr(rng, rng.choice([1, 2, 3]), labels, types, 3, True)}


def _has_model_operand(n):
    if _is_gate(n):
        return any(_is_gate(o) or _has_model_operand(o) for o in n[1:])
    return isinstance(n, tuple) and n[0] in ("var", "model", "dict")


@clause("C07.inputs_unchanged", "C07", gen=_gen_unchanged, nontrivial=lambda c: _has_model_operand(c["expr"]))
def check_unchanged(case):
    """No gate modifies its inputs: every model / dict operand of every gate call in the expression (leaf operands
    and the results of inner gates that are passed on) has the same terms and bookkeeping (mapping, variables, degree,
    constraints, name) after the call as before. Non-trivial: some gate receives a model or dict operand."""
    st, res, mutated = _evaluate(case)
    if st is not None:
        return st if isinstance(st, Skip) else None      # truth/KeyError failures are reported by the other clauses
    if mutated:
        g, path, j, b, a = mutated[0]
        return Fail("%s at position %r modified its operand %d: %r -> %r" % (g, path, j, b, a),
                    key="input-modified:" + g, observed=a, required=b)
    return None


# ---------------------------------------------------------------------------------------------
# known finding of round 4: hashable labels of one type that cannot be ordered among themselves
# ---------------------------------------------------------------------------------------------
def _gen_unorderable(ctx):
    for g in GATESN:
        yield {"expr": (g, ("lbl", ('x', 0)), ("lbl", ('x', 1)), ("lbl", (2, 3)))}
        yield {"expr": (g, ("lbl", (1, 'a')), ("lbl", ('a', 1)))}


@clause("C07.labels_unorderable_within_type", "C07", gen=_gen_unorderable, nontrivial=_nontrivial)
def check_unorderable(case):
    """Labels are hashable objects of any type; tuples whose elements have different types at the same position
    (('x', 0) and (2, 3)) are hashable labels of one type that Python cannot order. The gate must still return a
    model with the right truth table."""
    try:
        return _check_truth(case)
    except TypeError as e:
        return Fail("the gate raised TypeError: %s" % (str(e)[:120],), key="unorderable-labels-typeerror")


# ---------------------------------------------------------------------------------------------
# round 5: a leading label decides the type of the result, whatever the later operands are
# ---------------------------------------------------------------------------------------------
def _gen_leading_label(ctx):
    restrictive = [("var", "QUBO", 2), ("model", "QUBO", {(2, 3): 1}), ("var", "PUBOMatrix", 0),
                   ("var", "QUBOMatrix", 1), ("model", "PUBOMatrix", {(0, 1): 1}), ("model", "QUBOMatrix", {(0, 1): 1})]
    leads = [_L('a'), _L(0), _L(('t', 1))]
    for g in GATESN:
        for lead in leads:
            for r in restrictive:
                yield {"expr": (g, lead, r)}
                yield {"expr": (g, lead, _L(1), r)}
                yield {"expr": (g, lead, r, _L('b'))}
                yield {"expr": (g, (("OR", "AND", "XOR")[len(r[1]) % 3], lead, _L(3)), r, ("NOT", _L(4)))}
    rng = ctx.rng("c07.leading")
    for _ in range(ctx.pick(300, 6000)):
        g = rng.choice(GATESN)
        ops = [rng.choice(leads)]
        for _ in range(rng.choice([1, 2, 3])):
            ops.append(rng.choice(restrictive + [_L(rng.choice(MIXED)), ("NOT", _L(rng.choice(MIXED)))]))
        yield {"expr": tuple([g] + ops)}


@clause("C07.leading_label_operand", "C07", gen=_gen_leading_label, nontrivial=_nontrivial)
def check_leading_label(case):
    """A gate whose first operand is a label (or a gate over labels) builds a PUBO, so later operands of a more
    restrictive type - QUBO models in expressions over more than two variables, Matrix types next to non-integer
    labels - cannot make it fail: the result evaluates to the truth value of the expression on every assignment and
    no KeyError is raised. Non-trivial: both truth values occur."""
    e = case["expr"]
    if not _well_formed(e) or not _is_gate(e):
        return Skip("not a gate expression")
    vs = _labels_of(e)
    table = [(x, _tv(e, x)) for x in assignments(vs)]
    if any(t is None for _, t in table):
        return Skip("a model operand is not {0,1}-valued")
    try:
        P = _run(e, [])
    except KeyError as ex:
        if not _innermost_in_repo(sys.exc_info()[2]):
            raise
        return Fail("%s with a leading label raised KeyError: %s" % (e[0], ex), key="raised:KeyError:" + e[0])
    terms = {k: v for k, v in dict.items(P)}
    for x, want in table:
        have = peval(terms, x)
        if have != want:
            return Fail("at %r: model evaluates to %r, truth value is %r; model %r" % (x, have, want, terms),
                        key="truth-differs:" + e[0], observed=have, required=want)
    return None
