"""C08 bounded stand-in: the README workflow. A PCBO/PCSO with objective f and feasible integer constraints whose
weights exceed max f - min f keeps its constrained optimum through penalisation, degree reduction and solution
conversion.

Oracle: feasibility of an assignment is decided here from the constraint as *named in the case* (relation on a
polynomial evaluated with common.peval, or the truth table of the named gate), the constrained optimum by direct
enumeration of f over the feasible set. The library's own is_solution_valid / value are not used by the oracle.
The arg-min sets of the model and of its four forms are obtained with qubovert.utils.solve_*_bruteforce(...,
all_solutions=True) (their exactness is property C09).
"""
import itertools

from .common import (clause, Fail, Skip, LABELS, variables_of, assignments, peval, qv, cls_of)

RELS = {"eq": lambda v: v == 0, "ne": lambda v: v != 0, "lt": lambda v: v < 0, "le": lambda v: v <= 0,
        "gt": lambda v: v > 0, "ge": lambda v: v >= 0}
GATES_EQ = ["eq_AND", "eq_OR", "eq_XOR", "eq_NAND", "eq_NOR", "eq_XNOR", "eq_NOT", "eq_BUFFER"]
GATES_PLAIN = ["AND", "OR", "XOR", "NAND", "NOR", "XNOR", "NOT", "BUFFER"]
MAXVARS_QUICK = 12
MAXVARS_THOROUGH = 14
FORMS = {"pubo": ("to_pubo", "solve_pubo_bruteforce", False), "puso": ("to_puso", "solve_puso_bruteforce", True),
         "qubo": ("to_qubo", "solve_qubo_bruteforce", False), "quso": ("to_quso", "solve_quso_bruteforce", True)}


# ---------------------------------------------------------------------------------------------
# independent semantics of the constraints
# ---------------------------------------------------------------------------------------------
def _gate(g, ins):
    if g == "AND":
        return int(all(ins))
    if g == "OR":
        return int(any(ins))
    if g == "XOR":
        assert len(ins) == 2            # only the unambiguous two-input gate is generated
        return int(ins[0] != ins[1])
    if g == "NAND":
        return 1 - int(all(ins))
    if g == "NOR":
        return 1 - int(any(ins))
    if g == "XNOR":
        assert len(ins) == 2
        return int(ins[0] == ins[1])
    if g == "NOT":
        return 1 - ins[0]
    if g == "BUFFER":
        return ins[0]
    raise ValueError(g)


def _holds(con, x):
    if con[0] == "rel":
        return RELS[con[1]](peval(con[2], x))
    name, labs = con[1], con[2]
    vals = [x[l] for l in labs]
    if name.startswith("eq_"):
        # add_constraint_eq_G(a, *ins): a == G(ins); eq_NOT(a, b): NOT a == b; eq_BUFFER(a, b): a == b
        return vals[0] == _gate(name[3:], vals[1:])
    return _gate(name, vals) == 1


def _con_labels(con):
    return variables_of(con[2]) if con[0] == "rel" else list(con[2])


def _model_vars(case):
    vs = variables_of(case["f"])
    for con in case["cons"]:
        for l in _con_labels(con):
            if l not in vs:
                vs.append(l)
    return vs


def _analyse(case):
    """-> (vs, fmin, fmax, opt, feasible list) with opt None when nothing is feasible."""
    spin = case["type"] == "PCSO"
    vs = _model_vars(case)
    fvals, feas = [], []
    for x in assignments(vs, spin):
        v = peval(case["f"], x)
        fvals.append(v)
        if all(_holds(c, x) for c in case["cons"]):
            feas.append((v, x))
    opt = min(v for v, _ in feas) if feas else None
    return vs, min(fvals), max(fvals), opt, feas


def _build(case):
    """The README workflow on the real library: H = PCxO(f); H.add_constraint_...(..., lam=weight)."""
    vs, fmin, fmax, opt, feas = _analyse(case)
    H = cls_of(case["type"])(case["f"])
    kept = []
    for con, extra in zip(case["cons"], case["extras"]):
        lam = (fmax - fmin) + 1 + extra          # every weight exceeds max f - min f
        if con[0] == "rel":
            kw = {"lam": lam, "suppress_warnings": True}
            if con[1] != "eq":
                kw["log_trick"] = case["log_trick"]
            arg = dict(con[2])
            if case.get("argobj"):
                # the constraint is written as a model expression that the caller keeps and goes on editing
                arg = cls_of("PUSO" if case["type"] == "PCSO" else "PUBO")(arg)
                kept.append(arg)
            getattr(H, "add_constraint_%s_zero" % con[1])(arg, **kw)
        else:
            getattr(H, "add_constraint_" + con[1])(*con[2], lam=lam)
    for i, arg in enumerate(kept):
        if i % 2:
            arg *= -1
        else:
            arg += 7
    fork = case.get("fork")
    if fork:
        # a copy of the finished model gets one more constraint; the model itself must not notice
        H2 = {"copy": lambda m: m.copy(), "ctor": lambda m: type(m)(m), "plus0": lambda m: m + 0,
              "times1": lambda m: 1 * m}[fork["via"]](H)
        kw = {"lam": (fmax - fmin) + 1, "suppress_warnings": True}
        if fork["rel"] != "eq":
            kw["log_trick"] = case["log_trick"]
        getattr(H2, "add_constraint_%s_zero" % fork["rel"])(dict(fork["P"]), **kw)
        _FORKS.append(H2)          # keep it alive
        del _FORKS[:-4]
    return H, vs, opt, feas


_FORKS = []


def _labels_of(d):
    out = set()
    for k in d:
        out.update(k)
    return out


def _pre(case, H, vs, opt):
    if opt is None:
        return Skip("constraints are infeasible")
    if not set(vs) <= _labels_of(dict(H)):
        return Skip("a model variable does not occur in the penalised polynomial (solutions would not assign it)")
    return None


def _judge(case, sol, vs, opt, what):
    """sol: assignment in original labels (ancillas may be present). Must be feasible and f-optimal."""
    spin = case["type"] == "PCSO"
    if not isinstance(sol, dict) or not set(vs) <= set(sol):
        return Fail("%s: %r does not assign the model variables %r" % (what, sol, vs), key="solution-domain")
    x = {v: sol[v] for v in vs}
    dom = (1, -1) if spin else (0, 1)
    if any(v not in dom for v in x.values()):
        return Fail("%s: %r has values outside %r" % (what, x, dom), key="solution-values")
    bad = [c for c in case["cons"] if not _holds(c, x)]
    if bad:
        return Fail("%s: %r violates constraint %r" % (what, x, bad[0]), key="infeasible")
    fv = peval(case["f"], x)
    if fv != opt:
        return Fail("%s: %r is feasible but f = %r, constrained optimum is %r" % (what, x, fv, opt), key="suboptimal")
    return None


# ---------------------------------------------------------------------------------------------
# generators
# ---------------------------------------------------------------------------------------------
def _rand_lin(rng, labs, spin):
    ks = rng.sample(labs, rng.randint(min(2, len(labs)), min(3, len(labs))))
    t = {(k,): rng.choice([-2, -1, 1, 1, 2]) for k in ks}
    if rng.random() < 0.2 and len(ks) >= 2:
        t[(ks[0], ks[1])] = rng.choice([-1, 1, 2])
    if rng.random() < 0.75:
        t[()] = rng.choice([-2, -1, 1, 2] if not spin else [-1, 1, 0, 2])
        if not t[()]:
            del t[()]
    return t


def _rand_special(rng, labs, spin):
    """constraints in (or next to) the shapes the library encodes without slack variables: c*z +- c*x*y,
    x + y <= 1, 1 <= x + y, x <= y, sum <= k - with the signs and the relation varied, so that look-alikes of a
    special form are generated as often as the form itself"""
    c = rng.choice([1, 1, 2])
    shape = rng.choice(["zxy", "zxy", "zxy", "atmost1", "or", "xley", "sumk"])
    ls = rng.sample(labs, min(len(labs), 3))
    if shape == "zxy" and len(ls) >= 3:
        z, x, y = ls
        P = {(z,): rng.choice([c, -c]), (x, y): rng.choice([c, -c])}
        return ("rel", rng.choice(["eq", "eq", "le", "ge"]), P)
    if shape == "atmost1":
        P = {(l,): 1 for l in ls}
        P[()] = -1
        return ("rel", rng.choice(["le", "le", "eq"]), P)
    if shape == "or" and len(ls) >= 2:
        return ("rel", rng.choice(["ge", "le"]), {(ls[0],): 1, (ls[1],): 1, (): -1})
    if shape == "xley" and len(ls) >= 2:
        return ("rel", rng.choice(["le", "ge", "lt"]), {(ls[0],): 1, (ls[1],): -1})
    P = {(l,): 1 for l in ls}
    P[()] = -rng.choice([1, 2])
    return ("rel", "le", P)


def _rand_gate(rng, labs):
    name = rng.choice(GATES_EQ + GATES_PLAIN)
    g = name[3:] if name.startswith("eq_") else name
    if g in ("NOT", "BUFFER"):
        k = 1
    elif g in ("XOR", "XNOR"):
        k = 2
    else:
        k = rng.choice([2, 2, 3])
    k += 1 if name.startswith("eq_") else 0
    if k > len(labs):
        return None
    return ("gate", name, tuple(rng.sample(labs, k)))


def _rand_case(rng, tname, ctx):
    spin = tname == "PCSO"
    labs = rng.sample(LABELS, rng.choice([2, 3, 3, 4]))
    keys = []
    for d in (1, 2, 3):
        keys.extend(itertools.combinations(labs, d))
    ks = rng.sample(keys, rng.randint(1, min(4, len(keys))))
    f = {tuple(rng.sample(k, len(k))): rng.choice([-3, -2, -1, 1, 2, 3]) for k in ks}
    if rng.random() < 0.3:
        f[()] = rng.choice([-1, 2])
    cons = []
    for _ in range(rng.choice([1, 1, 2, 2, 3])):
        if not spin and rng.random() < 0.45:
            g = _rand_gate(rng, labs)
            if g:
                cons.append(g)
                continue
        if not spin and rng.random() < 0.3:
            cons.append(_rand_special(rng, labs, spin))
            continue
        cons.append(("rel", rng.choice(["le", "ge", "lt", "gt", "ne", "le", "ge", "eq"]), _rand_lin(rng, labs, spin)))
    return {"type": tname, "f": f, "cons": cons, "extras": [rng.choice([0, 0, 1, 5]) for _ in cons],
            "log_trick": rng.random() < 0.5}


def _fixed_cases():
    a, b, c = 'a', 0, ('t', 1)
    f1 = {(a,): -2, (b,): -3, (c,): -1, (a, b): 1}
    out = []
    # every relation once, both log_trick settings, on an objective whose unconstrained minimiser is infeasible
    for rel, ct in [("le", {(a,): 1, (b,): 1, (c,): 1, (): -1}), ("lt", {(a,): 1, (b,): 2, (): -2}),
                    ("ge", {(a,): -1, (b,): -1, (): 1}), ("gt", {(a,): -1, (c,): -2, (): 2}),
                    ("eq", {(a,): 1, (b,): 1, (c,): 1, (): -2}), ("ne", {(a,): 1, (b,): 1, (c,): -1, (): -1}),
                    ("eq", {(a,): 1, (b, c): -1}), ("le", {(a,): 1, (b,): -1})]:
        for lt in (True, False):
            out.append({"type": "PCBO", "f": f1, "cons": [("rel", rel, ct)], "extras": [0], "log_trick": lt})
    # every gate once
    for name in GATES_EQ + GATES_PLAIN:
        g = name[3:] if name.startswith("eq_") else name
        k = 1 if g in ("NOT", "BUFFER") else 2
        labs = (a, b, c)[:k + (1 if name.startswith("eq_") else 0)]
        out.append({"type": "PCBO", "f": f1, "cons": [("gate", name, labs)], "extras": [0], "log_trick": True})
        out.append({"type": "PCBO", "f": {(a, b, c): 2, (a,): -1, (c,): -1}, "cons": [("gate", name, labs)],
                    "extras": [1], "log_trick": True})
    # the README example shape: several constraints of different kinds together
    out.append({"type": "PCBO", "f": {(a,): -1, (b,): -2, (c,): -3, (a, c): 2},
                "cons": [("rel", "le", {(a,): 1, (b,): 1, (c,): 1, (): -2}), ("gate", "eq_AND", (a, b, c)),
                         ("rel", "ne", {(a,): 1, (b,): -1})], "extras": [0, 1, 0], "log_trick": True})
    out.append({"type": "PCBO", "f": {(a,): -1, (b,): -2, (c,): -3, (a, c): 2},
                "cons": [("gate", "XOR", (a, b)), ("rel", "ge", {(b,): 1, (c,): 1, (): -1}),
                         ("gate", "NAND", (b, c))], "extras": [0, 0, 5], "log_trick": False})
    f2 = {(a,): -3, (b,): -2, (c,): -2, (): 1}
    for s1 in (1, -1, 2, -2):
        for s2 in (1, -1):
            for rel in ("eq", "le", "ge"):
                out.append({"type": "PCBO", "f": f2, "cons": [("rel", rel, {(a,): s1, (b, c): s2 * abs(s1)})],
                            "extras": [0], "log_trick": True})
    g1 = {(a,): 2, (b,): 3, (c,): 1, (a, b): -1}
    for rel, ct in [("le", {(a,): 1, (b,): 1, (c,): 1, (): 1}), ("lt", {(a,): 1, (b,): 1}),
                    ("ge", {(a,): 1, (b,): 1, (c,): 1, (): -1}), ("gt", {(a,): 1, (c,): 2, (): 1}),
                    ("eq", {(a,): 1, (b,): 1, (c,): 1, (): -1}), ("ne", {(a,): 1, (b,): 1}),
                    ("eq", {(a,): 1, (b, c): -1})]:
        for lt in (True, False):
            out.append({"type": "PCSO", "f": g1, "cons": [("rel", rel, ct)], "extras": [0], "log_trick": lt})
    out.append({"type": "PCSO", "f": g1, "cons": [("rel", "le", {(a,): 1, (b,): 1, (c,): 1, (): 1}),
                                                 ("rel", "ne", {(a,): 1, (c,): 1}), ("rel", "eq", {(a, b): 1, (): 1})],
                "extras": [0, 1, 0], "log_trick": True})
    return out


def _gen(salt, quick_n, thorough_n):
    def gen(ctx):
        mv = ctx.pick(MAXVARS_QUICK, MAXVARS_THOROUGH)
        for case in _fixed_cases():
            if _analyse(case)[3] is not None:
                yield dict(case, maxvars=mv)
        rng = ctx.rng(salt)
        n, made, tries = ctx.pick(quick_n, thorough_n), 0, 0
        while made < n and tries < 50 * n:
            tries += 1
            case = _rand_case(rng, rng.choice(["PCBO", "PCBO", "PCSO"]), ctx)
            if _analyse(case)[3] is None:
                continue                        # infeasible: outside the precondition, not generated
            if not _nontrivial(case) and rng.random() < 0.75:
                continue                        # prefer cases in which the constraints change the answer
            made += 1
            if made % 4 == 1:
                case = dict(case, argobj=True)
            if made % 3 == 0:
                rels = [c[1] for c in case["cons"] if c[0] == "rel"]
                labs = _model_vars(case)
                if rels and len(labs) >= 2:
                    case = dict(case, fork={"via": ("copy", "ctor", "plus0", "times1")[(made // 3) % 4], "rel": rels[0],
                                            "P": _rand_lin(rng, labs, case["type"] == "PCSO")})
            yield dict(case, maxvars=mv)
    return gen


def _nontrivial(case):
    """The constraints matter: some infeasible assignment has an f value below the constrained optimum (so without
    the penalties the answer would be wrong), and f takes at least two values."""
    vs, fmin, fmax, opt, feas = _analyse(case)
    return opt is not None and fmin < opt and fmin != fmax


# ---------------------------------------------------------------------------------------------
# clauses
# ---------------------------------------------------------------------------------------------
@clause("C08.solve_bruteforce", "C08", gen=_gen("c08.sb", 300, 6000), nontrivial=_nontrivial)
def check_solve_bruteforce(case):
    """H.solve_bruteforce() returns an assignment whose model part (non-ancilla variables) satisfies every constraint
    and attains the minimum of f over the feasible set; with all_solutions=True every returned assignment does.
    Precondition: feasible integer constraints, each weight > max f - min f (computed exactly, +1). Non-trivial:
    some infeasible assignment has f below the constrained optimum."""
    H, vs, opt, feas = _build(case)
    p = _pre(case, H, vs, opt)
    if p:
        return p
    if len(_labels_of(dict(H))) > MAXVARS_THOROUGH:
        return Skip("scope")
    sol = H.solve_bruteforce()
    f = _judge(case, sol, vs, opt, "solve_bruteforce()")
    if f:
        return f
    sols = H.solve_bruteforce(all_solutions=True)
    if not isinstance(sols, list) or not sols:
        return Fail("solve_bruteforce(all_solutions=True) returned %r for a feasible problem" % (sols,),
                    key="no-solution")
    for s in sols:
        f = _judge(case, s, vs, opt, "solve_bruteforce(all_solutions=True) element")
        if f:
            return f
    return None


@clause("C08.unconstrained_minimisers", "C08", gen=_gen("c08.un", 400, 8000), nontrivial=_nontrivial)
def check_unconstrained(case):
    """Taken as an unconstrained problem (plain dict of H's terms handed to solve_pubo_bruteforce /
    solve_puso_bruteforce with all_solutions=True, no validity filter), the model's minimum equals the constrained
    optimum of f, and every minimiser, after remove_ancilla_from_solution, is feasible and f-optimal.
    Non-trivial: as C08.solve_bruteforce."""
    H, vs, opt, feas = _build(case)
    p = _pre(case, H, vs, opt)
    if p:
        return p
    d = dict(H)
    if len(_labels_of(d)) > MAXVARS_THOROUGH:
        return Skip("scope")
    spin = case["type"] == "PCSO"
    fn = getattr(qv().utils, "solve_puso_bruteforce" if spin else "solve_pubo_bruteforce")
    obj, sols = fn(d, all_solutions=True)
    if obj != opt:
        return Fail("unconstrained minimum of the penalised model is %r, constrained optimum of f is %r" % (obj, opt),
                    key="minimum-differs", observed=repr(d))
    for s in sols:
        x = H.remove_ancilla_from_solution(s)
        f = _judge(case, x, vs, opt, "minimiser of the penalised model")
        if f:
            return f
    return None


def _check_form(case, form):
    method, solver, spin_d = FORMS[form]
    H, vs, opt, feas = _build(case)
    p = _pre(case, H, vs, opt)
    if p:
        return p
    D = getattr(H, method)()
    labels = _labels_of(dict(D))
    if len(labels) > case.get("maxvars", MAXVARS_QUICK):
        return Skip("scope: %d variables in the %s form" % (len(labels), form))
    obj, sols = getattr(qv().utils, solver)(D, all_solutions=True)
    if obj is None or abs(obj - opt) > 1e-9 * max(1, abs(opt)):
        return Fail("minimum of H.%s() is %r, constrained optimum of f is %r" % (method, obj, opt),
                    key="minimum-differs", observed=repr(dict(D)))
    for s in sols:
        conv = H.convert_solution(s, spin=spin_d)
        x = H.remove_ancilla_from_solution(conv)
        f = _judge(case, x, vs, opt, "minimiser %r of H.%s() after convert_solution" % (s, method))
        if f:
            return f
    return None


@clause("C08.pubo_form", "C08", gen=_gen("c08.pubo", 500, 10000), nontrivial=_nontrivial)
def check_pubo_form(case):
    """Every minimiser of H.to_pubo() becomes, after H.convert_solution(s, spin=False) and
    remove_ancilla_from_solution, a feasible assignment minimising f over the feasible set; min H.to_pubo() equals the
    constrained optimum. Non-trivial: as C08.solve_bruteforce."""
    return _check_form(case, "pubo")


@clause("C08.puso_form", "C08", gen=_gen("c08.puso", 500, 10000), nontrivial=_nontrivial)
def check_puso_form(case):
    """Same for H.to_puso() with H.convert_solution(s, spin=True)."""
    return _check_form(case, "puso")


@clause("C08.qubo_form", "C08", gen=_gen("c08.qubo", 450, 9000), nontrivial=_nontrivial)
def check_qubo_form(case):
    """Same for H.to_qubo() (default reduction penalty; constraint ancillas and reduction ancillas together) with
    H.convert_solution(s, spin=False). Cases whose QUBO has more variables than the scope limit are skipped."""
    return _check_form(case, "qubo")


@clause("C08.quso_form", "C08", gen=_gen("c08.quso", 450, 9000), nontrivial=_nontrivial)
def check_quso_form(case):
    """Same for H.to_quso() with H.convert_solution(s, spin=True)."""
    return _check_form(case, "quso")


# ---------------------------------------------------------------------------------------------
# remove_ancilla_from_solution
# ---------------------------------------------------------------------------------------------
def _gen_remove(ctx):
    for case in _gen("c08.rm", 150, 3000)(ctx):
        yield {"kind": "workflow", "case": case}
    sols = [{}, {'a': 1}, {'__a0': 1}, {'a': 0, '__a0': 1, '__a1': 0, 0: 1, ('t', 1): 0, '__a10': 1},
            {'_a0': 1, 'a__a0': 0, '__b': 1, 1: -1, '__a3': -1}, {('__a0',): 1, '__a0': 0, 3: 1}]
    for tname in ("PCBO", "PCSO"):
        for s in sols:
            yield {"kind": "synthetic", "type": tname, "sol": s}


@clause("C08.remove_ancilla", "C08", gen=_gen_remove,
        nontrivial=lambda c: (any(k[0] == "rel" and k[1] != "eq" for k in c["case"]["cons"])
                              if c["kind"] == "workflow" else any(str(k).startswith("__a") for k in c["sol"])))
def check_remove_ancilla(case):
    """remove_ancilla_from_solution returns exactly the non-ancilla part of a solution: the entries whose label's
    str does not start with '__a', values untouched, argument not modified; on a solution of the workflow model this
    is exactly the assignment of the model's own variables. Non-trivial: the solution contains an ancilla (synthetic
    cases) / the model has an inequality constraint, the kind that introduces ancillas (workflow cases)."""
    if case["kind"] == "synthetic":
        cls = cls_of(case["type"])
        sol = dict(case["sol"])
        got = cls.remove_ancilla_from_solution(sol)
        want = {k: v for k, v in case["sol"].items() if not str(k).startswith("__a")}
        if got != want:
            return Fail("remove_ancilla_from_solution(%r) = %r, expected %r" % (case["sol"], got, want),
                        key="remove-ancilla")
        if sol != case["sol"]:
            return Fail("remove_ancilla_from_solution modified its argument", key="remove-ancilla-mutates")
        return None
    wc = case["case"]
    H, vs, opt, feas = _build(wc)
    p = _pre(wc, H, vs, opt)
    if p:
        return p
    if len(_labels_of(dict(H))) > MAXVARS_THOROUGH:
        return Skip("scope")
    for sol in H.solve_bruteforce(all_solutions=True)[:4]:
        before = dict(sol)
        got = H.remove_ancilla_from_solution(sol)
        want = {k: v for k, v in before.items() if not str(k).startswith("__a")}
        if got != want:
            return Fail("remove_ancilla_from_solution(%r) = %r, expected %r" % (before, got, want),
                        key="remove-ancilla")
        if set(got) != set(vs):
            return Fail("non-ancilla part %r is not over the model's variables %r" % (got, vs),
                        key="remove-ancilla-domain")
        if sol != before:
            return Fail("remove_ancilla_from_solution modified its argument", key="remove-ancilla-mutates")
    return None


# ---------------------------------------------------------------------------------------------
# constraints over variables that end up in no term of the model
# ---------------------------------------------------------------------------------------------
def _gen_free_constraint_vars(ctx):
    a, b, c, d = 'a', 0, ('t', 1), 'd'
    sat = [("le", {(c,): 1, (d,): 1, (): -2}), ("le", {(c,): 1, (): -1}), ("lt", {(c,): 1, (d,): 1, (): -3}),
           ("ge", {(c,): 1, (d,): 1}), ("gt", {(c,): 1, (): 1}), ("ne", {(c,): 1, (d,): 1, (): 1})]
    ssat = [("le", {(c,): 1, (d,): 1, (): -2}), ("lt", {(c,): 1, (): -2}), ("ge", {(c,): 1, (d,): 1, (): 2}),
            ("gt", {(c, d): 1, (): 2}), ("ne", {(c,): 1, (d,): 1, (): 1})]
    for tname, fs, cons in (("PCBO", [{(a,): 1}, {(a,): -2, (b,): 1, (a, b): 2}, {}], sat),
                            ("PCSO", [{(a,): 1}, {(a, b): 1, (b,): -1}], ssat)):
        for f in fs:
            for con in cons:
                for lt in (True, False):
                    # (i) a constraint that every assignment satisfies, over variables the objective does not use
                    yield {"type": tname, "f": f, "cons": [("rel",) + con], "extras": [0], "log_trick": lt, "lam0": False}
            # (ii) a constraint that is only recorded (lam=0 is the documented way to do that), together with one
            #      that is enforced
            enforced = ("rel", "le", {(a,): 1, (): (-1 if tname == "PCSO" else 0)})
            yield {"type": tname, "f": f, "cons": [("rel", "le", {(c,): 1, (d,): 1, (): -2}), enforced], "extras": [0, 0],
                   "log_trick": True, "lam0": True}


@clause("C08.constraint_variables_without_terms", "C08", gen=_gen_free_constraint_vars)
def check_constraint_variables_without_terms(case):
    """A feasible constraint may involve variables the objective does not use; when the constraint adds no term to
    the model (every assignment satisfies it, or it is recorded with lam=0), solve_bruteforce() must still return a
    feasible assignment minimising f over the feasible set - in particular one that assigns the constraint's
    variables, since feasibility cannot be read off without them."""
    vs, fmin, fmax, opt, feas = _analyse(case)
    if opt is None:
        return Skip("infeasible")
    H = cls_of(case["type"])(case["f"])
    for i, con in enumerate(case["cons"]):
        lam = 0 if (case["lam0"] and i == 0) else (fmax - fmin) + 1
        kw = {"lam": lam, "suppress_warnings": True}
        if con[1] not in ("eq", "ne"):
            kw["log_trick"] = case["log_trick"]
        getattr(H, "add_constraint_%s_zero" % con[1])(dict(con[2]), **kw)
    if set(vs) <= _labels_of(dict(H)):
        return Skip("every variable occurs in a term")
    try:
        sol = H.solve_bruteforce()
    except KeyError as ex:
        return Fail("solve_bruteforce() raised KeyError(%s): the recorded constraint mentions a variable that is not "
                    "a variable of the model" % (ex,), key="constraint-variable-not-in-model")
    if isinstance(sol, dict) and not set(vs) <= set(sol):
        return Fail("solve_bruteforce() returned %r, which does not assign the constraint's variables %r"
                    % (sol, [v for v in vs if v not in sol]), key="constraint-variable-not-in-model")
    return _judge(case, sol, vs, opt, "solve_bruteforce()")
