"""C04 bounded stand-in: boolean/spin conversions, enumerations and exports preserve the function.

Everything is judged on truth tables with common.peval under the fixed correspondence
boolean 0 <-> spin 1, boolean 1 <-> spin -1 (common.b2s / common.s2b); a round trip is never used as oracle.
"""
import itertools

from .common import (clause, Fail, Skip, LABELS, INT_LABELS, COEFS, canonical_keys, raw_keys, all_small_models,
                     variables_of, assignments, peval, b2s, s2b, close, qv, cls_of, MATRIX_TYPES, SPIN_TYPES,
                     BOOL_TYPES)

LABELLED = ["QUBO", "QUSO", "PUBO", "PUSO", "PCBO", "PCSO"]

# function -> (source is spin, source kind for key validity, documented type rule {input type name: result type name})
FNS = {
    "pubo_to_puso": (False, "pubo", {"PUBOMatrix": "PUSOMatrix", "dict": "PUSO", "QUBO": "PUSO", "PUBO": "PUSO",
                                     "PCBO": "PUSO"}),
    "puso_to_pubo": (True, "puso", {"PUSOMatrix": "PUBOMatrix", "dict": "PUBO", "QUSO": "PUBO", "PUSO": "PUBO",
                                    "PCSO": "PUBO"}),
    "qubo_to_quso": (False, "qubo", {"QUBOMatrix": "QUSOMatrix", "dict": "QUSO", "QUBO": "QUSO"}),
    "quso_to_qubo": (True, "quso", {"QUSOMatrix": "QUBOMatrix", "dict": "QUBO", "QUSO": "QUBO"}),
}


def _kind(tname):
    if tname in ("QUBO", "QUBOMatrix"):
        return "qubo"
    if tname in ("QUSO", "QUSOMatrix"):
        return "quso"
    return "puso" if tname in SPIN_TYPES else "pubo"


def _odd(key):
    return [l for l in dict.fromkeys(key) if key.count(l) % 2]


def _valid_key(kind, key):
    """Is `key` a legal raw key for a model / function of this kind (degree limit of the quadratic kinds)."""
    if kind == "qubo":
        return len(set(key)) <= 2
    if kind == "quso":
        return len(_odd(key)) <= 2
    return True


def _pool(labels, kind, maxlen, raw):
    ks = raw_keys(labels, maxlen) if raw else canonical_keys(labels, maxlen)
    return [k for k in ks if _valid_key(kind, k)]


def _rand_terms(rng, pool, coefs, max_terms, allow_zero=False, min_terms=0):
    cs = list(coefs) + ([0] if allow_zero else [])
    ks = rng.sample(pool, min(rng.randint(min_terms, max_terms), len(pool)))
    return {k: rng.choice(cs) for k in ks}


def _labels(tname, n):
    return (INT_LABELS if tname in MATRIX_TYPES else LABELS)[:n]


def _has_var(terms):
    return any(k and v for k, v in terms.items())


def _build(tname, terms):
    return dict(terms) if tname == "dict" else cls_of(tname)(terms)


def _compare_tables(src, src_spin, dst, dst_spin, labelmap=None, what=""):
    """src, dst: plain term dicts. Evaluate both on every assignment of src's labels (dst through labelmap and the
    boolean/spin correspondence). Returns a Fail or None."""
    vs = variables_of(src)
    if labelmap is None:
        labelmap = {l: l for l in vs}
    image = [labelmap[l] for l in vs]
    foreign = [l for l in variables_of(dst) if l not in image]
    if foreign:
        return Fail("%sresult uses labels %r that are not (images of) source labels %r" % (what, foreign, vs),
                    key="foreign-label")
    for x in assignments(vs, src_spin):
        xc = x if src_spin == dst_spin else (s2b(x) if src_spin else b2s(x))
        y = {labelmap[l]: v for l, v in xc.items()}
        a, b = peval(src, x), peval(dst, y)
        if not close(a, b):
            return Fail("%svalue differs at %r: source %r, result %r (result terms %r)" % (what, x, a, b, dst),
                        key="value-differs", observed=b, required=a)
    return None


# ---------------------------------------------------------------------------------------------
# 1. the four functions on raw dicts
# ---------------------------------------------------------------------------------------------
def _gen_fn_dicts(ctx):
    for fn, (spin, kind, _) in FNS.items():
        deg = 2 if kind in ("qubo", "quso") else 3
        for terms in all_small_models(LABELS[:3], deg, [-2, 1, 0.5], 2):
            yield {"fn": fn, "type": "dict", "terms": terms}
        # every single raw key (unsorted / repeated labels) of length <= 3 over three mixed labels
        for k in _pool(['a', 0, ('t', 1)], kind, 3, True):
            yield {"fn": fn, "type": "dict", "terms": {k: 2}}
        # pairs of raw keys that collapse onto the same canonical key
        for k1, k2 in [(('a', 'b'), ('b', 'a')), (('a', 'a'), ('a',)), ((0, 'a', 0), ('a',)), ((0, 1), (1, 0, 0))]:
            if _valid_key(kind, k1) and _valid_key(kind, k2):
                yield {"fn": fn, "type": "dict", "terms": {k1: 1, k2: -2}}
                yield {"fn": fn, "type": "dict", "terms": {k1: 1, k2: -1, (): 0.5}}
    rng = ctx.rng("c04.fn_dicts")
    n = ctx.pick(4000, 60000)
    nl = ctx.pick(4, 5)
    for fn, (spin, kind, _) in FNS.items():
        pool = _pool(LABELS[:nl], kind, 4, True)
        for _ in range(n):
            yield {"fn": fn, "type": "dict", "terms": _rand_terms(rng, pool, COEFS, 5, allow_zero=True)}


def _check_fn(case, check_type):
    q = qv()
    fn = getattr(q.utils, case["fn"])
    spin, kind, rule = FNS[case["fn"]]
    tname = case["type"]
    M = _build(tname, case["terms"])
    src = dict(M)                      # the function handed to the converter, as stored
    R = fn(M)
    if check_type:
        if tname not in rule:
            return Skip("no documented type rule for %s into %s" % (tname, case["fn"]))
        want = cls_of(rule[tname])
        if type(R) is not want:
            return Fail("%s(%s) returned %s, documented %s" % (case["fn"], tname, type(R).__name__, want.__name__),
                        key="result-type:%s:%s" % (case["fn"], tname))
        return None
    return _compare_tables(src, spin, dict(R), not spin)


@clause("C04.fn_raw_dicts", "C04", gen=_gen_fn_dicts, nontrivial=lambda c: _has_var(c["terms"]))
def check_fn_dicts(case):
    """pubo_to_puso / puso_to_pubo / qubo_to_quso / quso_to_qubo on plain dicts (keys unsorted, with repeated labels,
    zero values, mixed label types): the result's value at the corresponding spin (boolean) assignment equals the
    direct evaluation of the source dict at every boolean (spin) assignment, and the result mentions no label that
    is absent from the source. Non-trivial: the dict has a non-constant term with non-zero coefficient."""
    return _check_fn(case, False)


# ---------------------------------------------------------------------------------------------
# 2. the four functions on model objects of every type
# ---------------------------------------------------------------------------------------------
def _fn_inputs(fn):
    spin, kind, _ = FNS[fn]
    types = SPIN_TYPES if spin else BOOL_TYPES
    if kind in ("qubo", "quso"):
        return types               # higher-degree types are given models of degree <= 2
    return types


def _gen_fn_models(ctx):
    rng = ctx.rng("c04.fn_models")
    n = ctx.pick(400, 6000)
    for fn, (spin, kind, _) in FNS.items():
        for t in _fn_inputs(fn):
            k = kind if kind in ("qubo", "quso") else _kind(t)
            deg = 2 if k in ("qubo", "quso") else 3
            for terms in all_small_models(_labels(t, 3), deg, [-1, 2], 1):
                yield {"fn": fn, "type": t, "terms": terms}
            pool_c = _pool(_labels(t, 4), k, 2 if k in ("qubo", "quso") else 4, False)
            pool_r = _pool(_labels(t, 4), k, 4, True)
            for i in range(n):
                pool = pool_r if i % 3 == 0 else pool_c
                yield {"fn": fn, "type": t, "terms": _rand_terms(rng, pool, COEFS, 5, allow_zero=(i % 5 == 0))}


@clause("C04.fn_models", "C04", gen=_gen_fn_models, nontrivial=lambda c: _has_var(c["terms"]))
def check_fn_models(case):
    """The four conversion functions applied to model objects of all ten types (boolean types into the *bo_to_*so
    functions, spin types into the *so_to_*bo functions; degree <= 2 for the quadratic functions): result value
    equals the model's stored polynomial on every corresponding assignment. Non-trivial: non-constant model."""
    return _check_fn(case, False)


def _gen_fn_types(ctx):
    rng = ctx.rng("c04.fn_types")
    n = ctx.pick(40, 400)
    for fn, (spin, kind, rule) in FNS.items():
        for t in rule:
            k = kind if kind in ("qubo", "quso") else (_kind(t) if t != "dict" else kind)
            labels = _labels(t, 3) if t != "dict" else LABELS[:3]
            yield {"fn": fn, "type": t, "terms": {}}
            yield {"fn": fn, "type": t, "terms": {(): 2}}
            pool = _pool(labels, k, 2 if k in ("qubo", "quso") else 3, False)
            for _ in range(n):
                yield {"fn": fn, "type": t, "terms": _rand_terms(rng, pool, COEFS, 3)}
        # plain dicts with integer labels 0..n-1 are still "anything else": labelled result
        yield {"fn": fn, "type": "dict", "terms": {(0,): 1, (0, 1): -1}}


@clause("C04.fn_result_types", "C04", gen=_gen_fn_types, nontrivial=lambda c: True if c["terms"] else False)
def check_fn_types(case):
    """Documented type rule of the four functions: the function's own Matrix type in gives the corresponding Matrix
    type out (PUBOMatrix->PUSOMatrix, PUSOMatrix->PUBOMatrix, QUBOMatrix->QUSOMatrix, QUSOMatrix->QUBOMatrix), a plain
    dict or a labelled model gives the labelled type (PUSO / PUBO / QUSO / QUBO); exact types. Inputs for which the
    docstrings give no unambiguous rule (e.g. QUBOMatrix into pubo_to_puso) are not judged. Non-trivial: non-empty
    input."""
    return _check_fn(case, True)


# ---------------------------------------------------------------------------------------------
# 3. to_pubo / to_puso / to_qubo / to_quso / to_enumerated without degree reduction
# ---------------------------------------------------------------------------------------------
METHOD_RESULT = {"to_pubo": "PUBOMatrix", "to_puso": "PUSOMatrix", "to_qubo": "QUBOMatrix", "to_quso": "QUSOMatrix"}
ENUM_RESULT = {"QUBO": "QUBOMatrix", "QUSO": "QUSOMatrix", "PUBO": "PUBOMatrix", "PCBO": "PUBOMatrix",
               "PUSO": "PUSOMatrix", "PCSO": "PUSOMatrix"}


def _make_labelled(case):
    """Build the labelled model of the case: optional `dead` keys are added and subtracted first (they leave
    bookkeeping traces but no term), then the terms are entered with +=, or through the constructor."""
    T = cls_of(case["type"])
    if case.get("how") == "cleared":
        # the object first held another model over other labels (in another order), was clear()ed, and was then
        # filled with the terms: nothing of the earlier enumeration may survive
        M = T({('zz', 'yy'): 1, ('yy',): 2, ('b',): 3, (0,): 1})
        M.clear()
        for k, v in case["terms"].items():
            M[k] += v
        return M
    if case.get("how") == "declared":
        # the enumeration of some labels is declared first with set_mapping / set_reverse_mapping - with gaps, as in
        # the library's own test (d.set_reverse_mapping({0: 'a', 2: 'b'})) - then the terms are entered; labels that
        # were not declared get numbers of their own
        M = T()
        if case["rev"]:
            M.set_reverse_mapping({v: l for l, v in case["decl"].items()})
        else:
            M.set_mapping(dict(case["decl"]))
        for k, v in case["terms"].items():
            M[k] += v
        return M
    if case.get("how", "ctor") == "ctor" and not case.get("dead"):
        return T(case["terms"])
    M = T()
    for k in case.get("dead", []):
        M[k] += 1
        M[k] -= 1
    for k, v in case["terms"].items():
        M[k] += v
    return M


def _true_degree(terms):
    return max([len(k) for k in terms] or [0])


def _gen_methods(ctx):
    rng = ctx.rng("c04.methods")
    n = ctx.pick(600, 10000)
    for t in LABELLED:
        k = _kind(t)
        deg = 2 if k in ("qubo", "quso") else 3
        for terms in all_small_models(LABELS[:3], deg, [-1, 2], 1):
            yield {"type": t, "terms": terms, "how": "ctor"}
        yield {"type": t, "terms": {(1,): 1, (0,): 2, (1, 0): -1}, "how": "ctor"}     # integer labels, mapping != id
        yield {"type": t, "terms": {('b',): 1, ('a',): 2, ('b', 'a'): -1}, "how": "edits"}
        for rev in (False, True):
            # declared enumerations with gaps, then a label that was not declared
            yield {"type": t, "terms": {('a', 'b'): 1, ('a',): 2}, "how": "declared", "decl": {'a': 0, 'b': 2}, "rev": rev}
            yield {"type": t, "terms": {('a', 'b'): 1, ('a',): 2, ('c',): -3, ('a', 'c'): 1}, "how": "declared",
                   "decl": {'a': 0, 'b': 2}, "rev": rev}
            yield {"type": t, "terms": {('c', 'b'): 1, ('a',): 2, ('c',): -3, ('d', 'a'): 5}, "how": "declared",
                   "decl": {'a': 3, 'b': 1}, "rev": rev}
        pool_c = _pool(LABELS[:4], k, deg + (0 if deg == 2 else 1), False)
        pool_r = _pool(LABELS[:4], k, 4, True)
        for i in range(n):
            raw = i % 3 == 0
            c = {"type": t, "terms": _rand_terms(rng, pool_r if raw else pool_c, COEFS, 4),
                 "how": "ctor" if i % 2 else "edits"}
            if i % 4 == 0:
                c["dead"] = rng.sample(pool_c[1:], 1)
            yield c


@clause("C04.methods_enumerate", "C04", gen=_gen_methods, nontrivial=lambda c: _has_var(c["terms"]))
def check_methods(case):
    """For labelled models (QUBO, QUSO, PUBO, PUSO, PCBO, PCSO; built by constructor or by += edits, possibly after a
    cancelled term) every one of to_pubo(), to_puso(), to_enumerated(), and to_qubo(), to_quso() when the stored
    degree is <= 2 (no reduction required), returns a Matrix object of the documented type whose labels are
    M.mapping integers and whose value, at the image of an assignment under M.mapping and the boolean/spin
    correspondence, equals M's stored polynomial. Non-trivial: non-constant model."""
    t = case["type"]
    M = _make_labelled(case)
    src = dict(M)
    mspin = t in SPIN_TYPES
    mapping = M.mapping
    missing = [l for l in variables_of(src) if l not in mapping]
    if missing:
        return Fail("labels %r of the model are not in mapping %r" % (missing, mapping), key="label-missing-in-mapping")
    methods = ["to_pubo", "to_puso", "to_enumerated"]
    if _true_degree(src) <= 2:
        methods += ["to_qubo", "to_quso"]
    # source polynomial over all mapped labels (dead labels get a zero-free dummy presence through the label map)
    labels = list(mapping)
    for m in methods:
        R = getattr(M, m)()
        want = ENUM_RESULT[t] if m == "to_enumerated" else METHOD_RESULT[m]
        if type(R) is not cls_of(want):
            return Fail("%s.%s() returned %s, documented %s" % (t, m, type(R).__name__, want),
                        key="method-result-type:%s" % m)
        rspin = want in SPIN_TYPES
        Rd = dict(R)
        image = set(mapping.values())
        bad = [l for l in variables_of(Rd) if l not in image]
        if bad:
            return Fail("%s() uses labels %r outside mapping %r" % (m, bad, mapping), key="label-not-in-mapping:%s" % m)
        for x in assignments(labels, mspin):
            xc = x if mspin == rspin else (s2b(x) if mspin else b2s(x))
            y = {mapping[l]: v for l, v in xc.items()}
            if case.get("how") == "declared":
                # convert_solution undoes the relabelling also when the declared enumeration has gaps
                back = M.convert_solution(dict(y), spin=rspin)
                want_x = x if mspin == rspin else xc
                if back != {l: (want_x if mspin == rspin else x)[l] for l in labels} and back != x:
                    return Fail("%s: convert_solution(%r, spin=%r) = %r, expected %r (mapping %r)"
                                % (t, y, rspin, back, x, mapping), key="convert-declared-gaps")
            a, b = peval(src, x), peval(Rd, y)
            if not close(a, b):
                return Fail("%s.%s(): value differs at %r: model %r, result %r; mapping %r result %r"
                            % (t, m, x, a, b, mapping, Rd), key="value-differs:%s" % m, observed=b, required=a)
    return None


# ---------------------------------------------------------------------------------------------
# 4. convert_solution
# ---------------------------------------------------------------------------------------------
def _gen_convert(ctx, stale=False):
    rng = ctx.rng("c04.convert" + ("s" if stale else ""))
    n = ctx.pick(250, 4000)
    for t in LABELLED:
        k = _kind(t)
        deg = 2 if k in ("qubo", "quso") else 3
        pool_c = _pool(LABELS[:3], k, deg, False)
        pool_r = _pool(LABELS[:3], k, 3, True)
        pool_sq = [key for key in pool_r if len(_odd(key)) < len(set(key))]      # a label is squashed away (spin)
        if t in SPIN_TYPES:
            pool_r = [key for key in pool_r if key not in pool_sq]
        if not stale:
            yield {"type": t, "terms": {}, "how": "ctor"}
            yield {"type": t, "terms": {(): 1}, "how": "ctor"}
            yield {"type": t, "terms": {(1,): 1, (0,): 2, (1, 0): -1}, "how": "ctor"}
            yield {"type": t, "terms": {('b',): 1, ('a',): -2}, "how": "ctor"}
            yield {"type": t, "terms": {('b',): 1, ('a',): -2, ('a', 'b'): 3}, "how": "cleared"}
            for i in range(n):
                yield {"type": t, "terms": _rand_terms(rng, pool_r if i % 3 == 0 else pool_c, COEFS, 4, min_terms=1),
                       "how": "cleared" if i % 5 == 4 else ("ctor" if i % 2 else "edits")}
        else:
            # labels that were seen by the model but carry no term: zero-valued entry, squashed-away label
            yield {"type": t, "terms": {('a',): 0, ('b',): 1}, "how": "ctor", "why": "zero-value-label"}
            yield {"type": t, "terms": {('b',): 1, ('a',): 0}, "how": "ctor", "why": "zero-value-label"}
            if t in SPIN_TYPES:
                yield {"type": t, "terms": {('a', 'a', 'b'): 1}, "how": "ctor", "why": "squashed-label"}
                yield {"type": t, "terms": {('b',): 2, ('a', 'b', 'a'): 1}, "how": "ctor", "why": "squashed-label"}
            for i in range(n // 3):
                terms = _rand_terms(rng, pool_c[1:], COEFS, 3, min_terms=1)
                if t in SPIN_TYPES and i % 2:
                    extra = rng.choice(pool_sq)
                    if extra in terms:
                        continue
                    terms[extra] = rng.choice(COEFS)
                    yield {"type": t, "terms": terms, "how": "ctor" if i % 4 == 1 else "edits",
                           "why": "squashed-label"}
                    continue
                extra = rng.choice(pool_c[1:])
                if extra in terms:
                    continue
                terms[extra] = 0
                yield {"type": t, "terms": terms, "how": "ctor" if i % 4 == 0 else "edits", "why": "zero-value-label"}


def _containers(sol_list):
    yield "dict", dict(enumerate(sol_list))
    yield "list", list(sol_list)
    yield "tuple", tuple(sol_list)


def _check_convert(case):
    t = case["type"]
    M = _make_labelled(case)
    remap = case.get("remap")
    if remap:
        # a user-chosen enumeration (documented API): a permutation of 0..n-1 that is not the order of first
        # appearance, handed over as a dict that is not listed in index order
        labels = list(M.mapping)
        m = len(labels)
        perm = {"reverse": lambda i: m - 1 - i, "rotate": lambda i: (i + 1) % m}[remap.split(":")[0]]
        if remap.endswith(":rev_api"):
            M.set_reverse_mapping({perm(i): l for i, l in enumerate(labels)})
        else:
            M.set_mapping({l: perm(i) for i, l in enumerate(labels)})
    src = dict(M)
    mspin = t in SPIN_TYPES
    why = case.get("why", "")
    mapping = M.mapping
    n = len(mapping)
    live = variables_of(src)
    if any(l not in mapping for l in live):
        return Fail("model labels missing from mapping %r" % (mapping,), key="label-missing-in-mapping")
    if case.get("how", "ctor") in ("ctor", "cleared") and not case.get("dead") and set(mapping) != set(M.variables):
        # built by the constructor, or clear()ed and refilled: nothing was cancelled, so the enumeration that
        # convert_solution undoes is the enumeration of exactly the model's variables
        return Fail("mapping %r enumerates labels that are not variables %r of a model built without cancellations"
                    % (mapping, sorted(M.variables, key=repr)), key="mapping-not-variables" + (":" + why if why else ""))
    forms = {False: dict(M.to_pubo()), True: dict(M.to_puso())}      # the enumerated model in boolean / spin form
    for sspin in (False, True):
        F = forms[sspin]
        if any(not isinstance(l, int) or not 0 <= l < n for l in variables_of(F)):
            return Fail("enumerated form uses labels outside 0..%d: %r" % (n - 1, F),
                        key="enumerated-label-out-of-range" + (":" + why if why else ""))
        for vals in itertools.product((1, -1) if sspin else (0, 1), repeat=n):
            want = peval(F, dict(enumerate(vals)))
            ambiguous = all(v == 1 for v in vals)        # includes the empty solution
            default_is_spin = mspin                       # documented defaults: False for boolean, True for spin
            flags = []
            if not ambiguous:
                flags = [None, False, True]               # "ignored if possible"
            else:
                flags = [sspin] + ([None] if default_is_spin == sspin else [])
            for cname, sol in _containers(vals):
                for flag in flags:
                    res = M.convert_solution(sol) if flag is None else M.convert_solution(sol, spin=flag)
                    tag = "%s solution %r as %s, spin=%r" % ("spin" if sspin else "boolean", vals, cname, flag)
                    if not isinstance(res, dict):
                        return Fail("convert_solution returned %r (%s)" % (res, tag), key="convert-not-dict")
                    lost = [l for l in live if l not in res]
                    if lost:
                        return Fail("convert_solution result %r lacks model labels %r (%s); mapping %r, "
                                    "num_binary_variables %r" % (res, lost, tag, mapping, M.num_binary_variables),
                                    key="convert-solution-misses-label" + (":" + why if why else ""))
                    dom = (1, -1) if mspin else (0, 1)
                    if any(v not in dom for v in res.values()):
                        return Fail("convert_solution result %r not in the model's own domain (%s)" % (res, tag),
                                    key="convert-wrong-domain:%s:%s" % (cname, "spin" if sspin else "bool"))
                    got = peval(src, res)
                    if not close(got, want):
                        return Fail("model at convert_solution(%s) = %r is %r, enumerated model gives %r"
                                    % (tag, res, got, want),
                                    key="convert-value:%s:%s" % (cname, "spin" if sspin else "bool"),
                                    observed=got, required=want)
                    mv = M.value(res)
                    if not close(mv, want):
                        return Fail("M.value(convert_solution(%s)) = %r, enumerated model gives %r" % (tag, mv, want),
                                    key="convert-M.value:%s" % cname, observed=mv, required=want)
    return None


@clause("C04.convert_solution", "C04", gen=lambda ctx: _gen_convert(ctx, False),
        nontrivial=lambda c: _has_var(c["terms"]))
def check_convert(case):
    """For labelled models M with n mapped labels and every solution s of the enumerated model in boolean form
    (to_pubo) or spin form (to_puso), given as dict, list or tuple: M.convert_solution(s) is a dict over M's labels
    in M's own domain, and both the direct evaluation of M's stored polynomial and M.value at it equal the enumerated
    form's value at s. The `spin` flag is left out, False or True when s is unambiguous (documented as ignored);
    for an all-ones (or empty) s only the truthful flag is used, plus the default when the documented default
    (False for boolean models, True for spin models) is truthful. Non-trivial: non-constant model."""
    return _check_convert(case)


def _gen_convert_remap(ctx):
    rng = ctx.rng("c04.convert.remap")
    n = ctx.pick(60, 1500)
    for t in LABELLED:
        k = _kind(t)
        deg = 2 if k in ("qubo", "quso") else 3
        pool_c = _pool(LABELS[:3], k, deg, False)
        for remap in ("reverse", "rotate", "reverse:rev_api", "rotate:rev_api"):
            yield {"type": t, "terms": {('b',): 1, ('a',): -2, ('a', 'b'): 3, (0,): 1}, "how": "ctor", "remap": remap}
            yield {"type": t, "terms": {(1,): 1, (0,): 2, (1, 0): -1}, "how": "ctor", "remap": remap}
            for i in range(n // 4):
                yield {"type": t, "terms": _rand_terms(rng, pool_c, COEFS, 4, min_terms=2),
                       "how": "ctor" if i % 2 else "edits", "remap": remap}


@clause("C04.convert_solution_user_mapping", "C04", gen=_gen_convert_remap,
        nontrivial=lambda c: len(variables_of(c["terms"])) >= 2)
def check_convert_remap(case):
    """Same contract as C04.convert_solution after the user replaced the enumeration by a permutation through
    set_mapping / set_reverse_mapping (reversed or rotated indices; the dict handed over is not listed in index
    order): the enumerated forms and convert_solution must both follow M.mapping. Non-trivial: >= 2 variables."""
    return _check_convert(case)


@clause("C04.convert_solution_unused_labels", "C04", gen=lambda ctx: _gen_convert(ctx, True),
        nontrivial=lambda c: _has_var(c["terms"]))
def check_convert_stale(case):
    """Same contract as C04.convert_solution for models whose input mentions a label that carries no term (a
    zero-valued entry, or for spin models a label squashed away by z*z = 1). Failure keys carry the reason
    (`zero-value-label` / `squashed-label`). Non-trivial: non-constant model."""
    return _check_convert(case)


# ---------------------------------------------------------------------------------------------
# 5. exports: Q, h / J, matrix_to_qubo, qubo_to_matrix
# ---------------------------------------------------------------------------------------------
def _is_zero_function(terms):
    return all(close(peval(terms, x), 0) for x in assignments(variables_of(terms)))


def _const_diff(pairs):
    """pairs of (a, b): a - b must be the same for all."""
    ds = [a - b for a, b in pairs]
    return all(close(d, ds[0]) for d in ds)


def _gen_exports(ctx):
    rng = ctx.rng("c04.exports")
    n = ctx.pick(1500, 25000)
    for t in ("QUBOMatrix", "QUBO", "QUSOMatrix", "QUSO"):
        kind = _kind(t)
        what = "Q" if kind == "qubo" else "hJ"
        for terms in all_small_models(_labels(t, 3), 2, [-1, 2], 2):
            yield {"what": what, "type": t, "terms": terms}
        pool = _pool(_labels(t, 4), kind, 3, True)
        for _ in range(n):
            yield {"what": what, "type": t, "terms": _rand_terms(rng, pool, COEFS, 5)}
    # matrix_to_qubo: every 2x2 matrix over a small coefficient set, random 3x3 / 4x4; list and array
    for vals in itertools.product([0, 1, -2], repeat=4):
        for arr in (False, True):
            yield {"what": "matrix_to_qubo", "matrix": [list(vals[:2]), list(vals[2:])], "array": arr}
    yield {"what": "matrix_to_qubo", "matrix": [], "array": True, "expect_error": True}
    yield {"what": "matrix_to_qubo", "matrix": [[1]], "array": False}
    for _ in range(n):
        d = rng.choice([1, 3, 3, 4])
        yield {"what": "matrix_to_qubo", "matrix": [[rng.choice([0, 0, 1, -1, 2, 0.5]) for _ in range(d)]
                                                    for _ in range(d)], "array": rng.random() < 0.5}
    # qubo_to_matrix: dict / QUBOMatrix, raw keys, symmetric or not, array or list
    pool = [k for k in _pool(INT_LABELS[:4], "qubo", 3, True) if k]
    for k in pool[:60]:
        for sym in (False, True):
            yield {"what": "qubo_to_matrix", "type": "dict", "terms": {k: 2}, "symmetric": sym, "array": not sym}
    for _ in range(n):
        terms = _rand_terms(rng, pool, COEFS, 5, allow_zero=True, min_terms=1)
        if _is_zero_function(terms):
            continue               # kept out of the random part; two explicit cases follow
        yield {"what": "qubo_to_matrix", "type": rng.choice(["dict", "QUBOMatrix"]), "terms": terms,
               "symmetric": rng.random() < 0.5, "array": rng.random() < 0.5}
    yield {"what": "qubo_to_matrix", "type": "dict", "terms": {(0,): 0}, "symmetric": False, "array": True,
           "note": "all-zero dict"}
    yield {"what": "qubo_to_matrix", "type": "dict", "terms": {(0, 1): 1, (1, 0): -1}, "symmetric": True,
           "array": False, "note": "entries cancel"}


def _nontrivial_export(c):
    if c["what"] == "matrix_to_qubo":
        return any(v for row in c["matrix"] for v in row)
    return _has_var(c["terms"])


@clause("C04.exports", "C04", gen=_gen_exports, nontrivial=_nontrivial_export)
def check_exports(case):
    """QUBOMatrix.Q / QUBO.Q (sum Q[i,j] x_i x_j), QUSOMatrix.h,.J / QUSO.h,.J (sum h_i z_i + sum J_ij z_i z_j),
    matrix_to_qubo(m) (x^T m x; list of lists or numpy array, any square matrix) and qubo_to_matrix(Q, symmetric,
    array) (dict with raw keys or QUBOMatrix, non-empty, no constant) differ from the model / matrix they come from
    by a constant on all assignments. Non-trivial: the model / matrix has a non-zero non-constant entry."""
    q = qv()
    w = case["what"]
    if w in ("Q", "hJ"):
        M = cls_of(case["type"])(case["terms"])
        src = dict(M)
        vs = variables_of(src)
        if w == "Q":
            Q = M.Q
            if not isinstance(Q, dict) or any(not isinstance(k, tuple) or len(k) != 2 for k in Q):
                return Fail("Q is not a dict keyed by pairs: %r" % (Q,), key="Q-format")
            if any(l not in vs for k in Q for l in k):
                return Fail("Q mentions foreign labels: %r" % (Q,), key="foreign-label")
            pairs = [(peval(src, x), sum(v * x[i] * x[j] for (i, j), v in Q.items())) for x in assignments(vs)]
            if not _const_diff(pairs):
                return Fail("Q=%r is not the model %r up to a constant" % (Q, src), key="Q-function")
            return None
        h, J = M.h, M.J
        if any(l not in vs for l in h) or any(l not in vs for k in J for l in k):
            return Fail("h/J mention foreign labels: %r %r" % (h, J), key="foreign-label")
        if any(not isinstance(k, tuple) or len(k) != 2 for k in J):
            return Fail("J is not keyed by pairs: %r" % (J,), key="J-format")
        pairs = [(peval(src, z), sum(v * z[i] for i, v in h.items()) + sum(v * z[i] * z[j] for (i, j), v in J.items()))
                 for z in assignments(vs, True)]
        if not _const_diff(pairs):
            return Fail("h=%r J=%r is not the model %r up to a constant" % (h, J, src), key="hJ-function")
        return None
    if w == "matrix_to_qubo":
        import numpy as np
        m = case["matrix"]
        arg = np.array(m) if case["array"] else [list(r) for r in m]
        if case.get("expect_error"):
            try:
                q.utils.matrix_to_qubo(arg)
            except ValueError:
                return None
            return Fail("non-square / non-2d input accepted", key="matrix_to_qubo-shape-accepted")
        R = q.utils.matrix_to_qubo(arg)
        if type(R) is not q.utils.QUBOMatrix:
            return Fail("matrix_to_qubo returned %s" % type(R).__name__, key="matrix_to_qubo-type")
        n = len(m)
        Rd = dict(R)
        if any(l not in range(n) for l in variables_of(Rd)):
            return Fail("labels outside 0..n-1: %r" % (Rd,), key="foreign-label")
        pairs = [(sum(m[i][j] * x[i] * x[j] for i in range(n) for j in range(n)), peval(Rd, x))
                 for x in assignments(range(n))]
        if not _const_diff(pairs):
            return Fail("matrix_to_qubo(%r) = %r is a different function" % (m, Rd), key="matrix_to_qubo-function")
        return None
    # qubo_to_matrix
    terms = case["terms"]
    arg = dict(terms) if case["type"] == "dict" else cls_of(case["type"])(terms)
    live = variables_of({k: v for k, v in terms.items() if v})
    try:
        mat = q.utils.qubo_to_matrix(arg, symmetric=case["symmetric"], array=case["array"])
    except ValueError:
        if _is_zero_function(terms):
            return None            # documented refusal of an (effectively) empty QUBO
        raise
    except Exception as e:      # noqa
        if _is_zero_function(terms):
            return Fail("qubo_to_matrix(%r) raised %s: %s (documented: a matrix, or ValueError for an empty QUBO)"
                        % (terms, type(e).__name__, e),
                    key="qubo_to_matrix-raises-%s:zero-function-dict" % type(e).__name__)
        raise
    vs = variables_of(terms)
    n = len(mat)
    if any(len(row) != n for row in mat):
        return Fail("matrix not square: %r" % (mat,), key="qubo_to_matrix-shape")
    if any(l >= n for l in live):
        return Fail("matrix of size %d cannot hold labels %r" % (n, live), key="qubo_to_matrix-shape")
    allv = sorted(set(vs) | set(range(n)))
    pairs = [(peval(terms, x), sum(mat[i][j] * x[i] * x[j] for i in range(n) for j in range(n)))
             for x in assignments(allv)]
    if not _const_diff(pairs):
        return Fail("qubo_to_matrix(%r, symmetric=%r) = %r is a different function"
                    % (terms, case["symmetric"], [list(r) for r in mat]), key="qubo_to_matrix-function")
    return None
