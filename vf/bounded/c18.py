"""C18 bounded stand-in: subvalue / subgraph / normalize preserve the represented function.

Cases are literals:
  {"form": "function"|"method", "type": T|"dict", "kind": "bool"|"spin", "terms": {...},
   "values": {label: number | ("sym", name)}}                                   subvalue
  {..., "nodes": [labels], "connections": None | {label: number | ("sym", name)}}  subgraph
  {"form": ..., "type": ..., "terms": {...}, "value": number}                      normalize
The polynomial denoted by G is the one stored in G when the call is made (dict.items(G), read before the call) and
is evaluated directly with common.peval; the library's own .value is never used.
"""
import itertools

from .common import (clause, Fail, Skip, COEFS, MODEL_TYPES, BOOL_TYPES, SPIN_TYPES, MATRIX_TYPES, DEG2_TYPES,
                     canonical_keys, raw_keys, all_small_models, variables_of, assignments, peval, qv, cls_of,
                     close, snapshot)

LBL = ['a', 0, ('t', 1), 'b', 1, ('t', 0)]
ILBL = [0, 1, 2, 3]
SYM_POINTS = [-2, 0, 1, 0.5, 3]          # numeric points at which symbolic results are compared


# ---------------------------------------------------------------------------------------------
# helpers
# ---------------------------------------------------------------------------------------------
def _items(m):
    return {k: v for k, v in dict.items(m)}


def _coerce_terms(terms, ctype):
    """real coefficients of a numeric type that is not int / float (the property says: real coefficients)"""
    if not ctype:
        return terms
    import fractions
    import numpy as np
    conv = {"fraction": lambda v: fractions.Fraction(v).limit_denominator(64), "np_int64": lambda v: np.int64(round(4 * v)),
            "np_float64": np.float64, "np_float32": np.float32,
            # what subvalue / subgraph leave behind: numpy integers for folded terms next to floats
            "mixed_np": lambda v: np.int64(round(4 * v)) if float(4 * v).is_integer() and abs(v) >= 1 else np.float64(v)}[ctype]
    return {k: conv(v) for k, v in terms.items()}


def _scale(case):
    """coefficient scale of the case: a power of two (so that scaling is exact in double arithmetic). The function
    identities are compared relative to it - a coefficient of size 1e-21 is as much a coefficient as one of size 1."""
    return case.get("scale") or 1


def _build(case):
    terms = _coerce_terms(case["terms"], case.get("ctype"))
    if case.get("scale"):
        terms = {k: v * case["scale"] for k, v in terms.items()}
    return dict(terms) if case["type"] == "dict" else cls_of(case["type"])(terms)


def _spin(case):
    return case["kind"] == "spin"


def _sym_names(mapping):
    return sorted({v[1] for v in (mapping or {}).values() if isinstance(v, tuple)})


def _concrete(mapping, env=None):
    """the literal mapping with ("sym", name) replaced by sympy symbols (env None) or by the numbers env[name]."""
    if mapping is None:
        return None
    out = {}
    for k, v in mapping.items():
        if isinstance(v, tuple):
            if env is None:
                import sympy
                out[k] = sympy.Symbol(v[1])
            else:
                out[k] = env[v[1]]
        else:
            out[k] = v
    return out


def _num(c, env):
    """numeric value of a (possibly sympy) coefficient under the symbol environment env {name: number}."""
    if hasattr(c, "subs") and hasattr(c, "free_symbols"):
        import sympy
        return float(c.subs({sympy.Symbol(n): v for n, v in env.items()}))
    return c


def _envs(names):
    if not names:
        return [{}]
    return [dict(zip(names, pt)) for pt in itertools.islice(itertools.product(SYM_POINTS, repeat=len(names)), 0, 25)]


def _pool(rng, T, n):
    if T in MATRIX_TYPES:
        return ILBL[:n]
    start = rng.randrange(len(LBL))
    return [LBL[(start + i) % len(LBL)] for i in range(n)]


def _rand_terms(rng, labels, T, maxlen=3, max_terms=4, coefs=COEFS):
    """term dict admissible for type T (raw keys with repeats for plain dicts)."""
    if T == "dict":
        ks = raw_keys(labels, min(maxlen, 3))
        coefs = list(coefs) + [0]
    else:
        ks = canonical_keys(labels, 2 if T in DEG2_TYPES else maxlen)
    t = rng.randint(0, max_terms)
    return {k: rng.choice(coefs) for k in rng.sample(ks, min(t, len(ks)))}


def _all_types(kind):
    return (SPIN_TYPES if kind == "spin" else BOOL_TYPES) + ["dict"]


def _has_var_term(case):
    return any(k and v for k, v in case["terms"].items())


# ---------------------------------------------------------------------------------------------
# subvalue
# ---------------------------------------------------------------------------------------------
def _gen_subvalue(form):
    def gen(ctx):
        types = ["PUBO", "PUSO", "QUSOMatrix"] + (["dict"] if form == "function" else [])
        for T in types:
            kind = "spin" if T in SPIN_TYPES else "bool"
            labels = ILBL[:3] if T in MATRIX_TYPES else ['a', 0, ('t', 1)]
            dom = (1, -1) if kind == "spin" else (0, 1)
            for terms in all_small_models(labels, 2, [-1, 2], 2):
                for pat in itertools.product((None,) + dom, repeat=3):
                    values = {l: v for l, v in zip(labels, pat) if v is not None}
                    yield {"form": form, "type": T, "kind": kind, "terms": terms, "values": values}
        # integer values whose product leaves the 64-bit range (Python integers are exact)
        for T in types:
            kind = "spin" if T in SPIN_TYPES else "bool"
            labels = ILBL[:3] if T in MATRIX_TYPES else ['a', 0, ('t', 1)]
            big = {labels[0]: 2 ** 40, labels[1]: 2 ** 40}
            if not T.startswith("Q"):
                yield {"form": form, "type": T, "kind": kind, "terms": {tuple(labels): 1, (labels[2],): 3}, "values": big}
            yield {"form": form, "type": T, "kind": kind, "terms": {(labels[0], labels[1]): -3, (): 1},
                   "values": {labels[0]: 3 ** 25, labels[1]: -(3 ** 25)}}
        rng = ctx.rng("c18.subvalue." + form)
        n = ctx.pick(300, 6000)
        for kind in ("bool", "spin"):
            dom = (1, -1) if kind == "spin" else (0, 1)
            for T in _all_types(kind):
                if T == "dict" and form == "method":
                    continue
                for _ in range(n):
                    labels = _pool(rng, T, rng.choice([2, 3, 4]))
                    terms = _rand_terms(rng, labels, T)
                    pool = list(dom) * 3 + [2, -3, 0.5, 0]
                    values = {l: rng.choice(pool) for l in labels if rng.random() < 0.5}
                    if rng.random() < 0.25:          # a label that does not occur in G
                        values[7 if T in MATRIX_TYPES else 'zz'] = rng.choice(dom)
                    yield {"form": form, "type": T, "kind": kind, "terms": terms, "values": values}
                    if rng.random() < 0.12:      # the same model at a very small / very large coefficient scale
                        yield {"form": form, "type": T, "kind": kind, "terms": terms, "values": values,
                               "scale": rng.choice([2.0 ** -70, 2.0 ** -55, 2.0 ** 45])}
    return gen


def _call_subvalue(case, G, values):
    if case["form"] == "method":
        return G.subvalue(values)
    return qv().utils.subvalue(values, G)


def _check_subvalue_fn(case):
    G = _build(case)
    before = _items(G)
    names = _sym_names(case["values"])
    D = _call_subvalue(case, G, _concrete(case["values"]))
    if not isinstance(D, dict):
        return Fail("result is %s, not a dict/model" % type(D).__name__, key="result-not-dict")
    got = _items(D)
    rest = [v for v in variables_of(before) if v not in case["values"]]
    for k in got:
        if any(i in case["values"] for i in k):
            return Fail("result key %r still contains a substituted variable" % (k,), key="variable-not-removed")
        if any(i not in rest for i in k):
            return Fail("result key %r mentions a variable that does not occur in G" % (k,), key="unknown-variable")
    for env in _envs(names):
        vals = _concrete(case["values"], env)
        gnum = {k: _num(c, env) for k, c in got.items()}
        for x in assignments(rest, _spin(case)):
            ext = dict(x)
            ext.update(vals)
            want = peval(before, ext) / _scale(case)
            have = peval(gnum, x) / _scale(case)
            if not close(have, want, 1e-9):
                return Fail("at %r (values %r): result gives %r, G at the extended assignment gives %r; result %r"
                            % (x, vals, have, want, got), key="function-differs", observed=have, required=want)
    return None


def _subvalue_nontrivial(case):
    vs = variables_of({k: v for k, v in case["terms"].items() if v})
    return any(v in case["values"] for v in vs)


@clause("C18.subvalue_function", "C18", gen=_gen_subvalue("function"), nontrivial=_subvalue_nontrivial)
def check_subvalue_function(case):
    """subvalue(values, G): for every assignment x of the variables of G not in `values` (boolean 0/1 or spin 1/-1),
    the result evaluated at x equals G evaluated at x extended by `values`; substituted variables no longer occur in
    the result. G ranges over all ten model types and plain dicts (raw keys with repeated labels), `values` over
    partial maps with domain values, other numbers and labels that do not occur in G. Non-trivial: `values` fixes a
    variable that occurs in G with non-zero coefficient."""
    return _check_subvalue_fn(case)


@clause("C18.subvalue_method", "C18", gen=_gen_subvalue("method"), nontrivial=_subvalue_nontrivial)
def check_subvalue_method(case):
    """G.subvalue(values) for every model type: same contract as C18.subvalue_function. Non-trivial: `values` fixes
    a variable that occurs in G."""
    return _check_subvalue_fn(case)


def _gen_subvalue_type(ctx):
    rng = ctx.rng("c18.subvalue.type")
    n = ctx.pick(60, 1200)
    for kind in ("bool", "spin"):
        dom = (1, -1) if kind == "spin" else (0, 1)
        for T in _all_types(kind):
            for form in ("function", "method"):
                if T == "dict" and form == "method":
                    continue
                labels = _pool(rng, T, 3)
                yield {"form": form, "type": T, "kind": kind, "terms": {}, "values": {}}
                yield {"form": form, "type": T, "kind": kind, "terms": {(labels[0],): 1}, "values": {labels[0]: dom[1]}}
                for _ in range(n):
                    labels = _pool(rng, T, rng.choice([2, 3]))
                    values = {l: rng.choice(dom) for l in labels if rng.random() < 0.5}
                    yield {"form": form, "type": T, "kind": kind, "terms": _rand_terms(rng, labels, T),
                           "values": values}


@clause("C18.subvalue_type", "C18", gen=_gen_subvalue_type, nontrivial=lambda c: c["type"] != "dict")
def check_subvalue_type(case):
    """type(subvalue(values, G)) is type(G), and type(G.subvalue(values)) is type(G), for every model type and for
    plain dicts (also when G or `values` is empty, or everything is substituted). Non-trivial: G is a model."""
    G = _build(case)
    D = _call_subvalue(case, G, dict(case["values"]))
    if type(D) is not type(G):
        return Fail("subvalue of a %s returned a %s" % (type(G).__name__, type(D).__name__), key="result-type")
    return None


# ---------------------------------------------------------------------------------------------
# subgraph
# ---------------------------------------------------------------------------------------------
def _gen_subgraph(form):
    def gen(ctx):
        types = ["PUBO", "PUSO", "QUBOMatrix"] + (["dict"] if form == "function" else [])
        for T in types:
            kind = "spin" if T in SPIN_TYPES else "bool"
            labels = ILBL[:3] if T in MATRIX_TYPES else ['a', 0, ('t', 1)]
            for terms in all_small_models(labels, 2, [2], 2):
                terms = dict(terms)
                terms[()] = 5                                   # a constant that must be ignored
                for r in range(0, 4):
                    for nodes in itertools.combinations(labels, r):
                        outside = [l for l in labels if l not in nodes]
                        yield {"form": form, "type": T, "kind": kind, "terms": terms, "nodes": list(nodes),
                               "connections": None}
                        for pat in itertools.product((None, 1, -3), repeat=len(outside)):
                            con = {l: v for l, v in zip(outside, pat) if v is not None}
                            yield {"form": form, "type": T, "kind": kind, "terms": terms, "nodes": list(nodes),
                                   "connections": con}
        rng = ctx.rng("c18.subgraph." + form)
        n = ctx.pick(300, 6000)
        for kind in ("bool", "spin"):
            dom = (1, -1) if kind == "spin" else (0, 1)
            for T in _all_types(kind):
                if T == "dict" and form == "method":
                    continue
                for _ in range(n):
                    labels = _pool(rng, T, rng.choice([2, 3, 4]))
                    terms = _rand_terms(rng, labels, T)
                    nodes = [l for l in labels if rng.random() < 0.5]
                    if rng.random() < 0.2:
                        nodes.append(7 if T in MATRIX_TYPES else 'zz')           # a node that is not in G
                    if rng.random() < 0.25:
                        con = None
                    else:
                        pool = list(dom) * 2 + [2, -3, 0.5, 0]
                        con = {l: rng.choice(pool) for l in labels if rng.random() < 0.6}   # may mention nodes too
                    yield {"form": form, "type": T, "kind": kind, "terms": terms, "nodes": nodes, "connections": con}
                    if rng.random() < 0.12:
                        yield {"form": form, "type": T, "kind": kind, "terms": terms, "nodes": nodes, "connections": con,
                               "scale": rng.choice([2.0 ** -70, 2.0 ** -55, 2.0 ** 45])}
    return gen


def _call_subgraph(case, G, nodes, con):
    if case["form"] == "method":
        return G.subgraph(nodes) if con is None else G.subgraph(nodes, con)
    f = qv().utils.subgraph
    return f(G, nodes) if con is None else f(G, nodes, con)


def _check_subgraph(case):
    G = _build(case)
    before = _items(G)
    noconst = {k: v for k, v in before.items() if k != ()}
    nodes = list(case["nodes"])
    names = _sym_names(case["connections"])
    D = _call_subgraph(case, G, set(nodes), _concrete(case["connections"]))
    if not isinstance(D, dict):
        return Fail("result is %s, not a dict/model" % type(D).__name__, key="result-not-dict")
    got = _items(D)
    for k in got:
        if any(i not in nodes for i in k):
            return Fail("result key %r mentions a variable outside `nodes` %r" % (k, nodes), key="outside-variable")
    outside = [v for v in variables_of(before) if v not in nodes]
    for env in _envs(names):
        con = _concrete(case["connections"], env) or {}
        gnum = {k: _num(c, env) for k, c in got.items()}
        for x in assignments(nodes, _spin(case)):
            ext = {v: con.get(v, 0) for v in outside}
            ext.update(x)
            want = peval(noconst, ext) / _scale(case)
            have = peval(gnum, x) / _scale(case)
            if not close(have, want, 1e-9):
                return Fail("nodes %r at %r, connections %r: subgraph gives %r, G without constant with outside "
                            "variables fixed gives %r; result %r" % (nodes, x, con, have, want, got),
                            key="function-differs", observed=have, required=want)
    return None


def _subgraph_nontrivial(case):
    vs = variables_of({k: v for k, v in case["terms"].items() if v})
    return any(v in case["nodes"] for v in vs) and any(v not in case["nodes"] for v in vs)


@clause("C18.subgraph_function", "C18", gen=_gen_subgraph("function"), nontrivial=_subgraph_nontrivial)
def check_subgraph_function(case):
    """subgraph(G, nodes, connections): as a function of the variables in `nodes`, the result equals G without its
    constant term with every variable outside `nodes` fixed to connections.get(v, 0) (0 when `connections` is
    omitted), on every assignment of `nodes`; the result mentions no variable outside `nodes`. All model types and
    plain dicts (raw keys); `nodes` may contain labels that do not occur in G, `connections` may mention nodes.
    Non-trivial: G has variables both inside and outside `nodes`."""
    return _check_subgraph(case)


@clause("C18.subgraph_method", "C18", gen=_gen_subgraph("method"), nontrivial=_subgraph_nontrivial)
def check_subgraph_method(case):
    """G.subgraph(nodes, connections) for every model type: same contract as C18.subgraph_function. Non-trivial: G
    has variables both inside and outside `nodes`."""
    return _check_subgraph(case)


# ---------------------------------------------------------------------------------------------
# symbolic substituted values (kept apart from the numeric clauses)
# ---------------------------------------------------------------------------------------------
def _gen_symbolic(ctx):
    rng = ctx.rng("c18.symbolic")
    n = ctx.pick(40, 800)
    for kind in ("bool", "spin"):
        dom = (1, -1) if kind == "spin" else (0, 1)
        for T in _all_types(kind):
            for _ in range(n):
                labels = _pool(rng, T, 3)
                terms = _rand_terms(rng, labels, T, max_terms=3, coefs=[-2, -1, 1, 2, 3])
                k = rng.choice([1, 1, 2])
                picked = rng.sample(labels, k)
                values = {l: ("sym", "s%d" % i) for i, l in enumerate(picked)}
                for l in labels:
                    if l not in values and rng.random() < 0.3:
                        values[l] = rng.choice(dom)
                yield {"what": "subvalue", "form": "function", "type": T, "kind": kind, "terms": terms,
                       "values": values}
                nodes = [l for l in labels if l not in picked]
                yield {"what": "subgraph", "form": "function", "type": T, "kind": kind, "terms": terms,
                       "nodes": nodes, "connections": values}


def _symbolic_nontrivial(case):
    m = case["values"] if case["what"] == "subvalue" else case["connections"]
    sym = [l for l, v in m.items() if isinstance(v, tuple)]
    return any(v and any(i in sym for i in k) for k, v in case["terms"].items())


@clause("C18.symbolic_values", "C18", gen=_gen_symbolic, nontrivial=_symbolic_nontrivial)
def check_symbolic(case):
    """subvalue / subgraph with sympy symbols as substituted values: after replacing each symbol by a number (a grid
    of sample points) the result satisfies the numeric contracts of C18.subvalue_function / C18.subgraph_function.
    Non-trivial: a symbol is substituted for a variable that occurs in G."""
    return _check_subvalue_fn(case) if case["what"] == "subvalue" else _check_subgraph(case)


# ---------------------------------------------------------------------------------------------
# normalize
# ---------------------------------------------------------------------------------------------
VALUES = [1, 2, 0.5, 3, 10]


def _gen_normalize(form):
    def gen(ctx):
        types = [t for t in MODEL_TYPES] + (["dict"] if form == "function" else [])
        for T in ("PUBO", "PUSO", "dict", "QUBOMatrix"):
            if T == "dict" and form == "method":
                continue
            labels = ILBL[:2] if T in MATRIX_TYPES else ['a', ('t', 1)]
            for terms in all_small_models(labels, 2, [-4, 1, 0.5], 3):
                if terms:
                    yield {"form": form, "type": T, "terms": terms, "value": None}
                    yield {"form": form, "type": T, "terms": terms, "value": 3}
        rng = ctx.rng("c18.normalize." + form)
        n = ctx.pick(300, 6000)
        # scaled coefficients that become zero (requested magnitude 0; a quotient that underflows): the key is dropped
        for T in types:
            labels = _pool(rng, T, 2)
            yield {"form": form, "type": T, "terms": {(labels[0],): 1, (labels[1],): 2, (): -4}, "value": 0}
            yield {"form": form, "type": T, "terms": {(labels[0],): 1e200, (labels[1],): 1e-200, (labels[0], labels[1]): 3.0},
                   "value": None}
        # coefficients of other real types (Fraction, numpy scalars, and the numpy mix that subvalue leaves behind)
        for ctype in ("fraction", "np_int64", "np_float64", "np_float32", "mixed_np"):
            for T in types:
                labels = _pool(rng, T, 2)
                yield {"form": form, "type": T, "terms": {(labels[0],): -4, (labels[0], labels[1]): 1, (): 0.5},
                       "value": None, "ctype": ctype}
                for _ in range(ctx.pick(4, 60)):
                    terms = _rand_terms(rng, labels, T, coefs=[-7, -2, -1, 1, 2, 0.5, 3, 4, 0.25, 6])
                    if any(terms.values()):
                        yield {"form": form, "type": T, "terms": terms, "value": rng.choice([None] + VALUES), "ctype": ctype}
        for T in types:
            for _ in range(n):
                labels = _pool(rng, T, rng.choice([1, 2, 3]))
                terms = _rand_terms(rng, labels, T, coefs=[-7, -2, -1, 1, 2, 0.5, 3, 4, 0.25, 6])
                if not any(terms.values()):
                    continue
                yield {"form": form, "type": T, "terms": terms, "value": rng.choice([None] + VALUES)}
    return gen


def _check_normalize(case):
    D = _build(case)
    before = _items(D)
    if not any(before.values()):
        return Skip("no non-zero coefficient: there is no largest magnitude")
    value = case["value"]
    target = 1 if value is None else value
    snap = snapshot(D)
    if case["form"] == "method":
        if value is None:
            D.normalize()
        else:
            D.normalize(value)
        res = D
    else:
        f = qv().utils.normalize
        res = f(D) if value is None else f(D, value)
        if snapshot(D) != snap:
            return Fail("normalize(D) changed its argument: %r -> %r" % (before, _items(D)), key="argument-mutated")
    want_type = dict if case["type"] == "dict" else cls_of(case["type"])
    if type(res) is not want_type:
        return Fail("type changed from %s to %s" % (case["type"], type(res).__name__), key="result-type")
    got = _items(res)
    for k in got:
        if k not in before:
            return Fail("new key %r in the normalized result" % (k,), key="new-key")
    kmax = max(before, key=lambda k: abs(before[k]))
    big = abs(before[kmax])
    m = got.get(kmax, 0) / before[kmax]
    for k, v in before.items():
        if not close(got.get(k, 0), m * v, 1e-9):
            return Fail("coefficients are not scaled by one common factor: %r -> %r (factor %r from key %r)"
                        % (before, got, m, kmax), key="no-common-factor", observed=got, required=before)
    top = max(abs(v) for v in got.values()) if got else 0
    if not close(top, target, 1e-9) or not close(abs(m) * big, target, 1e-9):
        return Fail("largest magnitude after normalize is %r, requested %r: %r -> %r" % (top, target, before, got),
                    key="largest-magnitude", observed=top, required=target)
    return None


def _normalize_nontrivial(case):
    vs = [abs(v) for v in case["terms"].values() if v]
    return len(set(vs)) >= 2


@clause("C18.normalize_function", "C18", gen=_gen_normalize("function"), nontrivial=_normalize_nontrivial)
def check_normalize_function(case):
    """normalize(D, value) (value defaults to 1) for D with at least one non-zero coefficient: returns an object of
    D's type whose coefficients are those of D times one common factor, the largest magnitude being `value`; D itself
    is not modified. All ten model types and plain dicts (raw keys, zero coefficients allowed). Non-trivial: D has
    coefficients of at least two different magnitudes."""
    return _check_normalize(case)


@clause("C18.normalize_method", "C18", gen=_gen_normalize("method"), nontrivial=_normalize_nontrivial)
def check_normalize_method(case):
    """M.normalize(value) (in place, value defaults to 1) for every model type with at least one term: afterwards the
    coefficients of M are the previous ones times one common factor, the largest magnitude is `value`, no key is
    added or lost, and M keeps its type. Non-trivial: coefficients of at least two different magnitudes."""
    return _check_normalize(case)
