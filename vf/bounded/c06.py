"""C06 bounded stand-in: the sixteen logical constraint methods of PCBO penalise exactly the violating assignments.

Operands are written in the case as nested tuples:
    ("v", label)                              a label (any hashable type)
    ("dict", {key: coef})                     a plain dict, the PUBO form of a {0,1}-valued expression
    ("model", "PUBO"|"PCBO", {..})            the same as a model object (QUBO objects are not used: sat.BUFFER
                                              keeps their type by design, so products beyond degree 2 raise)
    (gate, operand, ...)                      gate in buffer/not/and/nand/or/nor/xor/xnor: built with qubovert.sat
The oracle evaluates operands and gates with Python logic on the truth table over the operands' labels.
"""
import itertools

from .common import clause, Fail, Skip, qv, cls_of, LABELS, gen_models, variables_of, peval
from .c02 import (LAMS, TOL, RELS, HOLDS, plain, poly_diff, table, assignment, fmt_x, is_anc, build_pre, _spot_check,
                  anc_estimate, sum_enclosure)

GATES = {
    "buffer": lambda v: v[0] == 1,
    "not": lambda v: v[0] == 0,
    "and": lambda v: all(v),
    "nand": lambda v: not all(v),
    "or": lambda v: any(v),
    "nor": lambda v: not any(v),
    "xor": lambda v: sum(v) % 2 == 1,
    "xnor": lambda v: sum(v) % 2 == 0,
}
MULTI = ("AND", "OR", "XOR", "NAND", "NOR", "XNOR")
SINGLE = ("NOT", "BUFFER")
METHODS = [g for g in MULTI + SINGLE] + ["eq_" + g for g in MULTI + SINGLE]


def arities(method, maxn):
    """admissible numbers of arguments: plain multi gates 1..maxn operands; eq forms: first argument plus >= 2
    operands; NOT/BUFFER one operand (eq: first argument plus one)."""
    g = method[3:] if method.startswith("eq_") else method
    if g in SINGLE:
        return [2] if method.startswith("eq_") else [1]
    if method.startswith("eq_"):
        return list(range(3, maxn + 2))
    return list(range(1, maxn + 1))


def spec_labels(spec, out=None):
    out = [] if out is None else out
    k = spec[0]
    if k == "v":
        if spec[1] not in out:
            out.append(spec[1])
    elif k in ("dict", "model"):
        for lab in variables_of(spec[-1]):
            if lab not in out:
                out.append(lab)
    else:
        for s in spec[1:]:
            spec_labels(s, out)
    return out


def ev(spec, x):
    k = spec[0]
    if k == "v":
        return x[spec[1]]
    if k in ("dict", "model"):
        return peval(spec[-1], x)
    return int(GATES[k]([ev(s, x) for s in spec[1:]]))


def build(spec):
    q = qv()
    k = spec[0]
    if k == "v":
        return spec[1]
    if k == "dict":
        return dict(spec[1])
    if k == "model":
        return cls_of(spec[1])(dict(spec[2]))
    return getattr(q.sat, k.upper())(*[build(s) for s in spec[1:]])


def truth(method, vals):
    if method.startswith("eq_"):
        return vals[0] == int(GATES[method[3:].lower()](vals[1:]))
    return bool(GATES[method.lower()](vals))


def call(H, method, args, lam):
    return getattr(H, "add_constraint_" + method)(*[build(s) for s in args], lam=lam)


def args_labels(args):
    out = []
    for s in args:
        spec_labels(s, out)
    return out


def zero_one(terms):
    vs = variables_of(terms)
    return all(v in (0, 1) for v in table(terms, vs))


def logic_contract(case, check_valid=True):
    q = qv()
    H = build_pre(q.PCBO, case.get("pre"))
    before = plain(H)
    method, args, lam = case["method"], case["args"], case["lam"]
    call(H, method, args, lam)
    F = poly_diff(plain(H), before)
    xs = args_labels(args)
    for lab in variables_of(F):
        if lab not in xs:
            if is_anc(lab):
                return Fail("added terms contain ancilla %r" % (lab,), key="ancilla")
            return Fail("added terms mention %r which is not a variable of the operands" % (lab,),
                        key="foreign-variable")
    if len(xs) > 14:
        return Skip("too many variables")
    tab = table(F, xs)
    _spot_check(F, xs, tab, False)
    has_pre_cons = bool(case.get("pre") and case["pre"].get("cons"))
    for i in range(1 << len(xs)):
        x = assignment(i, xs)
        vals = [ev(s, x) for s in args]
        if any(v not in (0, 1) for v in vals):
            return Skip("operand not {0,1}-valued")
        ok = truth(method, vals)
        f = tab[i]
        if ok and abs(f) > TOL:
            return Fail("%s holds at %s (operand values %r) but the penalty is %r" % (method, fmt_x(x), vals, f),
                        key="penalised-valid")
        if not ok and f < lam - TOL * max(1, lam):
            return Fail("%s violated at %s (operand values %r) but the penalty is %r < lam=%r"
                        % (method, fmt_x(x), vals, f, lam), key="under-penalised")
        if check_valid and not has_pre_cons:
            got = H.is_solution_valid(dict(x))
            if bool(got) != ok:
                return Fail("is_solution_valid(%s) = %r but %s %s there" % (fmt_x(x), got, method,
                                                                            "holds" if ok else "is violated"),
                            key="is_solution_valid")
    return None


def _nontrivial(case):
    """both outcomes of the gate relation occur over the operands' assignments"""
    xs = args_labels(case["args"])
    outs = set()
    for i in range(1 << len(xs)):
        x = assignment(i, xs)
        outs.add(truth(case["method"], [ev(s, x) for s in case["args"]]))
        if len(outs) == 2:
            return True
    return False


# ---------------------------------------------------------------------------------------------
# C06.penalty_labels
# ---------------------------------------------------------------------------------------------
def _gen_labels(ctx):
    maxn = ctx.pick(4, 5)
    pool = LABELS + ([('u', 2), 7] if ctx.thorough else [])
    rng = ctx.rng("c06.labels")
    for method in METHODS:
        for n in arities(method, maxn):
            perms = list(itertools.permutations(pool, n)) if n <= len(pool) else []
            if not ctx.thorough and len(perms) > 10:
                perms = perms[:2] + rng.sample(perms[2:], 8)
            elif len(perms) > 150:
                perms = perms[:2] + rng.sample(perms[2:], 148)
            # repeated labels among the operands (and between first argument and operands)
            reps = []
            if n >= 2:
                reps.append((pool[0],) * n)
                reps.append((pool[0], pool[1]) * (n // 2) + (pool[0],) * (n % 2))
                reps.append(tuple(pool[:n - 1]) + (pool[0],))
            for labs in perms + reps:
                for lam in LAMS:
                    yield {"method": method, "args": [("v", lab) for lab in labs], "lam": lam}


@clause("C06.penalty_labels", "C06", gen=_gen_labels, nontrivial=_nontrivial)
def check_labels(case):
    """Each of the sixteen methods add_constraint_G / add_constraint_eq_G with plain labels of mixed types as
    arguments (also repeated labels), every admissible arity up to 4 operands (eq forms: first argument plus 2-4
    operands; NOT/BUFFER exactly one), lam in {0.5, 1, 3}, on an empty PCBO: the added terms mention only the operands'
    labels (no '__a' ancilla), are 0 where G(operands) is true (eq forms: where the first argument equals G of the
    rest; XOR/XNOR of several operands = parity) and >= lam elsewhere; is_solution_valid is True exactly on the former.
    Non-trivial: both outcomes occur."""
    return logic_contract(case)


# ---------------------------------------------------------------------------------------------
# C06.penalty_expressions
# ---------------------------------------------------------------------------------------------
def _dict_library(a, b, c):
    return [
        {(a,): 1, (a, b): -1},                     # a and not b
        {(a, b): 1},                               # a and b
        {(): 1, (a,): -1},                         # not a
        {(a,): 1, (b,): 1, (a, b): -1},            # a or b
        {(a,): 1, (b,): 1, (a, b): -2},            # a xor b
        {(): 1, (a, b, c): -1},                    # nand
        {(a,): 1, (b, c): 1, (a, b, c): -1},       # a or (b and c)
        {(): 1},                                   # constant true
        {},                                        # constant false
        {(b,): 1},
    ]


def rand_spec(rng, labels, depth):
    r = rng.random()
    if depth == 0 or r < 0.35:
        return ("v", rng.choice(labels))
    if r < 0.55:
        a, b, c = rng.sample(labels, 3)
        d = rng.choice(_dict_library(a, b, c))
        if rng.random() < 0.5:
            return ("dict", d)
        return ("model", rng.choice(["PUBO", "PCBO"]), d)
    g = rng.choice(sorted(GATES))
    n = 1 if g in ("not", "buffer") else rng.randint(1, 3)
    return (g,) + tuple(rand_spec(rng, labels, depth - 1) for _ in range(n))


def _gen_expr(ctx):
    rng = ctx.rng("c06.expr")
    labels = LABELS[:4] if not ctx.thorough else LABELS
    maxn = ctx.pick(4, 5)
    # every method with each dict/model/sat operand kind in each position at least once
    a, b, c, d = LABELS[:4]
    kinds = [("dict", {(a,): 1, (a, b): -1}), ("model", "PCBO", {(c,): 1, (d,): 1, (c, d): -1}),
             ("and", ("v", a), ("v", c)), ("not", ("v", b)), ("or", ("v", d), ("not", ("v", a))),
             ("xor", ("v", a), ("v", b), ("v", c)), ("dict", {(): 1}), ("dict", {}),
             ("model", "PUBO", {(b,): 1, (d,): 1, (b, d): -2}), ("nor", ("v", c), ("v", d))]
    for method in METHODS:
        for n in arities(method, 3):
            for pos in range(n):
                for kind in kinds:
                    args = [("v", LABELS[(j + 1) % 4]) for j in range(n)]
                    args[pos] = kind
                    yield {"method": method, "args": args, "lam": 1}
    # the AND special form of eq reached through eq_BUFFER / eq_NOT etc.
    yield {"method": "eq_BUFFER", "args": [("v", a), ("and", ("v", b), ("v", c))], "lam": 3}
    yield {"method": "eq_BUFFER", "args": [("and", ("v", b), ("v", c)), ("v", a)], "lam": 0.5}
    yield {"method": "eq_BUFFER", "args": [("v", a), ("dict", {(b, c): 1})], "lam": 1}
    n = ctx.pick(2500, 40000)
    for _ in range(n):
        method = rng.choice(METHODS)
        k = rng.choice(arities(method, maxn))
        args = [rand_spec(rng, labels, rng.choice([0, 1, 1, 2])) for _ in range(k)]
        if len(args_labels(args)) > ctx.pick(6, 8):
            continue
        yield {"method": method, "args": args, "lam": rng.choice(LAMS)}


@clause("C06.penalty_expressions", "C06", gen=_gen_expr, nontrivial=_nontrivial)
def check_expr(case):
    """The sixteen methods with operands that are nested qubovert.sat expressions (BUFFER/NOT/AND/NAND/OR/NOR/XOR/XNOR
    to depth 2), plain PUBO dicts or PUBO/PCBO objects taking values in {0,1} (including the constants 0 and 1),
    mixed with labels, in every argument position, operands sharing variables, arities up to 4 operands, lam in
    {0.5, 1, 3}: the added terms mention only the operands' variables (no ancilla), are 0 where the gate relation holds
    on the operand values and >= lam elsewhere; is_solution_valid is True exactly where it holds. Non-trivial: both
    outcomes occur."""
    return logic_contract(case)


# ---------------------------------------------------------------------------------------------
# C06.on_existing_model
# ---------------------------------------------------------------------------------------------
def _gen_existing(ctx):
    rng = ctx.rng("c06.existing")
    labels = LABELS[:4]
    n = ctx.pick(1200, 20000)
    for _ in range(n):
        method = rng.choice(METHODS)
        k = rng.choice(arities(method, 4))
        args = [rand_spec(rng, labels, rng.choice([0, 0, 1])) for _ in range(k)]
        obj = next(gen_models(rng, 1, labels, 3, [-2, -1, 1, 2, 0.5, -3], max_terms=4, min_terms=1))
        cons = []
        for _ in range(rng.randint(0, 2)):
            Q = next(gen_models(rng, 1, labels, 2, [-1, 1, 2], max_terms=3, min_terms=1))
            r2, l2 = rng.choice(RELS), rng.random() < 0.5
            if anc_estimate(r2, *sum_enclosure(Q), l2) <= 4:
                cons.append((r2, Q, rng.choice(LAMS), l2))
        yield {"method": method, "args": args, "lam": rng.choice(LAMS), "pre": {"obj": obj, "cons": cons}}


@clause("C06.on_existing_model", "C06", gen=_gen_existing, nontrivial=_nontrivial)
def check_existing(case):
    """The logical constraint is added to a PCBO that already has an objective (coefficients that can cancel against
    the penalty) and up to two comparison constraints with their ancillas: added terms = after - before mention only
    the operands' variables, no ancilla (old or new), are 0 where the gate relation holds and >= lam elsewhere."""
    return logic_contract(case, check_valid=False)


# ---------------------------------------------------------------------------------------------
# C06.is_solution_valid: several logical constraints on one model
# ---------------------------------------------------------------------------------------------
def _gen_valid(ctx):
    rng = ctx.rng("c06.valid")
    labels = LABELS[:4]
    n = ctx.pick(1000, 15000)
    for _ in range(n):
        logic = []
        for _ in range(rng.randint(2, 3)):
            method = rng.choice(METHODS)
            k = rng.choice(arities(method, 3))
            logic.append((method, [rand_spec(rng, labels, rng.choice([0, 0, 1])) for _ in range(k)],
                          rng.choice(LAMS)))
        cons = []
        if rng.random() < 0.4:
            Q = next(gen_models(rng, 1, labels, 2, [-1, 1, 2], max_terms=3, min_terms=1))
            r2 = rng.choice(RELS)
            if anc_estimate(r2, *sum_enclosure(Q), True) <= 4:
                cons.append((r2, Q, 1, True))
        yield {"logic": logic, "cons": cons, "obj": {}}


def _nontrivial_valid(case):
    """at least two logical constraints each with both outcomes"""
    return sum(1 for m, a, l in case["logic"] if _nontrivial({"method": m, "args": a})) >= 2


@clause("C06.is_solution_valid", "C06", gen=_gen_valid, nontrivial=_nontrivial_valid)
def check_valid(case):
    """Two or three logical constraints (any of the sixteen methods, label and expression operands), optionally
    together with one comparison constraint, on one PCBO: is_solution_valid(x) is True exactly on the assignments at
    which every gate relation (and the comparison) holds. Non-trivial: at least two gate relations have both
    outcomes."""
    q = qv()
    H = build_pre(q.PCBO, case)
    xs = []
    for _, P, _, _ in case["cons"]:
        for lab in variables_of(P):
            if lab not in xs:
                xs.append(lab)
    for method, args, lam in case["logic"]:
        call(H, method, args, lam)
        for lab in args_labels(args):
            if lab not in xs:
                xs.append(lab)
    fork = case.get("fork")
    if fork:
        # a copy is forked off; the copy (or the model, the copy being judged) gets one more gate: the verdicts of
        # the object that was not extended stay those of its own constraints
        H2 = {"copy": lambda m: m.copy(), "ctor": lambda m: type(m)(m), "plus0": lambda m: m + 0,
              "times1": lambda m: 1 * m}[fork["via"]](H)
        grown, kept = (H2, H) if fork["grow"] == "copy" else (H, H2)
        call(grown, fork["method"], fork["args"], 1)
        H = kept
    ptabs = [(rel, table(P, xs)) for rel, P, _, _ in case["cons"]]
    for i in range(1 << len(xs)):
        x = assignment(i, xs)
        ok = all(HOLDS[rel](t[i]) for rel, t in ptabs)
        for method, args, lam in case["logic"]:
            vals = [ev(s, x) for s in args]
            if any(v not in (0, 1) for v in vals):
                return Skip("operand not {0,1}-valued")
            ok = ok and truth(method, vals)
        got = H.is_solution_valid(dict(x))
        if bool(got) != ok:
            return Fail("is_solution_valid(%s) = %r, expected %r" % (fmt_x(x), got, ok), key="is_solution_valid")
    return None


def _gen_valid_forks(ctx):
    vias = ("copy", "ctor", "plus0", "times1")
    j = 0
    for i, case in enumerate(_gen_valid(ctx)):
        if i % 3:
            continue
        method, args, _ = case["logic"][0]
        # the extra gate: the complementary gate on the same operands
        comp = {"OR": "NOR", "AND": "NAND", "XOR": "XNOR", "NAND": "AND", "NOR": "OR", "XNOR": "XOR", "BUFFER": "NOT",
                "NOT": "BUFFER"}
        m2 = ("eq_" + comp[method[3:]]) if method.startswith("eq_") else comp[method]
        yield dict(case, fork={"via": vias[j % 4], "grow": ("copy", "original")[(j // 4) % 2], "method": m2, "args": args})
        j += 1


@clause("C06.is_solution_valid_forked_copies", "C06", gen=_gen_valid_forks, nontrivial=_nontrivial_valid)
def check_valid_forks(case):
    """C06.is_solution_valid for a PCBO from which a copy was forked (copy(), PCBO(model), model + 0, 1 * model) after
    its gates were added; one of the two objects then gets one more gate on the operands of the first gate (its
    complement where there is one): the verdicts of the other object stay those of its own gates."""
    return check_valid(case)
