"""C19 bounded stand-in: models survive copy and info round trips and never alias their inputs.

A model case is {"type": T, "terms": {...}, "how": "ctor"|"edits", "dead": [keys added and removed first],
"name": obj, "cons": [(method, [args], kwargs), ...]}; an argument is a label, ("dict", terms) or
("model", typename, terms[, cons]). Mutation is observed with common.snapshot (deep: terms, mapping, reverse mapping,
constraints with their polynomials, ancilla count, name, cached variables/degree), taken before and after.
"""
from .common import (clause, Fail, Skip, LABELS, INT_LABELS, COEFS, INT_COEFS, MODEL_TYPES, BOOL_TYPES, SPIN_TYPES,
                     MATRIX_TYPES, canonical_keys, raw_keys, variables_of, assignments, peval, close, qv, cls_of,
                     snapshot)

LABELLED = ["QUBO", "PUBO", "PCBO", "QUSO", "PUSO", "PCSO"]
PC = ["PCBO", "PCSO"]
CMP = ["eq_zero", "ne_zero", "lt_zero", "le_zero", "gt_zero", "ge_zero"]
LOGIC = [("eq_AND", 3), ("eq_OR", 3), ("eq_XOR", 3), ("eq_NAND", 3), ("eq_NOR", 3), ("eq_XNOR", 3), ("eq_NOT", 2),
         ("eq_BUFFER", 2), ("AND", 2), ("OR", 2), ("XOR", 2), ("NAND", 2), ("NOR", 2), ("XNOR", 2), ("NOT", 1),
         ("BUFFER", 1), ("eq_AND", 4), ("eq_OR", 4), ("OR", 3), ("XNOR", 3)]
NAMES = [None, "nm", 7, ("t", 1), ""]


def _kind(t):
    if t in ("QUBO", "QUBOMatrix"):
        return "qubo"
    if t in ("QUSO", "QUSOMatrix"):
        return "quso"
    return "puso" if t in SPIN_TYPES else "pubo"


def _labels(t, n):
    return (INT_LABELS if t in MATRIX_TYPES else LABELS)[:n]


def _ckeys(t, nlab):
    return canonical_keys(_labels(t, nlab), 2 if _kind(t) in ("qubo", "quso") else 3)


def _arg(a):
    if isinstance(a, tuple) and a and a[0] == "dict" and len(a) == 2 and isinstance(a[1], dict):
        return dict(a[1])
    if isinstance(a, tuple) and a and a[0] == "stale" and len(a) == 4 and isinstance(a[2], dict):
        # a model with a history: a term on another label was added and cancelled again (no refresh), so the
        # bookkeeping still lists that label
        M = cls_of(a[1])()
        M[(a[3],)] += 1
        for k, v in a[2].items():
            M[k] += v
        M[(a[3],)] -= 1
        return M
    if isinstance(a, tuple) and a and a[0] == "model" and len(a) >= 3 and isinstance(a[2], dict):
        M = cls_of(a[1])(a[2])
        for name, args, kw in (a[3] if len(a) > 3 else []):
            getattr(M, "add_constraint_" + name)(*[_arg(x) for x in args], **kw)
        return M
    return a


def _build(case):
    T = cls_of(case["type"])
    if case.get("how", "ctor") == "ctor" and not case.get("dead"):
        M = T(case["terms"])
    else:
        M = T()
        for k in case.get("dead", []):
            M[k] += 1
            M[k] -= 1
        for k, v in case["terms"].items():
            M[k] += v
    if "name" in case:
        M.name = case["name"]
    for name, args, kw in case.get("cons", []):
        getattr(M, "add_constraint_" + name)(*[_arg(a) for a in args], **kw)
    return M


def _rand_terms(rng, keys, nmax=4, nmin=0, coefs=COEFS):
    return {k: rng.choice(coefs) for k in rng.sample(keys, min(len(keys), rng.randint(nmin, nmax)))}


def _rand_con(rng, t, labels, lams=(1, 1, 2, 0), logic=True, argtypes=None):
    spin = t in SPIN_TYPES
    if logic and not spin and rng.random() < 0.3:
        name, n = rng.choice(LOGIC)
        return (name, [rng.choice(labels) for _ in range(n)], {"lam": rng.choice(lams)})
    name = rng.choice(CMP)
    ts = _rand_terms(rng, canonical_keys(labels, 2)[1:], 3, 1, INT_COEFS)
    if rng.random() < 0.5:
        ts[()] = rng.choice([-4, -3, -2, -1, 1, 2])
    at = rng.choice(argtypes or (["dict", "dict", "PUSO", "PCSO"] if spin else ["dict", "dict", "PUBO", "PCBO"]))
    arg = ("dict", ts) if at == "dict" else ("model", at, ts)
    kw = {"lam": rng.choice(lams)}
    if name != "eq_zero":
        kw["log_trick"] = rng.random() < 0.5
    return (name, [arg], kw)


def _rand_model(rng, t, nlab=3, cons=True, nmin=0, lams=(1, 1, 2, 0), maxcons=3):
    keys = _ckeys(t, nlab)
    c = {"type": t, "terms": _rand_terms(rng, keys, 4, nmin), "how": rng.choice(["ctor", "edits"]),
         "name": rng.choice(NAMES)}
    if rng.random() < 0.3:
        c["dead"] = [rng.choice(keys[1:])]
    if cons and t in PC:
        c["cons"] = [_rand_con(rng, t, _labels(t, nlab), lams) for _ in range(rng.randint(0, maxcons))]
    return c


def _has_var(terms):
    return any(k and v for k, v in terms.items())


def _cons_view(M):
    return {k: [dict(p) for p in v] for k, v in M.constraints.items()}


# ---------------------------------------------------------------------------------------------
# 1. get_info / create_from_info
# ---------------------------------------------------------------------------------------------
def _gen_info(ctx):
    for t in MODEL_TYPES:
        yield {"type": t, "terms": {}}
        yield {"type": t, "terms": {(): 2}, "name": "c"}
        a, b = _labels(t, 2)
        yield {"type": t, "terms": {(b,): 1, (a, b): -2}, "name": ("t", 1), "how": "edits", "dead": [(a,)]}
    for t in PC:
        for name in CMP:
            for lam in (0, 1):
                yield {"type": t, "terms": {('a',): 1}, "name": "n",
                       "cons": [(name, [("dict", {('a',): 3, ('b',): 2, (): -4})], {"lam": lam}),
                                (name, [("dict", {('b',): 1, (0,): -1})], {"lam": lam})]}
    rng = ctx.rng("c19.info")
    for t in MODEL_TYPES:
        for _ in range(ctx.pick(250, 5000)):
            yield _rand_model(rng, t)


@clause("C19.info_roundtrip", "C19", gen=_gen_info,
        nontrivial=lambda c: _has_var(c["terms"]) or bool(c.get("cons")))
def check_info(case):
    """For models of all ten types (names of several kinds, cancelled terms, PCBO/PCSO with comparison and logic
    constraints, lam zero and non-zero, log_trick both ways): M2 = create_from_info(get_info(M)) has M's exact type,
    equal terms, name, mapping and reverse mapping, ancilla count and recorded constraints (kind by kind, in order);
    get_info(M2) == get_info(M); create_from_info does not change the info dict, and later mutation of M2 (terms,
    constraints and their polynomials) changes neither M nor the info dict; changing M afterwards does not change the info dict and changing the info
    dict does not change M. Non-trivial: model has a variable or a
    constraint."""
    q = qv()
    M = _build(case)
    t = case["type"]
    info = q.utils.get_info(M)
    if info.get("type") != t:
        return Fail("info type %r" % (info.get("type"),), key="info-type")
    s_info, s_M = snapshot(info), snapshot(M)
    M2 = q.utils.create_from_info(info)
    if snapshot(info) != s_info:
        return Fail("create_from_info changed its argument", key="create_from_info-mutates-info")
    if snapshot(M) != s_M:
        return Fail("get_info/create_from_info changed the model", key="info-mutates-model")
    if type(M2) is not type(M):
        return Fail("type %s != %s" % (type(M2).__name__, type(M).__name__), key="roundtrip-type")
    if dict(M2) != dict(M):
        return Fail("terms %r != %r" % (dict(M2), dict(M)), key="roundtrip-terms")
    if M2.name != M.name:
        return Fail("name %r != %r" % (M2.name, M.name), key="roundtrip-name")
    if t not in MATRIX_TYPES:
        if M2.mapping != M.mapping:
            return Fail("mapping %r != %r" % (M2.mapping, M.mapping), key="roundtrip-mapping")
        if M2.reverse_mapping != M.reverse_mapping:
            return Fail("reverse_mapping %r != %r" % (M2.reverse_mapping, M.reverse_mapping),
                        key="roundtrip-reverse_mapping")
    if t in PC:
        if M2.num_ancillas != M.num_ancillas:
            return Fail("num_ancillas %r != %r" % (M2.num_ancillas, M.num_ancillas), key="roundtrip-num_ancillas")
        if _cons_view(M2) != _cons_view(M):
            return Fail("constraints %r != %r" % (_cons_view(M2), _cons_view(M)), key="roundtrip-constraints")
    i2 = q.utils.get_info(M2)
    if i2 != info or set(i2) != set(info):
        return Fail("get_info(copy) %r != get_info(M) %r" % (i2, info), key="roundtrip-info")
    # independence
    lab = 7 if t in MATRIX_TYPES else 'zz'
    M2[(lab,)] = 5
    M2.name = "other"
    if t in PC:
        for v in M2._constraints.values():
            for p in v:
                p[(lab,)] = 9
        M2.add_constraint_eq_zero({(lab,): 1}, lam=1)
    M2.clear()
    if snapshot(M) != s_M:
        return Fail("mutating the recreated model changed the original", key="info-copy-aliases-model")
    if snapshot(info) != s_info:
        return Fail("mutating the recreated model changed the info dict", key="info-copy-aliases-info")
    # the info dict itself is independent of M, both ways
    M[(lab,)] = 5
    M.name = "other"
    if t in PC:
        for v in M._constraints.values():
            for p in v:
                p[(lab,)] = 9
        M.add_constraint_eq_zero({(lab,): 1}, lam=1)
    if snapshot(info) != s_info:
        return Fail("changing the model changed the dict returned earlier by get_info", key="info-aliases-model")
    M = _build(case)
    info = q.utils.get_info(M)
    s_M = snapshot(M)
    info["terms"][(lab,)] = 1
    for k in ("mapping", "constraints"):
        if isinstance(info.get(k), dict):
            for v in info[k].values():
                if isinstance(v, list):
                    for p in v:
                        p[(lab,)] = 2
                    v.append({})
            info[k][lab] = 0
    if snapshot(M) != s_M:
        return Fail("changing the dict returned by get_info changed the model", key="model-aliased-by-info")
    return None


# ---------------------------------------------------------------------------------------------
# 2. copies
# ---------------------------------------------------------------------------------------------
def _mutations(t):
    lab = 7 if t in MATRIX_TYPES else 'zz'
    out = [("setitem-new", lambda X: X.__setitem__((lab,), 5)),
           ("augassign-existing", lambda X: [X.__setitem__(k, X[k] + 1) for k in list(X)[:2]]),
           ("name", lambda X: setattr(X, "name", "other")),
           ("imul", lambda X: X.__imul__(2))]
    if t in PC:
        def nested(X):
            for v in X._constraints.values():
                for p in v:
                    p[(lab,)] = 9
                    p *= 2

        def nested_lists(X):
            for v in X._constraints.values():
                v.append(type(X)())
            X._constraints["zz"] = []
        out += [("constraint-polynomial", nested), ("constraint-lists", nested_lists),
                ("add_constraint", lambda X: X.add_constraint_le_zero({(lab,): 1, ('a',): 2, (): -2}, lam=1))]
    if t not in MATRIX_TYPES:
        out += [("set_mapping", lambda X: X.set_mapping({lab: 0}))]
    out += [("clear", lambda X: X.clear())]
    return out


def _gen_copies(ctx):
    for t in MODEL_TYPES:
        a, b = _labels(t, 2)
        for kind in ("copy", "ctor"):
            yield {"kind": kind, "model": {"type": t, "terms": {(a,): 1, (a, b): 2, (): -1}, "name": "n"}}
    for t in PC:
        for kind in ("copy", "ctor"):
            for name in CMP:
                yield {"kind": kind, "model": {"type": t, "terms": {('a',): 1}, "cons": [
                    (name, [("dict", {('a',): 3, ('b',): 2, (): -4})], {"lam": 1}),
                    (name, [("dict", {('b',): 1, (0,): -1})], {"lam": 0})]}}
    rng = ctx.rng("c19.copies")
    for t in MODEL_TYPES:
        for _ in range(ctx.pick(200, 4000)):
            yield {"kind": rng.choice(["copy", "ctor"]), "model": _rand_model(rng, t, nmin=1)}


def _copy(M, kind):
    return M.copy() if kind == "copy" else type(M)(M)


@clause("C19.copies_independent", "C19", gen=_gen_copies,
        nontrivial=lambda c: _has_var(c["model"]["terms"]) or bool(c["model"].get("cons")))
def check_copies(case):
    """For every model type (PCBO/PCSO with constraints), C = M.copy() or C = T(M): C has M's type, terms and (PC
    types) recorded constraints and ancilla count; then, mutation by mutation (new item, changed item, name, *=, for
    PC types changing stored constraint polynomials and lists and adding a constraint, set_mapping, clear), changing
    C leaves a deep snapshot of M unchanged, and with a second copy, changing M leaves the copy unchanged.
    Non-trivial: model has a variable or a constraint."""
    t = case["model"]["type"]
    kind = case["kind"]
    M = _build(case["model"])
    C = _copy(M, kind)
    if C is M:
        return Fail("%s returned the model itself" % kind, key="copy-is-same-object:%s" % kind)
    if type(C) is not type(M):
        return Fail("%s gives type %s" % (kind, type(C).__name__), key="copy-type:%s" % kind)
    if dict(C) != dict(M):
        return Fail("%s terms %r != %r" % (kind, dict(C), dict(M)), key="copy-terms:%s" % kind)
    if t in PC and (_cons_view(C) != _cons_view(M) or C.num_ancillas != M.num_ancillas):
        return Fail("%s constraints/ancillas %r/%r != %r/%r" % (kind, _cons_view(C), C.num_ancillas, _cons_view(M),
                                                                M.num_ancillas), key="copy-constraints:%s" % kind)
    s = snapshot(M)
    for name, mut in _mutations(t):
        mut(C)
        if snapshot(M) != s:
            return Fail("changing the %s (%s) changed the original" % (kind, name),
                        key="original-aliased-by-%s:%s" % (kind, name))
    C = _copy(M, kind)
    s = snapshot(C)
    for name, mut in _mutations(t):
        mut(M)
        if snapshot(C) != s:
            return Fail("changing the original (%s) changed its %s" % (name, kind),
                        key="%s-aliased-by-original:%s" % (kind, name))
    return None


# ---------------------------------------------------------------------------------------------
# 3. property getters
# ---------------------------------------------------------------------------------------------
def _props(t):
    p = ["variables"]
    if t not in MATRIX_TYPES:
        p += ["mapping", "reverse_mapping"]
    if t in PC:
        p += ["constraints"]
    return p


def _gen_getters(ctx):
    for t in MODEL_TYPES:
        a, b = _labels(t, 2)
        yield {"type": t, "terms": {(a,): 1, (a, b): 2, (): -1}}
    for t in PC:
        for name in CMP:
            yield {"type": t, "terms": {('a',): 1}, "cons": [
                (name, [("dict", {('a',): 3, ('b',): 2, (): -4})], {"lam": 1}),
                (name, [("model", "PUSO" if t == "PCSO" else "PUBO", {('b',): 1, (0,): -1})], {"lam": 0})]}
    rng = ctx.rng("c19.getters")
    for t in MODEL_TYPES:
        for _ in range(ctx.pick(150, 3000)):
            yield _rand_model(rng, t, nmin=1)


def _wreck(obj, lab):
    """mutate a returned container as deeply as possible"""
    if isinstance(obj, set):
        obj.add(lab)
        obj.discard(next(iter(obj)))
        obj.clear()
        return
    for v in list(obj.values()):
        if isinstance(v, list):
            for p in v:
                p[(lab,)] = 9
                p *= 3
                p.name = "w"
            v.append({})
            del v[0]
    try:
        obj[lab] = 0
        obj.pop(next(iter(obj)))
        obj.clear()
    except (TypeError, AttributeError):
        pass        # a read-only view cannot be wrecked; whether it follows the model is tested separately


@clause("C19.getters_independent", "C19", gen=_gen_getters,
        nontrivial=lambda c: _has_var(c["terms"]) or bool(c.get("cons")))
def check_getters(case):
    """The properties variables (all types), mapping, reverse_mapping (labelled types) and constraints (PCBO/PCSO)
    return objects independent of the model: wrecking the returned object (adding, removing, clearing entries; for
    constraints also changing the returned polynomials and lists) leaves a deep snapshot of the model unchanged, and
    changing the model afterwards (new term with a new label, new constraint) leaves a previously returned object
    unchanged. Non-trivial: model has a variable or a constraint."""
    t = case["type"]
    lab = 7 if t in MATRIX_TYPES else 'zz'
    M = _build(case)
    s = snapshot(M)
    for prop in _props(t):
        obj = getattr(M, prop)
        _wreck(obj, lab)
        if snapshot(M) != s:
            return Fail("mutating the object returned by .%s changed the model" % prop, key="getter-aliased:%s" % prop)
    for prop in _props(t):
        obj = getattr(M, prop)
        so = snapshot(obj)
        M[(lab,)] = 3
        if t in PC:
            M.add_constraint_eq_zero({(lab,): 1, ('a',): -1}, lam=1)
            for v in M._constraints.values():
                for p in v:
                    p[(lab, 'q')] = 1
        if snapshot(obj) != so:
            return Fail("changing the model changed an object returned earlier by .%s" % prop,
                        key="getter-result-follows-model:%s" % prop)
        M = _build(case)
    return None


# ---------------------------------------------------------------------------------------------
# 4. constraint methods do not mutate / alias their arguments
# ---------------------------------------------------------------------------------------------
def _gen_con_args(ctx):
    rng = ctx.rng("c19.con")
    for t in PC:
        spin = t == "PCSO"
        ats = ["dict", "PUSO", "PCSO", "QUSO"] if spin else ["dict", "PUBO", "PCBO", "QUBO"]
        for name in CMP:
            for at in ats:
                for lam in (0, 1):
                    for lt in (True, False):
                        ts = {('a',): 3, ('b',): 2, (): -4} if at[0] != "Q" else {('a', 'b'): 3, ('b',): 2, (): -4}
                        arg = ("dict", ts) if at == "dict" else ("model", at, ts)
                        kw = {"lam": lam}
                        if name != "eq_zero":
                            kw["log_trick"] = lt
                        elif not lt:
                            continue
                        yield {"type": t, "terms": {('a',): 1}, "con": (name, [arg], kw)}
        # the argument is itself a constrained model
        inner = [("le_zero", [("dict", {('a',): 1, ('b',): 1, (): -1})], {"lam": 1})]
        for name in CMP:
            yield {"type": t, "terms": {}, "con": (name, [("model", t, {('a',): 1, ('b',): -2, (): 1}, inner)],
                                                   {"lam": 2})}
        for _ in range(ctx.pick(600, 12000)):
            m = _rand_model(rng, t, maxcons=1)
            m["con"] = _rand_con(rng, t, LABELS[:3], argtypes=ats)
            yield m
    # logic constraints: labels and PCBO expressions as arguments
    for name, n in LOGIC:
        yield {"type": "PCBO", "terms": {('a',): 1}, "con": (name, ['a', 'b', 0, 1][:n], {"lam": 1})}
        exprs = [("model", "PCBO", {('a',): 1}), ("model", "PCBO", {('a', 'b'): 1}), ("model", "PUBO", {(0,): 1}),
                 ("model", "PCBO", {(1,): -1, (): 1})][:n]
        yield {"type": "PCBO", "terms": {}, "con": (name, exprs, {"lam": 2})}


def _poly_labels_ok(stored, given):
    return all(l in variables_of(given) for l in variables_of(stored))


@clause("C19.constraint_args_untouched", "C19", gen=_gen_con_args,
        nontrivial=lambda c: bool(c["con"][2].get("lam")))
def check_con_args(case):
    """PCBO / PCSO add_constraint_{eq,ne,lt,le,gt,ge}_zero with a dict, (Q/P)U(B/S)O or PC(B/S)O argument (possibly
    carrying constraints itself), lam zero / non-zero, log_trick both ways, and the PCBO logic constraints with labels
    or model expressions as arguments: deep snapshots of every argument are identical before and after the call
    (plain dicts: same keys and values exactly, in any order); the newly recorded constraint polynomial (comparison
    constraints) is a different object, mentions only the argument's labels and has the argument's truth table
    (slack variables are not written into it); changing the argument afterwards does not change the model.
    Non-trivial: lam != 0."""
    M = _build(case)
    t = case["type"]
    name, rawargs, kw = case["con"]
    args = [_arg(a) for a in rawargs]
    before = [snapshot(a) for a in args]
    plain = [sorted(repr(i) for i in a.items()) if type(a) is dict else None for a in args]
    ncon = {k: len(v) for k, v in M._constraints.items()}
    getattr(M, "add_constraint_" + name)(*args, **kw)
    for i, a in enumerate(args):
        if snapshot(a) != before[i] or (plain[i] is not None and sorted(repr(x) for x in a.items()) != plain[i]):
            return Fail("add_constraint_%s changed its argument #%d: %r" % (name, i, a),
                        key="constraint-mutates-argument:%s:%s" % (name, type(a).__name__))
    if name in CMP:
        kind = name[:2]
        lst = M._constraints.get(kind, [])
        if len(lst) != ncon.get(kind, 0) + 1:
            return Fail("constraint not recorded once under %r: %r" % (kind, M.constraints), key="constraint-not-recorded")
        if any(len(v) != ncon.get(k, 0) for k, v in M._constraints.items() if k != kind):
            return Fail("foreign constraint lists changed: %r" % (M.constraints,), key="constraint-lists-polluted")
        stored, given = lst[-1], args[0]
        if stored is given:
            return Fail("the argument object itself was recorded as constraint", key="constraint-records-argument-object")
        sd, gd = dict(stored), dict(given)
        if not _poly_labels_ok(sd, gd):
            return Fail("recorded constraint %r mentions labels absent from the argument %r" % (sd, gd),
                        key="recorded-constraint-has-foreign-labels:%s" % name)
        vs = variables_of(gd)
        for x in assignments(vs, t == "PCSO"):
            if not close(peval(sd, x), peval(gd, x)):
                return Fail("recorded constraint %r differs from the argument %r at %r" % (sd, gd, x),
                            key="recorded-constraint-differs:%s" % name)
    s = snapshot(M)
    for a in args:
        if isinstance(a, dict):
            a[('zz',)] = 4
            for k in list(a)[:2]:
                a[k] = a[k] + 1
            if hasattr(a, "_constraints"):
                for v in a._constraints.values():
                    for p in v:
                        p[('zz',)] = 1
            a.clear()
    if snapshot(M) != s:
        return Fail("changing the argument after add_constraint_%s changed the model" % name,
                    key="constraint-aliases-argument:%s" % name)
    return None


# ---------------------------------------------------------------------------------------------
# 5. conversions
# ---------------------------------------------------------------------------------------------
FN_SRC = {"pubo_to_puso": BOOL_TYPES, "qubo_to_quso": BOOL_TYPES, "puso_to_pubo": SPIN_TYPES,
          "quso_to_qubo": SPIN_TYPES}


def _gen_conv(ctx):
    rng = ctx.rng("c19.conv")
    n = ctx.pick(150, 3000)
    for fn, types in FN_SRC.items():
        deg2 = fn[0] == "q"
        for t in ["dict"] + types:
            keys = canonical_keys(_labels(t, 3) if t != "dict" else LABELS[:3], 2 if deg2 or t[0] == "Q" else 3)
            rk = [k for k in raw_keys(LABELS[:3], 3) if len(set(k)) <= 2] if t == "dict" else keys
            yield {"what": "fn", "fn": fn, "arg": ("dict", {}) if t == "dict" else ("model", t, {})}
            yield {"what": "fn", "fn": fn, "arg": ("dict", {(): 2}) if t == "dict" else ("model", t, {(): 2})}
            for _ in range(n):
                ts = _rand_terms(rng, rk, 4, 1, COEFS + [0] if t == "dict" else COEFS)
                yield {"what": "fn", "fn": fn, "arg": ("dict", ts) if t == "dict" else ("model", t, ts)}
    for t in LABELLED:
        for _ in range(n * 2):
            m = _rand_model(rng, t, nlab=4, nmin=1, lams=(1, 0), maxcons=1)
            yield {"what": "methods", "model": m}
    for t in LABELLED:
        for _ in range(n):
            m = _rand_model(rng, t, cons=False, nmin=1)
            yield {"what": "convert_solution", "model": m, "container": rng.choice(["dict", "list"]),
                   "spin": rng.random() < 0.5, "bits": [rng.randint(0, 1) for _ in range(6)]}
    for _ in range(n):
        d = rng.choice([1, 2, 3])
        yield {"what": "matrix_to_qubo", "matrix": [[rng.choice([0, 1, -1, 2, 0.5]) for _ in range(d)] for _ in range(d)],
               "array": rng.random() < 0.5}
        ts = _rand_terms(rng, [k for k in raw_keys(INT_LABELS[:3], 2) if k], 4, 1)
        yield {"what": "qubo_to_matrix", "arg": ("dict", ts) if rng.random() < 0.5 else ("model", "QUBOMatrix", ts),
               "symmetric": rng.random() < 0.5, "array": rng.random() < 0.5}
        bits = [rng.randint(0, 1) for _ in range(rng.randint(0, 4))]
        yield {"what": "bs", "bits": bits, "container": rng.choice(["dict", "list"]), "to": rng.choice(["spin", "bool"])}


def _conv_nontrivial(c):
    if c["what"] == "fn":
        return _has_var(c["arg"][-1])
    if c["what"] in ("methods", "convert_solution"):
        return _has_var(c["model"]["terms"])
    return True


@clause("C19.conversion_args_untouched", "C19", gen=_gen_conv, nontrivial=_conv_nontrivial)
def check_conv(case):
    """Deep snapshots before/after: the four conversion functions leave their dict / model argument unchanged (plain
    dicts exactly, in any key order); to_pubo/to_puso/to_qubo/to_quso/to_enumerated (with degree reduction where the
    model has degree > 2) and the Q / h / J exports leave the model unchanged and the returned objects are not wired
    to it; convert_solution leaves model and solution container unchanged; matrix_to_qubo, qubo_to_matrix,
    boolean_to_spin, spin_to_boolean leave their argument unchanged. Non-trivial: non-constant model / any matrix."""
    q = qv()
    w = case["what"]
    if w == "fn":
        a = _arg(case["arg"])
        s = snapshot(a)
        plain = sorted(repr(i) for i in a.items())
        R = getattr(q.utils, case["fn"])(a)
        if snapshot(a) != s or sorted(repr(i) for i in a.items()) != plain:
            return Fail("%s changed its argument: %r" % (case["fn"], a),
                        key="conversion-mutates-argument:%s:%s" % (case["fn"], type(a).__name__))
        sR = snapshot(R)
        a[('zz',) if not isinstance(a, q.utils.PUBOMatrix) or hasattr(a, "_mapping") else (7,)] = 3
        if snapshot(R) != sR:
            return Fail("result of %s follows later changes of the argument" % case["fn"],
                        key="conversion-result-aliases-argument:%s" % case["fn"])
        return None
    if w == "methods":
        M = _build(case["model"])
        s = snapshot(M)
        deg = max([len(k) for k in dict(M)] or [0])
        for m in ("to_pubo", "to_puso", "to_qubo", "to_quso", "to_enumerated"):
            R = getattr(M, m)()
            if snapshot(M) != s:
                return Fail("%s.%s() changed the model" % (case["model"]["type"], m),
                            key="method-mutates-model:%s" % m)
            R[(50,)] = 1
            R.clear()
            if snapshot(M) != s:
                return Fail("changing the result of %s() changed the model" % m, key="method-result-aliases-model:%s" % m)
        if deg <= 2 and case["model"]["type"] in ("QUBO", "QUSO"):
            for prop in (("Q",) if case["model"]["type"] == "QUBO" else ("h", "J")):
                obj = getattr(M, prop)
                obj[("zz", "zz")] = 1
                obj.clear()
                if snapshot(M) != s:
                    return Fail("changing the %s export changed the model" % prop, key="export-aliases-model:%s" % prop)
        return None
    if w == "convert_solution":
        M = _build(case["model"])
        n = len(M.mapping)
        vals = [(1 - 2 * b if case["spin"] else b) for b in (case["bits"] * 2)[:n]]
        sol = dict(enumerate(vals)) if case["container"] == "dict" else list(vals)
        s, ss = snapshot(M), snapshot(sol)
        res = M.convert_solution(sol, spin=case["spin"])
        if snapshot(sol) != ss:
            return Fail("convert_solution changed the solution container: %r" % (sol,),
                        key="convert_solution-mutates-solution:%s" % case["container"])
        if snapshot(M) != s:
            return Fail("convert_solution changed the model", key="convert_solution-mutates-model")
        if res is sol:
            return Fail("convert_solution returned its argument object", key="convert_solution-returns-argument")
        return None
    if w == "matrix_to_qubo":
        import numpy as np
        m = np.array(case["matrix"]) if case["array"] else [list(r) for r in case["matrix"]]
        s = repr(m)
        q.utils.matrix_to_qubo(m)
        if repr(m) != s:
            return Fail("matrix_to_qubo changed its argument", key="matrix_to_qubo-mutates-argument")
        return None
    if w == "qubo_to_matrix":
        a = _arg(case["arg"])
        if not any(dict(a).values()):
            return Skip("empty QUBO")
        s = snapshot(a)
        q.utils.qubo_to_matrix(a, symmetric=case["symmetric"], array=case["array"])
        if snapshot(a) != s:
            return Fail("qubo_to_matrix changed its argument", key="qubo_to_matrix-mutates-argument:%s" % type(a).__name__)
        return None
    # boolean_to_spin / spin_to_boolean
    vals = [b if case["to"] == "spin" else 1 - 2 * b for b in case["bits"]]
    sol = dict(enumerate(vals)) if case["container"] == "dict" else list(vals)
    ss = snapshot(sol)
    r = (q.utils.boolean_to_spin if case["to"] == "spin" else q.utils.spin_to_boolean)(sol)
    if snapshot(sol) != ss or r is sol:
        return Fail("boolean/spin conversion changed or returned its argument", key="solution-conversion-mutates-argument")
    return None


# ---------------------------------------------------------------------------------------------
# 6. brute-force solvers
# ---------------------------------------------------------------------------------------------
SOLVERS = {"pubo": BOOL_TYPES, "qubo": ["QUBO", "QUBOMatrix"], "puso": SPIN_TYPES, "quso": ["QUSO", "QUSOMatrix"]}


def _gen_solvers(ctx):
    rng = ctx.rng("c19.solve")
    n = ctx.pick(150, 3000)
    for s, types in SOLVERS.items():
        deg2 = s[0] == "q"
        for t in ["dict"] + types:
            labels = _labels(t, 3) if t != "dict" else LABELS[:3]
            keys = canonical_keys(labels, 2 if deg2 or t[0] == "Q" else 3)
            fixed = [{}, {(): 3}, {(): -1, keys[1]: 2}, {keys[1]: 2, (): -1}, {keys[1]: 1, keys[2]: -1, (): 0.5}]
            for ts in fixed + [_rand_terms(rng, keys, 4, 1) for _ in range(n)]:
                for allsol in (False, True):
                    yield {"how": "function", "solver": s, "arg": ("dict", ts) if t == "dict" else ("model", t, ts),
                           "all": allsol}
    for t in MODEL_TYPES:
        for _ in range(n):
            m = _rand_model(rng, t, nmin=1, lams=(1, 0), maxcons=1)
            yield {"how": "method", "model": m, "all": rng.random() < 0.5}


@clause("C19.solver_args_untouched", "C19", gen=_gen_solvers,
        nontrivial=lambda c: _has_var(c["arg"][2] if c["how"] == "function" and c["arg"][0] == "model" else
                                      c["arg"][1] if c["how"] == "function" else c["model"]["terms"]))
def check_solvers(case):
    """solve_pubo/qubo/puso/quso_bruteforce on plain dicts (with and without a constant, constant first or last, empty)
    and on model objects, all_solutions both ways, and .solve_bruteforce() of every model type (PCBO/PCSO with
    constraints): deep snapshot of the dict / model identical before and after (plain dicts: same keys and values
    exactly, key order not compared). An exception raised by the solver does not end the comparison.
    Non-trivial: non-constant model."""
    q = qv()
    if case["how"] == "function":
        a = _arg(case["arg"])
        call = lambda: getattr(q.utils, "solve_%s_bruteforce" % case["solver"])(a, case["all"])     # noqa
        what = "solve_%s_bruteforce(%s)" % (case["solver"], type(a).__name__)
    else:
        a = _build(case["model"])
        if len(a.variables) > 9:
            return Skip("too many variables")
        call = lambda: a.solve_bruteforce(case["all"])       # noqa
        what = "%s.solve_bruteforce" % type(a).__name__
    s = snapshot(a)
    plain = sorted(repr(i) for i in a.items())
    err = None
    try:
        call()
    except Exception as e:          # noqa  (the contract here is only about mutation)
        err = e
    if snapshot(a) != s or sorted(repr(i) for i in a.items()) != plain:
        return Fail("%s changed its argument to %r%s" % (what, a, " (and raised %r)" % err if err else ""),
                    key="solver-mutates-argument:%s" % what.split("(")[0])
    return None


# ---------------------------------------------------------------------------------------------
# 7. annealers
# ---------------------------------------------------------------------------------------------
ANNEAL = {"qubo": ["dict", "QUBO", "QUBOMatrix"], "quso": ["dict", "QUSO", "QUSOMatrix"],
          "pubo": ["dict", "QUBO", "PUBO", "PCBO", "QUBOMatrix", "PUBOMatrix"],
          "puso": ["dict", "QUSO", "PUSO", "PCSO", "QUSOMatrix", "PUSOMatrix"]}


def _gen_anneal(ctx):
    rng = ctx.rng("c19.anneal")
    n = ctx.pick(150, 3000)
    for s, types in ANNEAL.items():
        for t in types:
            labels = _labels(t, 3) if t != "dict" else LABELS[:3]
            keys = canonical_keys(labels, 2 if s[0] == "q" or t[0] == "Q" else 3)
            for i in range(n):
                ts = _rand_terms(rng, keys[1:], 3, 1)
                if rng.random() < 0.5:
                    ts[()] = rng.choice(COEFS)
                arg = ("dict", ts) if t == "dict" else ("model", t, ts)
                if t != "dict" and i % 4 == 3:
                    arg = ("stale", t, ts, 3 if t in MATRIX_TYPES else 'gone')
                c = {"solver": s, "arg": arg, "seed": i,
                     "num_anneals": rng.choice([1, 2, 3]), "duration": rng.choice([1, 2, 5]),
                     "in_order": rng.random() < 0.5}
                r = rng.random()
                if r < 0.3:
                    c["initial_state"] = rng.choice(["dict", "list"]) if t in MATRIX_TYPES else "dict"
                if 0.2 < r < 0.5:
                    c["temperature_range"] = (2.0, 0.5)
                elif r > 0.8:
                    c["schedule"] = rng.choice(["linear", [3.0, 2.0, 1.0], [1.5], [1.0, 3.0, 2.0], [0.5, 2.0]])
                yield c


@clause("C19.annealer_args_untouched", "C19", gen=_gen_anneal, nontrivial=lambda c: True if c["arg"][-1] else False)
def check_anneal(case):
    """qubovert.sim.anneal_qubo / anneal_quso / anneal_pubo / anneal_puso with num_anneals <= 3 and anneal_duration
    <= 5 on plain dicts and on every accepted model type (each with at least one variable), optionally with
    initial_state (dict or list), temperature_range, a named or explicit schedule, in_order both ways: deep snapshots
    of the model / dict, of initial_state and of an explicit schedule list are identical before and after.
    Non-trivial: model has a term."""
    q = qv()
    a = _arg(case["arg"])
    spin = case["solver"] in ("quso", "puso")
    kw = {"num_anneals": case["num_anneals"], "anneal_duration": case["duration"], "seed": case["seed"],
          "in_order": case["in_order"]}
    vs = sorted(variables_of(dict(a)), key=repr)
    if hasattr(a, "variables"):
        # an initial state has to cover the variables the model reports (a cancelled one included)
        vs = sorted(set(vs) | set(a.variables), key=repr)
    if type(a).__name__ in MATRIX_TYPES:
        vs = list(range(max(vs) + 1))
    extra = {}
    if case.get("initial_state"):
        val = (lambda i: 1 - 2 * (i % 2)) if spin else (lambda i: i % 2)
        if case["initial_state"] == "dict":
            kw["initial_state"] = {v: val(i) for i, v in enumerate(vs)}
        else:
            kw["initial_state"] = [val(i) for i in range(max(vs) + 1)]
        extra["initial_state"] = kw["initial_state"]
    if "temperature_range" in case:
        kw["temperature_range"] = tuple(case["temperature_range"])
    if "schedule" in case:
        kw["schedule"] = list(case["schedule"]) if isinstance(case["schedule"], list) else case["schedule"]
        if isinstance(kw["schedule"], list):
            extra["schedule"] = kw["schedule"]
            kw["anneal_duration"] = len(kw["schedule"])
    def views(m):
        return {p: repr(sorted(map(repr, getattr(m, p))) if p == "variables" else getattr(m, p))
                for p in ("variables", "num_binary_variables", "degree", "max_index", "mapping", "num_terms", "offset")
                if hasattr(m, p)}
    s = snapshot(a)
    plain = sorted(repr(i) for i in a.items())
    vw = views(a)
    se = {k: snapshot(v) for k, v in extra.items()}
    fn = getattr(q.sim, "anneal_" + case["solver"])
    fn(a, **kw)
    if views(a) != vw:
        return Fail("anneal_%s changed what its %s argument reports: %r -> %r" % (case["solver"], type(a).__name__, vw, views(a)),
                    key="annealer-mutates-argument-views:anneal_%s:%s" % (case["solver"], type(a).__name__))
    if snapshot(a) != s or sorted(repr(i) for i in a.items()) != plain:
        return Fail("anneal_%s changed its %s argument to %r" % (case["solver"], type(a).__name__, a),
                    key="annealer-mutates-argument:anneal_%s:%s" % (case["solver"], type(a).__name__))
    for k, v in extra.items():
        if snapshot(v) != se[k]:
            return Fail("anneal_%s changed %s to %r" % (case["solver"], k, v),
                        key="annealer-mutates-%s:anneal_%s" % (k, case["solver"]))
    return None
