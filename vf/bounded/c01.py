"""C01 bounded stand-in: degree reduction (to_qubo / to_quso / to_pubo(deg) / to_puso(deg)) of PUBO/PUSO/PCBO/PCSO.

Scope: refreshed models only (constructor from canonical keys with non-zero coefficients, or built incrementally and
then .refresh()), mixed label types, degree 3..5, <= 5 labels, n + ancillas <= 12; full truth table of D.
M is always evaluated with common.peval on the case's term dict; D is evaluated from dict(D) by a vectorised
truth-table routine written here (spot-checked against common.peval on every case).
"""
import itertools

import numpy as np

from .common import (clause, Fail, Skip, LABELS, COEFS, all_small_models, variables_of, peval, cls_of)

TYPES = ["PUBO", "PUSO", "PCBO", "PCSO"]
SPIN_M = ("PUSO", "PCSO")
TARGETS = ["to_qubo", "to_quso", "to_pubo", "to_puso"]
SPIN_D = ("to_quso", "to_puso")
MAXN = 12
TOL = 1e-9

# penalty specifications (strings/numbers in the case, resolved in _lam)
SAFE_LAMS = [None, "abs", "2abs+1", "big", "maxabs"]       # default, or >= |coefficient| of every reduced term
SMALL_LAMS = [0.25, 0.5, "abs/4"]                          # legal penalties that may be too small
JUNK = "__junk__"


# ---------------------------------------------------------------------------------------------
# helpers
# ---------------------------------------------------------------------------------------------
def _boolean_form(terms, spin):
    """Coefficients of the (unique) multilinear boolean polynomial equal to the model under z = 1 - 2x.
    Own expansion, independent of puso_to_pubo. Keys are frozensets of labels."""
    out = {}
    for k, c in terms.items():
        if not spin:
            fs = frozenset(k)
            out[fs] = out.get(fs, 0) + c
            continue
        k = tuple(k)
        for r in range(len(k) + 1):
            for sub in itertools.combinations(k, r):
                fs = frozenset(sub)
                out[fs] = out.get(fs, 0) + c * (-2) ** r
    return {k: v for k, v in out.items() if v}


def _lam(spec, terms, spin):
    if spec is None or isinstance(spec, (int, float)):
        return spec
    if spec == "abs":
        return lambda v: abs(v)
    if spec == "2abs+1":
        return lambda v: 2 * abs(v) + 1
    if spec == "abs/4":
        return lambda v: abs(v) / 4
    if spec == "1-v":
        # a penalty that looks at the *signed* coefficient it is given: adequate (>= |v|) exactly for v <= 0
        return lambda v: 1 - v
    bf = _boolean_form(terms, spin)
    if spec == "big":
        return sum(abs(v) for v in bf.values()) + 1
    if spec == "maxabs":
        return max(abs(v) for v in bf.values())
    raise ValueError("unknown lam spec %r" % (spec,))


def _twinnable(terms):
    """a term with two python-int labels, in a model whose labels are ints and strings only (numpy integers compared
    with tuple labels yield arrays - that is numpy's doing, not a case for this property)"""
    return all(type(l) in (int, str) for k in terms for l in k) and \
        any(sum(1 for l in k if type(l) is int) >= 2 for k in terms)


def _build(case):
    cls = cls_of(case["type"])
    terms = case["terms"]
    how = case.get("build", "ctor")
    if how == "ctor":
        return cls(terms)
    if how == "history":
        # the model had other coefficients on the same keys, was converted with every method, and then got its
        # coefficients by in-place edits of existing terms: what a conversion returns must depend on the model as it
        # is now, not on what an earlier conversion saw
        M = cls({k: 2 * v + 1 for k, v in terms.items()})
        for t in ("to_qubo", "to_quso", "to_pubo", "to_puso"):
            getattr(M, t)()
        for i, (k, v) in enumerate(terms.items()):
            if i % 3 == 0:
                M[k] = v
            elif i % 3 == 1:
                M[k] += v - (2 * v + 1)
            else:
                M[k] -= (2 * v + 1) - v
        return M
    if how == "declared":
        # the enumeration is declared with set_mapping, with a gap, before the terms are entered (as in the library's
        # own test of set_mapping): reduction ancillas must not collide with a declared integer
        M = cls()
        labs = variables_of(terms)
        M.set_mapping({l: (2 * i + 1 if i == len(labs) - 1 else i) for i, l in enumerate(labs)})
        for k, v in terms.items():
            M[k] += v
        return M
    if how == "twin":
        # the same monomial entered under two spellings: python int and numpy.int64 labels are equal objects (one
        # variable), but the library keeps the two keys apart (labels are ordered by type name first), so the model
        # holds one monomial under two keys; the function it denotes is the sum, and so must the reduced form's be
        M = cls()
        done = False
        for k, v in terms.items():
            ints = [i for i, l in enumerate(k) if type(l) is int]
            if not done and len(ints) >= 2:
                k1 = tuple(np.int64(l) if i == ints[0] else l for i, l in enumerate(k))
                k2 = tuple(np.int64(l) if i == ints[1] else l for i, l in enumerate(k))
                M[k1] += v + 1
                M[k2] += -1
                done = True
            else:
                M[k] += v
        return M
    if how == "squashed":
        # spin models only: the first key is written with a label squared (z*z = 1), which denotes the same function
        # and must leave no trace of that label
        ks = list(terms)
        raw = {(k + (JUNK, JUNK) if i == 0 else k): v for i, (k, v) in enumerate(terms.items())}
        return cls(raw)
    # incremental construction in reversed term order, with a junk label that cancels, then refresh()
    M = cls()
    M[(JUNK,)] += 1
    for k in reversed(list(terms)):
        M[tuple(reversed(k))] += terms[k]
    M[(JUNK,)] -= 1
    M.refresh()
    return M


def _convert(case):
    """-> (M, D) ; D produced by the requested conversion on the real library."""
    M = _build(case)
    terms = case["terms"]
    spin_m = case["type"] in SPIN_M
    lam = _lam(case["lam"], terms, spin_m)
    pairs = case["pairs"]
    if pairs is not None:
        pairs = set(tuple(p) for p in pairs)
    t = case["target"]
    if t in ("to_qubo", "to_quso"):
        D = getattr(M, t)(lam=lam, pairs=pairs)
    else:
        D = getattr(M, t)(deg=case["deg"], lam=lam, pairs=pairs)
    return M, D


def _table(terms, N, spin):
    """Truth table of a polynomial over integer labels 0..N-1: entry i is the value at the assignment whose
    label j has bit (i >> j) & 1, a set bit meaning boolean 1 / spin -1."""
    idx = np.arange(1 << N, dtype=np.int64)
    tot = np.zeros(1 << N, dtype=np.float64)
    for k, v in terms.items():
        f = np.ones(1 << N, dtype=np.float64)
        for j in k:
            b = (idx >> j) & 1
            f = f * ((1 - 2 * b) if spin else b)
        tot += float(v) * f
    return tot


def _assignment(i, N, spin):
    return {j: ((1 - 2 * ((i >> j) & 1)) if spin else ((i >> j) & 1)) for j in range(N)}


class _Setup:
    pass


def _setup(case):
    """Runs the conversion and prepares truth tables. Returns a _Setup, or a Fail/Skip."""
    M, D = _convert(case)
    terms = case["terms"]
    spin_m = case["type"] in SPIN_M
    spin_d = case["target"] in SPIN_D
    vs = variables_of(terms)
    n = len(vs)
    mapping = M.mapping
    if set(mapping) != set(vs):
        # every build used here ends in a refreshed state (constructor, or edits followed by refresh()): the mapping
        # enumerates exactly the model's variables
        return Fail("mapping %r of a freshly built / refreshed model does not enumerate exactly its variables %r"
                    % (mapping, vs), key="mapping-labels")
    if sorted(mapping.values()) != list(range(n)):
        return Fail("mapping of a refreshed model is not an enumeration 0..n-1: %r" % (mapping,), key="mapping-enum")
    d = dict(D)
    labels = set()
    for k in d:
        if not isinstance(k, tuple):
            return Fail("key %r of D is not a tuple" % (k,), key="d-key-type")
        labels.update(k)
    bad = [j for j in labels if not isinstance(j, (int, np.integer)) or isinstance(j, bool) or j < 0]
    if bad:
        return Fail("D uses labels that are not non-negative integers: %r" % (bad,), key="d-labels")
    N = max([n] + [j + 1 for j in labels])
    if N > MAXN:
        return Skip("scope: n + ancillas = %d > %d" % (N, MAXN))
    st = _Setup()
    st.M, st.D, st.d, st.terms, st.vs, st.n, st.N, st.mapping = M, D, d, terms, vs, n, N, mapping
    st.spin_m, st.spin_d = spin_m, spin_d
    st.Dtab = _table(d, N, spin_d)
    # spot-check the vectorised evaluator against common.peval (harness self-check, not a contract)
    for i in (0, (1 << N) - 1, (0x5A5A5A5A >> 3) & ((1 << N) - 1)):
        ref = peval(d, _assignment(i, N, spin_d))
        if abs(ref - st.Dtab[i]) > 1e-7 * max(1.0, abs(ref)):
            raise AssertionError("harness: table evaluator disagrees with peval")
    # truth table of M indexed by the model part of i (bit mapping[v] <-> variable v), evaluated with peval
    mt = np.zeros(1 << n, dtype=np.float64)
    for j in range(1 << n):
        x = {v: ((1 - 2 * ((j >> mapping[v]) & 1)) if spin_m else ((j >> mapping[v]) & 1)) for v in vs}
        mt[j] = peval(terms, x)
    st.Mtab = mt
    return st


def _m_of_converted(st, i):
    """M(M.convert_solution(s_i)) with the real convert_solution; returns (value, None) or (None, Fail)."""
    s = _assignment(i, st.N, st.spin_d)
    x = st.M.convert_solution(s, spin=st.spin_d)
    if any(v != 1 for v in s.values()):
        # s is not all ones, so its domain is unambiguous and the `spin` hint is documented as ignored: without
        # the hint (and with the wrong one) the whole of s - ancillas included - must decide how it is read
        for flag in ((), (not st.spin_d,)):
            x2 = st.M.convert_solution(s, *flag)
            if x2 != x:
                return None, Fail("convert_solution(%r%s) = %r but with the truthful hint %r (s is unambiguous)"
                                  % (s, ", spin=%r" % flag[0] if flag else "", x2, x), key="convert-hint-dependent")
    if not isinstance(x, dict) or set(x) != set(st.vs):
        return None, Fail("convert_solution(%r) = %r is not an assignment of M's variables %r" % (s, x, st.vs),
                          key="convert-domain")
    dom = (1, -1) if st.spin_m else (0, 1)
    if any(v not in dom for v in x.values()):
        return None, Fail("convert_solution(%r) = %r has values outside %r" % (s, x, dom), key="convert-values")
    return peval(st.terms, x), None


def _requested_degree(case):
    if case["target"] in ("to_qubo", "to_quso"):
        return 2
    return case["deg"]


def _nontrivial(case):
    """A reduction really has to happen: some term has more labels than the requested degree."""
    r = _requested_degree(case)
    return r is not None and max(len(k) for k in case["terms"]) > r


# ---------------------------------------------------------------------------------------------
# generators
# ---------------------------------------------------------------------------------------------
def _rand_terms(rng, labels, maxdeg, max_terms):
    """Random refreshed-style term dict: canonical keys in shuffled label order, non-zero coefficients, at least
    one key of degree >= 3."""
    labels = list(labels)
    rng.shuffle(labels)
    top = rng.randint(3, min(maxdeg, len(labels)))
    keys = [tuple(rng.sample(labels, top))]
    nt = rng.randint(0, max_terms - 1)
    for _ in range(nt):
        d = rng.randint(0, min(maxdeg, len(labels)))
        k = tuple(rng.sample(labels, d))
        if frozenset(k) not in [frozenset(q) for q in keys]:
            keys.append(k)
    rng.shuffle(keys)
    return {k: rng.choice(COEFS) for k in keys}


def _rand_pairs(rng, labels):
    r = rng.random()
    if r < 0.35:
        return None
    if r < 0.45:
        return []
    pool = list(labels) + ["zz", 7]          # "zz" and 7 are unknown labels (7 is also a plausible ancilla index)
    out = []
    for _ in range(rng.randint(1, 3)):
        p = tuple(rng.sample(pool, 2))
        out.append(p)
    return out


def _targets_for(rng=None):
    out = [("to_qubo", None), ("to_quso", None)]
    for t in ("to_pubo", "to_puso"):
        for deg in (2, 3, None):
            out.append((t, deg))
    return out


def _gen(ctx, salt, lams, quick_n, thorough_n, exhaustive=True):
    # 1. exhaustive small scope: every model with <= 2 terms over 4 mixed labels containing a term of degree >= 3,
    #    PUBO and PUSO, every target/degree, default penalty (first entry of lams)
    if exhaustive:
        labs = [1, 'a', 0, ('t', 1)]
        mt = ctx.pick(2, 2)
        for terms in all_small_models(labs, 4, [-1, 2], mt):
            if not terms or max(len(k) for k in terms) < 3:
                continue
            for tname in ("PUBO", "PUSO"):
                for (t, deg) in _targets_for():
                    if deg is None and not ctx.thorough:
                        continue
                    yield {"type": tname, "terms": terms, "build": "ctor", "target": t, "deg": deg,
                           "lam": lams[0], "pairs": None}
    # 2. hand-picked shapes: shared pairs between terms, nested reductions, degree 5, cancellation with the penalty
    shapes = [
        {('a', 'b', 0): 1, ('a', 'b'): -2},                                   # penalty's xy term cancels (a,b)
        {('a', 'b', 0): -1, ('a', 'b', 1): 2, (0, 1): 0.5},                    # pair (a,b) reused with two weights
        {(1, 0, 'a', 'b', ('t', 1)): -2},                                     # one degree-5 term
        {(1, 0, 'a', 'b', ('t', 1)): 1, (0, 'a', 'b'): -1, (1, ('t', 1)): 2, (): 0.5},
        {('a', 'b', 0, 1): 2, ('b', 0, 1): -1, ('a', 0, 1): -2, ('a',): 1},
        {(0, 1, 'a'): 0.5, (1, 'a', 'b'): -0.5, ('a', 'b', 0): 0.5, ('b', 0, 1): -0.5},
    ]
    for terms in shapes:
        labs = variables_of(terms)
        pair_sets = [None, [(labs[0], labs[1])], [(labs[-1], labs[0]), ("zz", labs[1])], [(7, "zz")]]
        cnt = 0
        for tname in TYPES:
            for (t, deg) in _targets_for():
                for lam in lams:
                    # rotate through the hint sets (all four in the thorough tier)
                    for pairs in (pair_sets if ctx.thorough else [pair_sets[cnt % 4], pair_sets[(cnt + 1) % 4]]):
                        yield {"type": tname, "terms": terms, "build": "ctor" if pairs is None else "refresh",
                               "target": t, "deg": deg, "lam": lam, "pairs": pairs}
                    cnt += 1
    # 2b. the same shapes after a history of conversions and in-place coefficient edits / written with a squared spin
    for terms in shapes[:4]:
        for tname in TYPES:
            for (t, deg) in _targets_for():
                if deg is None and t not in ("to_qubo", "to_quso"):
                    continue
                yield {"type": tname, "terms": terms, "build": "history", "target": t, "deg": deg, "lam": lams[0],
                       "pairs": None}
                if tname in SPIN_M:
                    yield {"type": tname, "terms": terms, "build": "squashed", "target": t, "deg": deg, "lam": lams[0],
                           "pairs": None}
                if _twinnable(terms):
                    yield {"type": tname, "terms": terms, "build": "twin", "target": t, "deg": deg, "lam": lams[0],
                           "pairs": None}

    # 3. seeded random cases
    rng = ctx.rng(salt)
    for _ in range(ctx.pick(quick_n, thorough_n)):
        nl = rng.choice([3, 4, 4, 5, 5])
        labels = rng.sample(LABELS, nl)
        maxdeg = ctx.pick(5, 5)
        terms = _rand_terms(rng, labels, maxdeg, ctx.pick(4, 6))
        t = rng.choice(TARGETS)
        deg = None if t in ("to_qubo", "to_quso") else rng.choice([2, 2, 3, 3, 4, None])
        tname = rng.choice(TYPES)
        builds = ["ctor", "ctor", "refresh", "history"] + (["squashed"] if tname in SPIN_M else []) + \
            (["twin"] if _twinnable(terms) else [])
        yield {"type": tname, "terms": terms, "build": rng.choice(builds),
               "target": t, "deg": deg, "lam": rng.choice(lams), "pairs": _rand_pairs(rng, labels)}


def _gen_ext(ctx):
    return _gen(ctx, "c01.ext", [None] + SMALL_LAMS + ["abs", "big"], 700, 14000)


def _signed_ok(case):
    """the sign-sensitive penalty lambda v: 1 - v is adequate when every non-constant coefficient of the boolean form is
    negative (the library hands the penalty the signed coefficient of the term it reduces)"""
    bf = _boolean_form(case["terms"], case["type"] in SPIN_M)
    return all(v < 0 for k, v in bf.items() if k)


def _with_signed(ctx, salt, quick_n, thorough_n):
    # boolean models whose higher-order terms are all negative, reduced with the sign-sensitive penalty
    for tname in ("PUBO", "PCBO"):
        for terms in ({('a', 'b', 0): -2, ('a', 0, 1): -1}, {('a', 'b', 0, 1): -3, ('a', 'b'): -1, (): 2},
                      {(0, 1, 'a'): -1, (0, 1, 'b'): -10, (1,): -8}):
            for (t, deg) in (("to_qubo", None), ("to_quso", None), ("to_pubo", 2), ("to_puso", 2)):
                yield {"type": tname, "terms": terms, "build": "ctor", "target": t, "deg": deg, "lam": "1-v", "pairs": None}
    for case in _gen(ctx, salt, SAFE_LAMS + ["1-v", "1-v"], quick_n, thorough_n):
        if case["lam"] == "1-v" and not _signed_ok(case):
            neg = {k: (-abs(v) if k else v) for k, v in case["terms"].items()}
            case = dict(case, terms=neg)
            if not _signed_ok(case):
                case = dict(case, lam=None)
        yield case


def _gen_under(ctx):
    return _with_signed(ctx, "c01.under", 700, 14000)


def _gen_min(ctx):
    return _with_signed(ctx, "c01.min", 700, 14000)


def _gen_deg(ctx):
    return _gen(ctx, "c01.deg", [None, 0.25, "abs"], 900, 18000)


# ---------------------------------------------------------------------------------------------
# clauses
# ---------------------------------------------------------------------------------------------
@clause("C01.extension_exact", "C01", gen=_gen_ext, nontrivial=_nontrivial)
def check_extension(case):
    """(i) Whatever penalty is chosen (default, constant, callable, also too-small ones): every assignment x of
    M's variables has an extension s over D's variables (s agrees with x on label M.mapping[v] for every variable v,
    under 0<->1, 1<->-1 when the domains differ) with D(s) == M(x). Non-trivial: some term exceeds the requested
    degree, so ancillas are needed."""
    st = _setup(case)
    if not isinstance(st, _Setup):
        return st
    n, N = st.n, st.N
    Dm = st.Dtab.reshape(1 << (N - n), 1 << n)          # rows: ancilla part, columns: model part
    scale = np.maximum(1.0, np.abs(st.Mtab))[None, :]
    hit = np.any(np.abs(Dm - st.Mtab[None, :]) <= TOL * scale, axis=0)
    if not hit.all():
        j = int(np.argmin(hit))
        x = {v: ((1 - 2 * ((j >> st.mapping[v]) & 1)) if st.spin_m else ((j >> st.mapping[v]) & 1)) for v in st.vs}
        return Fail("no extension of x=%r reaches M(x)=%r; D over the extensions takes %r"
                    % (x, float(st.Mtab[j]), sorted(set(Dm[:, j].tolist()))), key="no-exact-extension",
                    observed=repr(st.d))
    return None


@clause("C01.never_undercuts", "C01", gen=_gen_under, nontrivial=_nontrivial)
def check_undercut(case):
    """(ii) With the default penalty, or a constant/callable penalty >= |coefficient| of every reduced term (for spin
    models: coefficients of the boolean form), every assignment s of D's variables (all 2^(n+a), inconsistent
    ancillas included) satisfies D(s) >= M(M.convert_solution(s, spin=<domain of D>)). Non-trivial: ancillas are
    needed."""
    st = _setup(case)
    if not isinstance(st, _Setup):
        return st
    for i in range(1 << st.N):
        mv, f = _m_of_converted(st, i)
        if f is not None:
            return f
        dv = float(st.Dtab[i])
        if dv < mv - TOL * max(1.0, abs(mv)):
            return Fail("D(s)=%r < M(convert_solution(s))=%r at s=%r" % (dv, mv, _assignment(i, st.N, st.spin_d)),
                        key="undercut", observed=repr(st.d))
    return None


@clause("C01.minimum_preserved", "C01", gen=_gen_min, nontrivial=_nontrivial)
def check_minimum(case):
    """(iii) Under the same penalty precondition: min D == min M, and every minimiser of D converts (real
    convert_solution) to a minimiser of M. Non-trivial: ancillas are needed."""
    st = _setup(case)
    if not isinstance(st, _Setup):
        return st
    dmin, mmin = float(st.Dtab.min()), float(st.Mtab.min())
    tol = TOL * max(1.0, abs(mmin))
    if abs(dmin - mmin) > tol:
        return Fail("min D = %r but min M = %r" % (dmin, mmin), key="min-differs", observed=repr(st.d))
    for i in np.nonzero(st.Dtab <= dmin + tol)[0].tolist():
        mv, f = _m_of_converted(st, i)
        if f is not None:
            return f
        if mv > mmin + tol:
            return Fail("minimiser s=%r of D converts to an assignment with M=%r > min M=%r"
                        % (_assignment(i, st.N, st.spin_d), mv, mmin), key="minimiser-not-minimiser",
                        observed=repr(st.d))
    return None


@clause("C01.degree_and_labels", "C01", gen=_gen_deg, nontrivial=_nontrivial)
def check_degree_labels(case):
    """(iv) D has degree <= the requested degree (2 for to_qubo/to_quso, deg for to_pubo/to_puso, M's degree when
    deg is None); its labels are non-negative integers; M.mapping enumerates M's n variables as 0..n-1 and D uses
    label M.mapping[v] for variable v: restricted to assignments whose ancillas (labels >= n) are chosen best, D
    reproduces M through that correspondence, and convert_solution reads exactly labels 0..n-1 through the mapping.
    Non-trivial: ancillas are needed."""
    st = _setup(case)
    if not isinstance(st, _Setup):
        return st
    req = _requested_degree(case)
    if req is None:
        req = max(len(k) for k in st.terms)
    got = max([len(k) for k in st.d] + [0])
    if got > req:
        return Fail("degree of D is %d > requested %d" % (got, req), key="degree", observed=repr(st.d))
    # convert_solution reads label mapping[v] for v, and nothing else
    N = st.N
    for i in (0, (1 << N) - 1, 0b101010101010 & ((1 << N) - 1), 0b010101010101 & ((1 << N) - 1)):
        s = _assignment(i, N, st.spin_d)
        x = st.M.convert_solution(s, spin=st.spin_d)
        want = {}
        for v in st.vs:
            b = (i >> st.mapping[v]) & 1
            want[v] = (1 - 2 * b) if st.spin_m else b
        if x != want:
            return Fail("convert_solution(%r) = %r, expected %r from M.mapping=%r" % (s, x, want, st.mapping),
                        key="convert-mapping")
    # D, with ancillas (labels >= n) chosen freely, reaches M(x) at the model part given by the mapping
    n = st.n
    Dm = st.Dtab.reshape(1 << (N - n), 1 << n)
    scale = np.maximum(1.0, np.abs(st.Mtab))[None, :]
    if not np.any(np.abs(Dm - st.Mtab[None, :]) <= TOL * scale, axis=0).all():
        return Fail("labels 0..n-1 of D do not correspond to M's variables through M.mapping=%r" % (st.mapping,),
                    key="label-correspondence", observed=repr(st.d))
    return None


# ---------------------------------------------------------------------------------------------
# pairs hints: exhaustive over all subsets of label pairs for a few fixed models
# ---------------------------------------------------------------------------------------------
def _gen_pairs(ctx):
    models = [
        {('a', 0, 1): -1, (0, 1, 'b'): 2, ('a', 'b'): 1},
        {(1, 'a', 0, 'b'): -2, ('a', 'b', 0): 1, (1,): 0.5},
    ]
    if ctx.thorough:
        models.append({(1, 0, 'a', 'b', ('t', 1)): -1, (0, 'a', ('t', 1)): 2})
    for terms in models:
        labs = variables_of(terms) + ["zz"]
        allp = list(itertools.combinations(labs, 2))
        subsets = [[]]
        for r in (1, 2):
            subsets.extend([list(c) for c in itertools.combinations(allp, r)])
        if not ctx.thorough:
            subsets = subsets[::3]
        for ps in subsets:
            # hint pairs given in reversed label order on purpose
            ps = [tuple(reversed(p)) for p in ps]
            for tname in ("PUBO", "PCSO") if not ctx.thorough else TYPES:
                for (t, deg) in (("to_qubo", None), ("to_quso", None), ("to_pubo", 2), ("to_puso", 2), ("to_pubo", 3)):
                    for lam in (None, 0.25):
                        yield {"type": tname, "terms": terms, "build": "ctor", "target": t, "deg": deg,
                               "lam": lam, "pairs": ps}


@clause("C01.pairs_hints", "C01", gen=_gen_pairs,
        nontrivial=lambda c: _nontrivial(c) and bool(c["pairs"]))
def check_pairs(case):
    """`pairs` hints (any set of label pairs, in any order, possibly naming unknown labels) never affect
    correctness: (i) holds for every penalty, and with the default penalty also (ii) D(s) >= M(convert_solution(s))
    for all s. Non-trivial: ancillas are needed and a non-empty hint set is given."""
    st = _setup(case)
    if not isinstance(st, _Setup):
        return st
    n, N = st.n, st.N
    Dm = st.Dtab.reshape(1 << (N - n), 1 << n)
    scale = np.maximum(1.0, np.abs(st.Mtab))[None, :]
    if not np.any(np.abs(Dm - st.Mtab[None, :]) <= TOL * scale, axis=0).all():
        return Fail("with pairs=%r some x has no extension s with D(s) == M(x)" % (case["pairs"],),
                    key="no-exact-extension", observed=repr(st.d))
    if case["lam"] is None:
        for i in range(1 << N):
            mv, f = _m_of_converted(st, i)
            if f is not None:
                return f
            if st.Dtab[i] < mv - TOL * max(1.0, abs(mv)):
                return Fail("with pairs=%r: D(s)=%r < M(convert_solution(s))=%r at s=%r"
                            % (case["pairs"], float(st.Dtab[i]), mv, _assignment(i, N, st.spin_d)), key="undercut",
                            observed=repr(st.d))
    return None


# ---------------------------------------------------------------------------------------------
# models whose enumeration was declared with set_mapping, with gaps (own small harness: the integer labels of the
# model are not 0..n-1 there)
# ---------------------------------------------------------------------------------------------
def _gen_declared(ctx):
    for tname in TYPES:
        for terms in ({('a', 'b', 'c'): 1, ('c',): -2}, {('a', 'b', 'c'): -2, ('a', 'b'): 1, ('b', 'c', 'd'): 3},
                      {('a', 'b', 'c', 'd'): 1, ('a',): -1}):
            for t in TARGETS:
                for gap in (1, 2):
                    yield {"type": tname, "terms": terms, "target": t, "gap": gap}


@clause("C01.declared_mapping_gaps", "C01", gen=_gen_declared, nontrivial=lambda c: True)
def check_declared_gaps(case):
    """Reduction of a model whose integer enumeration was declared with set_mapping and has a gap (as in the library's
    own test of set_mapping): the ancilla labels differ from every declared integer, D never undercuts M on
    converted assignments, and min D == min M (default penalty, all assignments of D's labels)."""
    cls = cls_of(case["type"])
    terms = case["terms"]
    labs = variables_of(terms)
    decl = {l: (i if i < len(labs) - 1 else i + case["gap"]) for i, l in enumerate(labs)}
    M = cls()
    M.set_mapping(dict(decl))
    for k, v in terms.items():
        M[k] += v
    t = case["target"]
    D = getattr(M, t)() if t in ("to_qubo", "to_quso") else getattr(M, t)(deg=2)
    d = dict(D)
    dl = sorted({j for k in d for j in k})
    spin_m, spin_d = case["type"] in SPIN_M, t in SPIN_D
    if len(dl) > MAXN:
        return Skip("scope")
    mvals = []
    for x in itertools.product((1, -1) if spin_m else (0, 1), repeat=len(labs)):
        mvals.append(peval(terms, dict(zip(labs, x))))
    dmin = None
    for s_ in itertools.product((1, -1) if spin_d else (0, 1), repeat=len(dl)):
        sd = dict(zip(dl, s_))
        full = dict(sd)
        for l, i in decl.items():
            full.setdefault(i, 1 if spin_d else 0)
        dv = peval(d, sd)
        x = M.convert_solution(full, spin=spin_d)
        if set(x) != set(labs):
            return Fail("convert_solution(%r) = %r is not over %r" % (full, x, labs), key="declared-convert")
        mv = peval(terms, x)
        if dv < mv - 1e-9:
            return Fail("D(s)=%r < M(convert_solution(s))=%r at s=%r (mapping %r, D %r)" % (dv, mv, sd, decl, d),
                        key="declared-undercut")
        dmin = dv if dmin is None else min(dmin, dv)
    if abs(dmin - min(mvals)) > 1e-9:
        return Fail("min D = %r but min M = %r (mapping %r, D %r)" % (dmin, min(mvals), decl, d), key="declared-min")
    return None
