"""Known findings: committed file /verif/findings/known_findings.jsonl, never written at run time.

Each line: {"status": "open"|"fixed", "property": "C14", "clause": <bounded clause or obligation name or null>,
            "key": <violation key to match>, "case_contains": <optional substring of the case repr>,
            "what": "...", "commit": <sha for fixed>}
A violation matches an *open* entry when property and key are equal (and clause / case_contains, when given).
Fixed entries are plain lines "fixed: property=<id> <commit> <what failed>"; they suppress nothing.
"""
import json
import os

from . import VERIF

PATH = os.path.join(VERIF, "findings", "known_findings.jsonl")


def load():
    out = []
    if os.path.exists(PATH):
        for line in open(PATH):
            line = line.strip()
            if not line or line.startswith("#"):
                continue
            if line.startswith("fixed:"):
                out.append({"status": "fixed", "what": line})
                continue
            out.append(json.loads(line))
    return out


def match(violation, entries):
    for e in entries:
        if e.get("status") != "open":
            continue
        if e.get("property") != violation.get("property"):
            continue
        if e.get("key") is not None and e.get("key") != violation.get("key"):
            continue
        if e.get("clause") and e["clause"] != violation.get("clause"):
            continue
        if e.get("case_contains") and e["case_contains"] not in (violation.get("case") or ""):
            continue
        return e
    return None
