"""./check <ID> [--tier quick|thorough] [--replay PATH] [--only-bounded|--only-deductive]

Exit codes: 0 property held on everything explored; 1 violation (VIOLATION line printed);
3 checker error (no VIOLATION line; never a verdict about the repository).
"""
import argparse
import concurrent.futures as cf
import json
import multiprocessing as mp
import multiprocessing.connection
import os
import sys
import time
import traceback

from . import VERIF, REPO, PROPERTIES
from . import findings as kf


def _bounded_worker(args):
    name, tier, seed, budget = args
    from .bounded import common
    try:
        return common.run_clause(name, tier, seed, budget)
    except Exception:
        return {"clause": name, "fatal": traceback.format_exc()}


def run_bounded(prop, tier, seed, only=None):
    from .bounded import load_all, common, LOAD_ERRORS
    load_all()
    for mod, tb in LOAD_ERRORS.items():
        if mod[1:3] == prop[1:3]:
            raise RuntimeError("bounded module %s failed to import:\n%s" % (mod, tb))
    clauses = [c.name for c in common.BY_PROP.get(prop, [])]
    if only:
        clauses = [c for c in clauses if c in only]
    if not clauses:
        return []
    from .registry import BOUNDED_BUDGET
    budget = BOUNDED_BUDGET.get(prop, {}).get(tier, 40 if tier == "quick" else 600)
    return _run_isolated(prop, clauses, tier, seed, budget)


def _bounded_child(args, conn, progress_path):
    name, tier, seed, budget = args
    from .bounded import common
    fd = os.open(progress_path, os.O_WRONLY | os.O_CREAT, 0o600)
    try:
        res = common.run_clause(name, tier, seed, budget, progress_fd=fd)
    except Exception:
        res = {"clause": name, "fatal": traceback.format_exc()}
    try:
        conn.send(res)
    finally:
        conn.close()
        os.close(fd)


def _last_case(progress_path):
    try:
        with open(progress_path, "rb") as f:
            head = f.readline()
            n = int(head.strip() or 0)
            return f.read(n).decode("utf-8", "replace")
    except Exception:
        return None


def _run_isolated(prop, clauses, tier, seed, budget, width=14):
    """one process per clause; a process that dies (native code crashed) is reported as a failure of the case it was
    evaluating, not as a crash of the checker"""
    import shutil
    import signal
    import tempfile
    ctx = mp.get_context("fork")
    tmpd = tempfile.mkdtemp(prefix="vf_bounded_")
    results = {}
    pending = list(enumerate(clauses))
    running = {}
    try:
        while pending or running:
            while pending and len(running) < width:
                i, c = pending.pop(0)
                pr, pw = ctx.Pipe(duplex=False)
                path = os.path.join(tmpd, "p%d" % i)
                p = ctx.Process(target=_bounded_child, args=((c, tier, seed, budget), pw, path))
                p.start()
                pw.close()
                running[i] = (p, pr, path, c)
            ready = mp.connection.wait([v[1] for v in running.values()] + [v[0].sentinel for v in running.values()],
                                       timeout=1.0)
            for i in list(running):
                p, pr, path, c = running[i]
                got = None
                if pr.poll():
                    try:
                        got = pr.recv()
                    except EOFError:
                        got = None
                    if got is not None:
                        p.join()
                        results[i] = got
                        del running[i]
                        continue
                if not p.is_alive():
                    p.join()
                    if pr.poll():
                        try:
                            results[i] = pr.recv()
                            del running[i]
                            continue
                        except EOFError:
                            pass
                    code = p.exitcode
                    why = ("signal %s" % signal.Signals(-code).name) if code is not None and code < 0 else "exit code %r" % code
                    case = _last_case(path)
                    if case is None:
                        results[i] = {"clause": c, "fatal": "the clause process died (%s) before its first case" % why}
                    else:
                        results[i] = {"clause": c, "property": prop, "evaluations": 1, "skipped": 0, "distinct": 1,
                                      "distinct_nontrivial": 1, "errors": [], "samples": [], "exhausted_generator": False,
                                      "wall_s": 0, "doc": "",
                                      "fails": [{"clause": c, "property": prop, "case": case,
                                                 "msg": "the process running the library died (%s) while evaluating this "
                                                        "case; the remaining cases of the clause were not run" % why,
                                                 "key": "process-died", "observed": why,
                                                 "required": "the call returns or raises a Python exception"}]}
                    del running[i]
    finally:
        for p, pr, path, c in running.values():
            p.kill()
        shutil.rmtree(tmpd, ignore_errors=True)
    return [results[i] for i in range(len(clauses))]


def write_replay(prop, idx, payload):
    d = os.path.join(VERIF, "replay", prop)
    os.makedirs(d, exist_ok=True)
    p = os.path.join(d, "%s_%03d.json" % (payload.get("kind", "v"), idx))
    with open(p, "w") as f:
        json.dump(payload, f, indent=1, default=str)
    return p


def _replay_child(clause, case, conn):
    from .bounded import common
    status, res = common.replay_case(clause, case)
    conn.send((status, getattr(res, "msg", res)))
    conn.close()


def _replay_isolated(clause, case):
    """the case is replayed in a child process: native code that crashes must not take the reporter down"""
    ctx = mp.get_context("fork")
    pr, pw = ctx.Pipe(duplex=False)
    p = ctx.Process(target=_replay_child, args=(clause, case, pw))
    p.start()
    pw.close()
    try:
        out = pr.recv()
    except EOFError:
        out = None
    p.join()
    if out is None:
        return "fail", "the process running the library died (exit code %r) while evaluating this case" % p.exitcode
    return out


def do_replay(path):
    payload = json.load(open(path))
    print("replaying", path)
    print(" property:", payload.get("property"), " kind:", payload.get("kind"))
    if payload.get("kind") == "bounded" or payload.get("clause"):
        status, res = _replay_isolated(payload["clause"], payload["case"])
        print(" clause:", payload["clause"])
        print(" case:", payload["case"])
        print(" result on current tree:", status, getattr(res, "msg", res))
        return 1 if status == "fail" else (3 if status == "error" else 0)
    if payload.get("kind") == "obligation":
        from .qvc import driver
        return driver.replay(payload)
    print(json.dumps(payload, indent=1)[:4000])
    return 0


def main(argv=None):
    ap = argparse.ArgumentParser()
    ap.add_argument("prop", nargs="?")
    ap.add_argument("--relock", action="store_true")
    ap.add_argument("--tier", default=os.environ.get("VERIF_TIER", "quick"), choices=["quick", "thorough"])
    ap.add_argument("--replay")
    ap.add_argument("--only-bounded", action="store_true")
    ap.add_argument("--only-deductive", action="store_true")
    ap.add_argument("--clause", action="append")
    ap.add_argument("--no-evidence", action="store_true")
    a = ap.parse_args(argv)
    if a.replay:
        return do_replay(a.replay)
    if a.relock:
        from .qvc import driver
        print("locked obligations:", driver.relock())
        return 0
    prop = a.prop
    if prop not in PROPERTIES:
        print("unknown property", prop)
        return 3
    try:
        seed = int(os.environ.get("VERIF_SEED", "0"))
    except ValueError:
        seed = 0
    t0 = time.time()
    from .registry import REGISTRY
    meta = REGISTRY[prop]
    checker_errors = []
    ded = None
    if not a.only_bounded:
        try:
            from .qvc import driver
            ded = driver.run_property(prop, a.tier, seed)
        except Exception:
            checker_errors.append("deductive engine crashed:\n" + traceback.format_exc())
    bounded = []
    if not a.only_deductive:
        try:
            bounded = run_bounded(prop, a.tier, seed, a.clause)
        except Exception:
            checker_errors.append("bounded runner crashed:\n" + traceback.format_exc())

    known = kf.load()
    violations, known_hit = [], []
    # ---- deductive verdicts
    if ded:
        for ob in ded.get("obligations", []):
            if ob["status"] in ("refuted", "open") and ob.get("locked", True):
                v = {"property": prop, "kind": "obligation", "obligation": ob["name"], "status": ob["status"],
                     "key": "obligation:" + ob["name"], "clause": None,
                     "solver_output": ob.get("detail"), "model": ob.get("model"),
                     "failing_input": ob.get("failing_input"), "case": repr(ob.get("failing_input")),
                     "smt2": ob.get("smt2")}
                violations.append(v)
        checker_errors.extend(ded.get("errors", []))
    # ---- bounded verdicts
    for r in bounded:
        if r.get("fatal"):
            checker_errors.append("clause %s: %s" % (r["clause"], r["fatal"]))
            continue
        for e in r.get("errors", []):
            checker_errors.append("clause %s harness error on %s:\n%s" % (r["clause"], e["case"][:300], e["traceback"]))
        for f in r.get("fails", []):
            f = dict(f)
            f["kind"] = "bounded"
            violations.append(f)

    # link failed obligations to concrete failing inputs found by the bounded search of the same property
    bounded_fail = [v for v in violations if v["kind"] == "bounded"]
    out_lines = []
    real, idx = [], 0
    seen_keys = set()
    for v in violations:
        m = kf.match(v, known)
        if m:
            if m["what"] not in [k["what"] for k in known_hit]:
                known_hit.append(m)
            continue
        dk = (v.get("clause"), v.get("key"), v.get("obligation"))
        if dk in seen_keys and v["kind"] == "bounded":
            continue
        seen_keys.add(dk)
        real.append(v)
    for m in known_hit:
        out_lines.append("KNOWN-FINDING: property=%s %s" % (prop, m["what"]))
    for v in real:
        idx += 1
        if v["kind"] == "obligation":
            has_input = v.get("failing_input") is not None
            if not has_input and bounded_fail:
                v["related_bounded_witness"] = bounded_fail[0]["case"]
                has_input = True
            p = write_replay(prop, idx, v)
            out_lines.append("VIOLATION property=%s replay=%s%s  # failed obligation %s (%s)" % (
                prop, p, "" if has_input else " no-failing-input-found", v["obligation"], v["status"]))
            if not has_input:
                # the brief: line must END with the words no-failing-input-found
                out_lines[-1] = "VIOLATION property=%s replay=%s no-failing-input-found" % (prop, p)
                print("failed obligation %s (%s), no failing input found" % (v["obligation"], v["status"]))
        else:
            p = write_replay(prop, idx, v)
            print("bounded clause %s: %s | case=%s" % (v["clause"], v["msg"], v["case"][:500]))
            out_lines.append("VIOLATION property=%s replay=%s" % (prop, p))
    for l in out_lines:
        print(l)

    wall = time.time() - t0
    if not a.no_evidence and not a.clause and not a.only_bounded and not a.only_deductive:
        from .evidence import write_evidence
        try:
            write_evidence(prop, a.tier, seed, meta, ded, bounded, real, known_hit, checker_errors, wall)
        except Exception:
            checker_errors.append("evidence writer crashed:\n" + traceback.format_exc())
    if checker_errors and not real:
        for e in checker_errors[:5]:
            print("CHECKER-ERROR:", e[:3000], file=sys.stderr)
        return 3
    for e in checker_errors[:5]:
        print("CHECKER-ERROR:", e[:1500], file=sys.stderr)
    nob = len(ded["obligations"]) if ded else 0
    ndis = sum(1 for o in (ded["obligations"] if ded else []) if o["status"] == "discharged")
    nev = sum(r.get("evaluations", 0) for r in bounded)
    print("%s %s: obligations %d/%d discharged; bounded evaluations %d over %d clauses; violations %d; known findings %d; %.1fs"
          % (prop, a.tier, ndis, nob, nev, len(bounded), len(real), len(known_hit), wall))
    return 1 if real else 0


if __name__ == "__main__":
    sys.exit(main())
