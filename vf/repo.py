"""Access to the repository under verification: source text (always re-read from disk), hashing, import."""
import hashlib
import importlib
import os
import subprocess
import sys
import sysconfig
import tempfile
import shutil
import atexit

from . import REPO, VERIF

os.environ.setdefault("PYTHONDONTWRITEBYTECODE", "1")
sys.dont_write_bytecode = True


def src_path(rel):
    return os.path.join(REPO, rel)


def read(rel):
    with open(src_path(rel), encoding="utf-8") as f:
        return f.read()


def sha(rel):
    try:
        return hashlib.sha256(read(rel).encode()).hexdigest()[:16]
    except OSError:
        return "missing"


_C_SOURCES = ["qubovert/sim/_canneal.c", "qubovert/sim/src/pcg_basic.c", "qubovert/sim/src/random.c",
              "qubovert/sim/src/anneal_quso.c", "qubovert/sim/src/anneal_puso.c"]

_built = {}


def build_canneal(sanitize=False):
    """Compile the C extension from REPO's current sources into a private temp dir; returns the .so path.
    The directory is removed at interpreter exit."""
    key = bool(sanitize)
    if key in _built:
        return _built[key]
    base = os.path.join(VERIF, ".build")
    os.makedirs(base, exist_ok=True)
    d = tempfile.mkdtemp(prefix="canneal_", dir=base)
    atexit.register(shutil.rmtree, d, True)
    inc = sysconfig.get_paths()["include"]
    so = os.path.join(d, "_canneal" + sysconfig.get_config_var("EXT_SUFFIX"))
    cc = ["cc", "-O1", "-g", "-shared", "-fPIC", "-I" + inc, "-I" + src_path("qubovert/sim/src")]
    if sanitize:
        cc = ["clang", "-O1", "-g", "-shared", "-fPIC", "-fsanitize=address,undefined",
              "-fno-omit-frame-pointer", "-I" + inc, "-I" + src_path("qubovert/sim/src")]
    cmd = cc + [src_path(s) for s in _C_SOURCES] + ["-lm", "-o", so]
    r = subprocess.run(cmd, capture_output=True, text=True)
    if r.returncode != 0:
        raise RuntimeError("C build failed: " + r.stderr[-2000:])
    _built[key] = so
    return so


_imported = None


def import_qubovert(fresh_c=False):
    """Import qubovert from REPO (not from a stale install). With fresh_c the C extension is rebuilt from
    the current .c files and injected as qubovert.sim._canneal before the package imports it."""
    global _imported
    if _imported is not None and (not fresh_c or _imported == "c"):
        return sys.modules["qubovert"]
    if REPO not in sys.path:
        sys.path.insert(0, REPO)
    if fresh_c:
        for m in [m for m in sys.modules if m == "qubovert" or m.startswith("qubovert.")]:
            del sys.modules[m]
        so = build_canneal()
        import importlib.util as ilu
        spec = ilu.spec_from_file_location("qubovert.sim._canneal", so)
        mod = ilu.module_from_spec(spec)
        spec.loader.exec_module(mod)
        sys.modules["qubovert.sim._canneal"] = mod
    qv = importlib.import_module("qubovert")
    got = os.path.dirname(os.path.dirname(os.path.abspath(qv.__file__)))
    if os.path.realpath(got) != os.path.realpath(REPO):
        raise RuntimeError("qubovert imported from %s, expected %s" % (got, REPO))
    _imported = "c" if fresh_c else "py"
    return qv
