"""Verification framework for jtiosue/qubovert (contract-based deductive verification + bounded stand-in)."""
import os

VERIF = os.path.dirname(os.path.dirname(os.path.abspath(__file__)))
REPO = os.environ.get("VERIF_REPO", "/repo")

PROPERTIES = ["C%02d" % i for i in range(1, 20)]
