"""Multiset model of list-of-results objects (AnnealResults) for C13.

An AnnealResult is an abstract id (Int) with rval(id): Real (its `value`) and req(a, b): Bool (field-wise ==).
A list is abstracted to the multiset of its elements: cnt: Id -> Int, length, and the lazily evaluated min-fold
lmin (minimum of rval over the elements). Order-dependent claims (sort order, slice contents) are not expressible
here and stay with the bounded stand-in."""
import z3

from . import theory as T
from .values import SV, Unsupported, VerifBug

rval = z3.Function("rval", T.Int, T.Real)
req = z3.Function("req", T.Int, T.Int, T.Bool)

CntSort = z3.ArraySort(T.Int, T.Int)


class OptRid:
    """None or a result id"""

    def __init__(self, isnone, rid):
        self.isnone, self.rid = isnone, rid

    def __repr__(self):
        return "OptRid(%s, %s)" % (self.isnone, self.rid)


class LVer:
    _n = 0

    def __init__(self, cnt, length, kind, parent=None, elem=None, other=None):
        self.cnt, self.length, self.kind, self.parent, self.elem, self.other = cnt, length, kind, parent, elem, other
        self.cache = {}
        LVer._n += 1
        self.n = LVer._n


class LHolder:
    def __init__(self, ver):
        self.ver = ver


class ResIter:
    """an abstract finite iterable of results about which nothing else is known"""


def state(eng):
    st = getattr(eng, "_lists", None)
    if st is None:
        st = eng._lists = {"rids": [], "minvers": [], "concats": []}
    return st


def new_rid(eng, hint="r", value=None):
    eng.nfresh += 1
    e = z3.Int("%s!%d" % (hint, eng.nfresh))
    register_rid(eng, e)
    if value is not None:
        eng.facts.add(rval(e) == value)
    return SV(e, "rid")


def register_rid(eng, e):
    st = state(eng)
    if any(e.eq(x) for x in st["rids"]):
        return
    st["rids"].append(e)
    eng.facts.add(req(e, e))
    for x in st["rids"][:-1]:
        eng.facts.add(req(e, x) == req(x, e))
        eng.facts.add(z3.Implies(req(e, x), rval(e) == rval(x)))
    for ver in st["minvers"]:
        _member_fact(eng, ver, e)
    for ver in st["concats"]:
        eng.facts.add(z3.Select(ver.cnt, e) == z3.Select(ver.parent.cnt, e) + z3.Select(ver.other.cnt, e))


def empty(eng):
    return LVer(z3.K(T.Int, z3.IntVal(0)), z3.IntVal(0), "empty")


def base(eng, hint="l"):
    eng.nfresh += 1
    cnt = z3.Const("%s_cnt!%d" % (hint, eng.nfresh), CntSort)
    ln = z3.Int("%s_len!%d" % (hint, eng.nfresh))
    eng.facts.add(ln >= 0)
    v = LVer(cnt, ln, "base")
    return v


def _cntfacts(eng, ver):
    for e in state(eng)["rids"]:
        c = z3.Select(ver.cnt, e)
        eng.facts.add(c >= 0)
        eng.facts.add(c <= ver.length)


def append(eng, ver, r):
    c = z3.Select(ver.cnt, r)
    return LVer(z3.Store(ver.cnt, r, c + 1), ver.length + 1, "append", parent=ver, elem=r)


def remove_one(eng, ver, e):
    c = z3.Select(ver.cnt, e)
    return LVer(z3.Store(ver.cnt, e, c - 1), ver.length - 1, "remove", parent=ver, elem=e)


def concat(eng, a, b):
    eng.nfresh += 1
    cnt = z3.Const("cat_cnt!%d" % eng.nfresh, CntSort)
    v = LVer(cnt, a.length + b.length, "concat", parent=a, other=b)
    st = state(eng)
    st["concats"].append(v)
    for e in st["rids"]:
        eng.facts.add(z3.Select(cnt, e) == z3.Select(a.cnt, e) + z3.Select(b.cnt, e))
    return v


def _member_fact(eng, ver, e):
    m = ver.cache.get("lmin")
    if m is not None:
        c = z3.Select(ver.cnt, e)
        eng.facts.add(c >= 0)
        eng.facts.add(z3.Implies(c >= 1, z3.And(m <= rval(e), ver.length >= 1)))


def lmin(eng, ver):
    """minimum of rval over the elements (meaningful when length > 0)"""
    if "lmin" in ver.cache:
        return ver.cache["lmin"]
    st = state(eng)
    eng.nfresh += 1
    if ver.kind == "empty":
        m = z3.Real("lmin_empty!%d" % eng.nfresh)
    elif ver.kind == "append":
        p = lmin(eng, ver.parent)
        rv = rval(ver.elem)
        m = z3.If(ver.parent.length == 0, rv, z3.If(p <= rv, p, rv))
    elif ver.kind == "concat":
        a, b = lmin(eng, ver.parent), lmin(eng, ver.other)
        m = z3.If(ver.parent.length == 0, b, z3.If(ver.other.length == 0, a, z3.If(a <= b, a, b)))
    else:      # base, remove
        m = z3.Real("lmin_%d!%d" % (ver.n, eng.nfresh))
        w = z3.Int("argmin_%d!%d" % (ver.n, eng.nfresh))
        ver.cache["lmin"] = m
        register_rid(eng, w)
        eng.facts.add(z3.Implies(ver.length >= 1, z3.And(z3.Select(ver.cnt, w) >= 1, rval(w) == m)))
        if ver.kind == "remove":
            p = lmin(eng, ver.parent)
            eng.facts.add(z3.Implies(ver.length >= 1, m >= p))
    ver.cache["lmin"] = m
    st["minvers"].append(ver)
    for e in st["rids"]:
        _member_fact(eng, ver, e)
    return m
