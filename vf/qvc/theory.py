"""Specification theory of qvc: z3 sorts, spec functions and the (quantifier-free) lemma instances the
engine adds whenever it creates a term. Every lemma family used here is listed in LEMMAS with its status.

Labels are Int; keys (tuples of labels) are Seq(Int); coefficients are Real.
One arbitrary *ghost assignment* is fixed per verification run: xval(i) in {0,1} (boolean), and the
corresponding spin assignment is zval(i) := 1 - 2*xval(i) (the fixed correspondence 0<->1, 1<->-1).
Proving a postcondition for this one arbitrary assignment proves it for all assignments.
"""
import z3

from .values import Unsupported

Label = z3.IntSort()
Key = z3.SeqSort(z3.IntSort())
Real = z3.RealSort()
Int = z3.IntSort()
Bool = z3.BoolSort()

xval = z3.Function("xval", Label, Real)           # ghost boolean assignment
ISANC = z3.Function("isanc", Label, Bool)         # the label is an ancilla name '__a<n>'
ANCIDX = z3.Function("ancidx", Label, Int)        # ... and n is its number
KEYANC = z3.Function("keyanc", Key, Int)          # 1 + the largest ancilla number among the labels of the key, 0 if none
INTP = z3.Function("intp", Real, Bool)           # "is an integer", as an abstract predicate (see Facts.intp)
xint = z3.Function("xint", Label, Int)            # the same value as an integer (xval(i) == ToReal(xint(i)))
bmono = z3.Function("bmono", Key, Real)            # product of xval over the key (with repetitions)
smono = z3.Function("smono", Key, Real)            # product of zval over the key (with repetitions)
bsq = z3.Function("bsq", Key, Key)                 # tuple(sorted(set(key), key=ordering_key))
ssq = z3.Function("ssq", Key, Key)                 # tuple(sorted(odd-multiplicity members of key))
memb = z3.Function("memb", Label, Key, Bool)       # i in key
cnt = z3.Function("cnt", Key, Label, Int)          # key.count(i)
negcount = z3.Function("negcount", Key, Int)       # number of members (with repetition) whose zval is -1
lt = z3.Function("ordlt", Label, Label, Bool)      # the abstract total order standing for ordering_key
aval = z3.Function("aval", Label, Real)
anc = z3.Function("anc", Int, Label)               # the label '__a<n>' (constraint ancilla names)
pow2 = z3.Function("pow2", Int, Int)              # 2 ** i
slack = z3.Function("slack", Int, Int, Bool, Int)   # slack(a0, n, log): sum_{i<n} w_i * xval(anc(a0+i)),  w_i = 2^i (log) or 1
# second ghost assignment (over the integer labels of an enumerated model): a(i) in {0,1}, spin form 1 - 2 a(i)
aint = z3.Function("aint", Label, Int)
amono = z3.Function("amono", Key, Real)
asmono = z3.Function("asmono", Key, Real)
relab = z3.Function("relab", Key, z3.ArraySort(Label, Int), Key)   # tuple(mapping[i] for i in key)
srt = z3.Function("srt", Key, Key)                                  # tuple(sorted(key)) for integer labels
nonnegvals = z3.Function("nonnegvals", z3.ArraySort(Label, Bool), z3.ArraySort(Label, Int), Bool)   # mapping values are ints >= 0
linked = z3.Function("linked", z3.ArraySort(Label, Bool), z3.ArraySort(Label, Int), Bool)   # x == a o mapping on dom
rlinked = z3.Function("rlinked", z3.ArraySort(Label, Bool), z3.ArraySort(Label, Int), Bool)  # a == x o mapping on dom
LSet_ = z3.ArraySort(Label, Bool)
fout = z3.Function("fout", Key, LSet_, Key)       # subsequence of the members of a key that are NOT in the set
fin = z3.Function("fin", Key, LSet_, Key)         # subsequence of the members that are in the set
vprod = z3.Function("vprod", Key, z3.ArraySort(Label, Bool), z3.ArraySort(Label, Real), Real)   # prod of d.get(i, 0)
vlinked = z3.Function("vlinked", Bool, LSet_, z3.ArraySort(Label, Bool), z3.ArraySort(Label, Real), Bool)
LSet = z3.ArraySort(Label, Bool)                  # a set of labels as a characteristic array
memset = z3.Function("memset", Key, LSet)         # the set of members of a key
CARD = z3.Function("CARD", LSet, Int)             # cardinality of a finite label set
matvalid = z3.Function("matvalid", Key, Bool)    # every member is a non-negative int (Matrix types' key validity)            # a second ghost assignment ("values"/"connections" maps)

LEMMAS = {
    "L1-mono-def": "bmono/smono of empty, unit, concatenation (definition of a product over a list)",
    "L2-range": "boolean values => product in {0,1}; spin values => product in {1,-1}; product != 0 iff all members != 0",
    "L2'-negcount": "spin values => product == (-1)^(number of -1 members)",
    "L3-bool-idempotent": "bmono(sorted(set(k))) == bmono(k) for x in {0,1}",
    "L4-spin-parity": "smono(sorted(odd-multiplicity members of k)) == smono(k) for z in {1,-1}",
    "L5-fold-update": "finite-sum update law: sum over d[k:=c] == sum over d - old contribution + new contribution",
    "L6/L7-slack": "slack(a0,n,log) = sum of w_i*a_i over the n ancilla bits is an integer in [0, cap(n)], cap = 2^n - 1 (log) or n (unary); every integer in that range is attained by some setting of the bits (existence is used only at the meta level, see DESIGN 11.7)",
    "L8-num_bits": "num_bits(v, log_trick) = n with cap(n) >= v for v >= 0",
    "L9-relabel": "if x = a o m on dom(m) and every label of k is mapped then mono_a(relab(k, m)) == mono_x(k) (boolean and spin); relab keeps the length and maps positions pointwise",
    "L10-split": "product over a key = product over its members in S times product over its members outside S; a subsequence of a canonical key is canonical; if the assignment takes the values d.get(i,0) on the labels concerned, prod of those values is the monomial",
    "L11-enum": "a dict with exactly n items, n of whose items are pairwise distinct keys k_1..k_n, is the dict {k_1: d[k_1], .., k_n: d[k_n]} (a finite set of cardinality n that contains n distinct elements has no others)",
    "L12-count": "if every stored coefficient of d equals c then the boolean value of d is c times the number of its monomials that evaluate to 1, a natural number <= the number of terms",
    "L13-origin": "at the all-zero boolean assignment (all spins +1) a monomial is 1 if its key is empty and 0 otherwise (spin: always 1), so the boolean value of a model there is its constant term",
    "intp-closure": "the integers contain 0, 1, -1, 2 and every cast of an integer, are closed under + - * unary minus and if-then-else, and an integer real has an integer witness: the only facts about the abstract integrality predicate intp",
    "L17-removed-pair": "for a boolean assignment, the monomial of the sub-key made of all occurrences of two labels a, b of k is (x a if a occurs) * (x b if b occurs and b != a); hence mono(k) = mono(k without a, b) * x a * x b when both occur (the degree-reduction step replaces x a * x b by the ancilla's value)",
    "L14-keyanc": "keyanc(k) = max over the labels l of k of (ancidx(l)+1 if l is an ancilla name else 0): 0 for the empty key, the label's value for a unit key, max for a concatenation / head-and-tail, equal for the sorted duplicate-free key, not larger for the odd-multiplicity key; '__a%d' % n is an ancilla name with number n",
    "set-facts": "memset of empty/unit/concat; members(sorted(set k)) = members(k); members(ssq k) subset members(k); |S + {i}| = |S| + [i not in S]",
    "sq-shape": "sq(k) is duplicate-free, sorted, idempotent, no longer than k, members(sq k) subset members(k), identity on length <= 1",
}


def zval(i):
    return 1 - 2 * xval(i)


def unit(i):
    return z3.Unit(i)


def empty_key():
    return z3.Empty(Key)


def azval(i):
    return 1 - 2 * aval(i)


GHOSTS = {"x": (xval, xint, bmono, smono, zval), "a": (aval, aint, amono, asmono, azval)}


class Facts:
    """Collects lemma instances for the terms created during one symbolic execution."""

    def __init__(self):
        self.facts = []
        self._seen_keys = set()
        self._seen_labels = set()
        self.used = set()
        self.track_sets = False
        self._concats = []
        self._sqs = []
        self.ghosts = ["x"]
        self._labels, self._keys, self._units, self._tails = [], [], [], []

    def add(self, f):
        self.facts.append(f)

    # ---- integrality as an abstract predicate ------------------------------------------------------------------
    # z3 (and cvc5) are weak on is_int / to_int once if-then-else terms, arrays or sequences occur in the same query
    # (a goal like  is_int(a), b == -a  |-  is_int(b)  times out). Integrality is therefore the uninterpreted
    # predicate intp(t), constrained only by facts that are true of "t is an integer":
    #   intp(t) -> t == to_real(k_t)            (a witness, so that integrality can be *used* arithmetically)
    #   intp(numeral) <-> the numeral is whole;  intp(to_real(i));
    #   closure under + - * unary minus and if-then-else, instantiated on every such term that occurs as one side of
    #   an equation between reals in the path condition (congruence then transports intp across the equation).
    # Everything proved with these facts holds for the real predicate; what cannot be proved stays open.
    def intp(self, e):
        if not getattr(self, "intp_active", False):
            self.intp_active = True
            self.used.add("intp-closure")
            for c in (0, 1, -1, 2):
                self._intp_term(z3.RealVal(c), 0)      # x == 0 or x == 1  gives intp(x) by congruence
        return self._intp_term(e, 0)

    def _intp_term(self, e, depth):
        h = e.get_id()
        seen = self.__dict__.setdefault("_intp_seen", {})
        if h in seen:
            return seen[h]
        p = INTP(e)
        seen[h] = p
        if z3.is_rational_value(e) or z3.is_int_value(e):
            self.add(p == z3.BoolVal(e.denominator_as_long() == 1 if z3.is_rational_value(e) else True))
            return p
        if z3.is_app(e) and e.decl().kind() == z3.Z3_OP_TO_REAL:
            self.add(p)                    # the image of an integer term; it is its own witness
            return p
        self._nwit = getattr(self, "_nwit", 0) + 1
        k = z3.Int("intwit!%d" % self._nwit)
        self.add(z3.Implies(p, e == z3.ToReal(k)))
        if not z3.is_app(e):
            return p
        kind = e.decl().kind()
        if kind in (z3.Z3_OP_ADD, z3.Z3_OP_SUB, z3.Z3_OP_MUL, z3.Z3_OP_UMINUS) and depth < 10:
            kids = [self._intp_term(c, depth + 1) for c in e.children()]
            self.add(z3.Implies(z3.And(*kids), p))
        elif kind == z3.Z3_OP_ITE and depth < 10:
            a, b = e.arg(1), e.arg(2)
            self.add(z3.Implies(z3.And(self._intp_term(a, depth + 1), self._intp_term(b, depth + 1)), p))
        return p

    def intp_scan(self, formulas):
        """register the closure facts for both sides of every equation between reals in the formulas"""
        seen = self.__dict__.setdefault("_intp_scanned", set())
        stack = list(formulas)
        while stack:
            t = stack.pop()
            h = t.get_id()
            if h in seen or not z3.is_app(t):
                continue
            seen.add(h)
            if t.decl().kind() == z3.Z3_OP_EQ and t.arg(0).sort() == Real:
                for side in (t.arg(0), t.arg(1)):
                    if z3.is_app(side) and side.num_args() > 0:
                        self._intp_term(side, 0)
            if t.sort().kind() == z3.Z3_BOOL_SORT:
                stack.extend(t.children())

    def label(self, i):
        """register a label term"""
        h = i.get_id() if hasattr(i, "get_id") else hash(i)
        if h in self._seen_labels:
            return i
        self._seen_labels.add(h)
        self._labels.append(i)
        self.add(z3.Implies(ISANC(i), ANCIDX(i) >= 0))        # ancilla numbers are natural numbers
        for g in self.ghosts:
            self._label_facts(g, i)
        self.used.add("L2-range")
        return i

    def _label_facts(self, g, i):
        val, ival = GHOSTS[g][0], GHOSTS[g][1]
        xv = val(i)
        self.add(z3.Or(xv == 0, xv == 1))
        self.add(z3.And(xv == z3.ToReal(ival(i)), ival(i) >= 0, ival(i) <= 1))
        if g == "a" and getattr(self, "origin", False):
            self.add(xv == 0)          # the second ghost is the origin: every boolean variable 0 (every spin +1)

    def enable_origin(self):
        """make the second ghost assignment the origin (all boolean variables 0, i.e. all spins +1): the value of a
        model there is its constant term (boolean) / the sum of its coefficients (spin)"""
        if getattr(self, "a_role", None) == "relabel":
            raise Unsupported("second ghost assignment used both for relabelling and as the origin")
        self.a_role = "origin"
        if getattr(self, "origin", False):
            return
        self.origin = True
        if "a" in self.ghosts:
            for i in list(self._labels):
                self.add(GHOSTS["a"][0](i) == 0)
            for k in list(self._keys):
                self._origin_key(k)
        else:
            self.enable_ghost("a")
        self.used.add("L13-origin")

    def _origin_key(self, k):
        _, _, bmf, smf, _ = GHOSTS["a"]
        self.add(z3.And(bmf(k) == z3.If(z3.Length(k) == 0, z3.RealVal(1), z3.RealVal(0)), smf(k) == 1))

    def enable_ghost(self, g):
        """activate a second ghost assignment: all facts, retroactively and from now on"""
        if g in self.ghosts:
            return
        self.ghosts.append(g)
        for i in list(self._labels):
            self._label_facts(g, i)
        for k in list(self._keys):
            self._key_facts(g, k)
        for a, b, k in list(self._concats):
            self._concat_facts(g, a, b, k)
        for i, k in list(self._units):
            self._unit_facts(g, i, k)
        for k, t in list(self._tails):
            self._tail_facts(g, k, t)
        for spin, k, r in list(self._sqs):
            self._sq_facts(g, spin, k, r)

    def key(self, k):
        """register a key term: range facts, small-length unfoldings"""
        h = k.get_id()
        if h in self._seen_keys:
            return k
        self._seen_keys.add(h)
        self._keys.append(k)
        n = z3.Length(k)
        k0, k1 = k[0], k[1]
        self.label(k0)
        self.label(k1)
        self.add(z3.Implies(n == 0, matvalid(k)))
        self.add(z3.Implies(n == 1, k == unit(k0)))
        self.add(z3.Implies(n == 2, z3.And(k == z3.Concat(unit(k0), unit(k1)),
                                           matvalid(k) == z3.And(matvalid(unit(k0)), matvalid(unit(k1))))))
        for g in self.ghosts:
            self._key_facts(g, k)
        if getattr(self, "track_anc", False):
            self._anc_key(k)
        self.used.update(["L1-mono-def", "L2-range"])
        return k

    def _key_facts(self, g, k):
        val, _, bmf, smf, zv = GHOSTS[g]
        n = z3.Length(k)
        bm, sm = bmf(k), smf(k)
        k0, k1 = k[0], k[1]
        self.add(z3.Or(bm == 0, bm == 1))
        self.add(z3.Or(sm == 1, sm == -1))
        self.add(z3.Implies(n == 0, z3.And(bm == 1, sm == 1)))
        self.add(z3.Implies(n == 1, z3.And(bm == val(k0), sm == zv(k0))))
        self.add(z3.Implies(n == 2, z3.And(bm == val(k0) * val(k1), sm == zv(k0) * zv(k1))))
        if g == "a" and getattr(self, "origin", False):
            self._origin_key(k)

    def concat(self, a, b):
        k = z3.Concat(a, b)
        self.key(a)
        self.key(b)
        self.key(k)
        for g in self.ghosts:
            self._concat_facts(g, a, b, k)
        self.add(matvalid(k) == z3.And(matvalid(a), matvalid(b)))
        self._concats.append((a, b, k))
        if getattr(self, "track_anc", False):
            self._anc_concat(a, b, k)
        if self.track_sets:
            self.memset_concat(a, b, k)
        return k

    def _concat_facts(self, g, a, b, k):
        _, _, bmf, smf, _ = GHOSTS[g]
        self.add(bmf(k) == bmf(a) * bmf(b))
        self.add(smf(k) == smf(a) * smf(b))

    def unit(self, i):
        self.label(i)
        k = unit(i)
        self.key(k)
        self._units.append((i, k))
        if getattr(self, "track_anc", False):
            self.add(KEYANC(k) == self._lanc(i))
        for g in self.ghosts:
            self._unit_facts(g, i, k)
        return k

    def _unit_facts(self, g, i, k):
        val, _, bmf, smf, zv = GHOSTS[g]
        self.add(bmf(k) == val(i))
        self.add(smf(k) == zv(i))

    def tail(self, k):
        """k[1:] for len(k) >= 1"""
        n = z3.Length(k)
        t = z3.SubSeq(k, 1, n - 1)
        self.key(k)
        self.key(t)
        self.label(k[0])
        self.add(z3.Implies(n >= 1, z3.And(k == z3.Concat(unit(k[0]), t), z3.Length(t) == n - 1,
                                           matvalid(k) == z3.And(matvalid(unit(k[0])), matvalid(t)))))
        self._tails.append((k, t))
        if getattr(self, "track_anc", False):
            self._anc_tail(k, t)
        for g in self.ghosts:
            self._tail_facts(g, k, t)
        return t

    def _tail_facts(self, g, k, t):
        val, _, bmf, smf, zv = GHOSTS[g]
        n = z3.Length(k)
        self.add(z3.Implies(n >= 1, z3.And(bmf(k) == val(k[0]) * bmf(t), smf(k) == zv(k[0]) * smf(t))))

    # ---- finite sets of labels (C14 bookkeeping): characteristic arrays, combinatory array logic
    _p, _q = z3.Bool("_p"), z3.Bool("_q")
    OR_DECL = z3.Or(_p, _q).decl()
    AND_DECL = z3.And(_p, _q).decl()
    IMP_DECL = z3.Implies(_p, _q).decl()

    def _sq_set_fact(self, spin, k, r):
        if spin:
            self.add(self.set_subset(self.memset_of(r), self.memset_of(k)))
        else:
            self.add(self.memset_of(r) == self.memset_of(k))       # sorted(set(k)) has the same members as k
        self.used.add("set-facts")

    # ---- ancilla numbers occurring in keys (freshness of constraint ancillas): keyanc(k), facts on the same key
    # shapes as the monomial facts; enabled on first use
    @staticmethod
    def _lanc(i):
        return z3.If(ISANC(i), ANCIDX(i) + 1, z3.IntVal(0))

    def enable_anc(self):
        if getattr(self, "track_anc", False):
            return
        self.track_anc = True
        self.used.add("L14-keyanc")
        for k in list(self._keys):
            self._anc_key(k)
        for a, b, k in list(self._concats):
            self._anc_concat(a, b, k)
        for i, k in list(self._units):
            self.add(KEYANC(k) == self._lanc(i))
        for k, t in list(self._tails):
            self._anc_tail(k, t)
        for spin, k, r in list(self._sqs):
            self._anc_sq(spin, k, r)

    def _anc_key(self, k):
        n = z3.Length(k)
        ka = KEYANC(k)
        a0, a1 = self._lanc(k[0]), self._lanc(k[1])
        self.add(z3.And(ka >= 0, z3.Implies(n == 0, ka == 0), z3.Implies(n == 1, ka == a0),
                        z3.Implies(n == 2, ka == z3.If(a0 >= a1, a0, a1))))

    def _anc_concat(self, a, b, k):
        x, y = KEYANC(a), KEYANC(b)
        self.add(KEYANC(k) == z3.If(x >= y, x, y))

    def _anc_tail(self, k, t):
        x, y = self._lanc(k[0]), KEYANC(t)
        self.add(z3.Implies(z3.Length(k) >= 1, KEYANC(k) == z3.If(x >= y, x, y)))

    def _anc_sq(self, spin, k, r):
        # the canonical key has the same members (boolean) / a subset of the members (spin)
        self.add(KEYANC(r) <= KEYANC(k) if spin else KEYANC(r) == KEYANC(k))

    def enable_sets(self):
        """from now on (and retroactively) relate memset to concatenation and canonicalisation"""
        if self.track_sets:
            return
        self.track_sets = True
        for a, b, k in list(self._concats):
            self.memset_concat(a, b, k)
        for spin, k, r in list(self._sqs):
            self._sq_set_fact(spin, k, r)

    def set_union(self, a, b):
        return z3.Map(self.OR_DECL, a, b)

    def set_inter(self, a, b):
        return z3.Map(self.AND_DECL, a, b)

    def set_subset(self, a, b):
        return z3.Map(self.IMP_DECL, a, b) == z3.K(Label, z3.BoolVal(True))

    def empty_set(self):
        return z3.K(Label, z3.BoolVal(False))

    def memset_of(self, k, spin_sq_of=None):
        """memset(k) with its defining facts for the shapes the engine knows about"""
        m = memset(k)
        h = ("ms", k.get_id())
        if h in self._seen_keys:
            return m
        self._seen_keys.add(h)
        n = z3.Length(k)
        self.add(z3.Implies(n == 0, m == self.empty_set()))
        self.add(z3.Implies(n == 1, m == z3.Store(self.empty_set(), k[0], z3.BoolVal(True))))
        self.add(z3.Implies(n == 2, m == z3.Store(z3.Store(self.empty_set(), k[0], z3.BoolVal(True)), k[1], z3.BoolVal(True))))
        return m

    def memset_concat(self, a, b, k):
        self.add(self.memset_of(k) == self.set_union(self.memset_of(a), self.memset_of(b)))

    def card_add(self, mem, i, card):
        """cardinality after adding label i to the set mem whose cardinality is card"""
        new = z3.Store(mem, i, z3.BoolVal(True))
        c2 = card + z3.If(z3.Select(mem, i), z3.IntVal(0), z3.IntVal(1))
        self.add(CARD(new) == c2)
        return new, c2

    def anc_label(self, n):
        """the label '__a%d' % n ; distinct numbers give distinct labels"""
        e = anc(n)
        self.label(e)
        # '__a%d' % n is an ancilla name with number n for n >= 0 (for a negative n the string is not of that form)
        self.add(z3.Implies(n >= 0, z3.And(ISANC(e), ANCIDX(e) == n)))
        if not hasattr(self, "_ancs"):
            self._ancs = []
        for m in self._ancs:
            self.add((anc(m) == e) == (m == n))
        self._ancs.append(n)
        return e

    def pow2_term(self, i):
        e = pow2(i)
        self.add(z3.Implies(i >= 0, e >= 1))
        self.add(z3.Implies(i == 0, e == 1))
        self.add(pow2(i + 1) == 2 * e)
        return e

    def slack_step(self, a0, i, log):
        """unfold slack(a0, i+1, log) = slack(a0, i, log) + w_i * xval(anc(a0+i)); bounds and integrality (L6/L7 side)"""
        lab = self.anc_label(a0 + i)
        w = z3.If(log, self.pow2_term(i), z3.IntVal(1))
        cur, nxt = slack(a0, i, log), slack(a0, i + 1, log)
        xv = xval(lab)
        self.add(nxt == cur + z3.If(xv == 1, w, z3.IntVal(0)))     # xval(lab) in {0, 1}
        self.add(slack(a0, z3.IntVal(0), log) == 0)
        return nxt

    def _sq_facts(self, g, spin, k, r):
        _, _, bmf, smf, _ = GHOSTS[g]
        if spin:
            self.add(smf(r) == smf(k))
        else:
            self.add(bmf(r) == bmf(k))

    # ---- relabelling through a mapping (C04): tuple(mapping[i] for i in key), optionally sorted
    def relabel(self, k, mdom, mval):
        """relab(k, m) for a key all of whose labels are mapped; lemma L9 links the two ghosts"""
        self.enable_ghost("a")
        self.enable_sets()
        self.key(k)
        r = relab(k, mval)
        self.key(r)
        ok = self.set_subset(self.memset_of(k), mdom)
        lk = linked(mdom, mval)
        n = z3.Length(k)
        self.add(z3.Length(r) == n)
        self.add(z3.Implies(z3.And(ok, lk), z3.And(amono(r) == bmono(k), asmono(r) == smono(k))))
        # the same lemma (L9) with the roles of the two ghost assignments exchanged
        self.add(z3.Implies(z3.And(ok, rlinked(mdom, mval)), z3.And(bmono(r) == amono(k), smono(r) == asmono(k))))
        self.add(z3.Implies(z3.And(ok, nonnegvals(mdom, mval)), matvalid(r)))
        self.add(z3.Implies(z3.And(n >= 1), r[0] == z3.Select(mval, k[0])))
        self.add(z3.Implies(z3.And(n >= 2), r[1] == z3.Select(mval, k[1])))
        self.used.add("L9-relabel")
        return r, ok

    # ---- splitting a key by membership in a set (C18: subvalue / subgraph)
    def split(self, k, S):
        """(fout(k,S), fin(k,S)) with lemma L10: the product over k is the product over its two complementary
        subsequences; a subsequence of a canonical key is canonical; members are partitioned by S"""
        self.enable_sets()
        self.key(k)
        fo, fi = fout(k, S), fin(k, S)
        h = ("split", k.get_id(), S.get_id())
        if h in self._seen_keys:
            return fo, fi
        self._seen_keys.add(h)
        self.key(fo)
        self.key(fi)
        for g in self.ghosts:
            _, _, bmf, smf, _ = GHOSTS[g]
            self.add(z3.And(bmf(k) == bmf(fo) * bmf(fi), smf(k) == smf(fo) * smf(fi)))
        self.add(z3.Length(fo) + z3.Length(fi) == z3.Length(k))
        notS = z3.Map(z3.Not(self._p).decl(), S)
        self.add(self.memset_of(fo) == self.set_inter(self.memset_of(k), notS))
        self.add(self.memset_of(fi) == self.set_inter(self.memset_of(k), S))
        self.add(z3.Implies(bsq(k) == k, z3.And(bsq(fo) == fo, bsq(fi) == fi)))
        self.add(z3.Implies(ssq(k) == k, z3.And(ssq(fo) == fo, ssq(fi) == fi)))
        self.add(z3.Implies(matvalid(k), z3.And(matvalid(fo), matvalid(fi))))
        self._sqs.append((False, fo, fo))      # so that later set facts know these keys
        self.used.add("L10-split")
        # splitting distributes over concatenation; a one-element key goes to one side
        n = z3.Length(k)
        self.add(z3.Implies(n == 0, z3.And(fo == k, fi == k)))
        self.add(z3.Implies(n == 1, z3.If(z3.Select(S, k[0]), z3.And(fi == k, z3.Length(fo) == 0),
                                          z3.And(fo == k, z3.Length(fi) == 0))))
        for (a, b, kk) in list(self._concats):
            if kk.eq(k):
                fa, ia = self.split(a, S)
                fb, ib = self.split(b, S)
                self.add(z3.And(fo == self.concat(fa, fb), fi == self.concat(ia, ib)))
        return fo, fi

    def value_product(self, kpart, spin, Sinside, S, vdom, vval):
        """np.prod([d.get(i, 0) or d[i] for i in kpart]); under the link (the ghost assignment takes the values of d on
        the labels concerned) it is the monomial of kpart"""
        p = vprod(kpart, vdom, vval)
        lk = vlinked(z3.BoolVal(spin), S if Sinside else z3.Map(z3.Not(self._p).decl(), S), vdom, vval)
        self.add(z3.Implies(lk, p == (smono(kpart) if spin else bmono(kpart))))
        self.add(z3.Implies(z3.Length(kpart) == 0, p == 1))
        self.used.add("L10-split")
        return p, lk

    def sorted_key(self, k):
        """tuple(sorted(k)) for integer labels: a permutation"""
        self.key(k)
        r = srt(k)
        self.key(r)
        self.add(z3.Length(r) == z3.Length(k))
        for g in self.ghosts:
            _, _, bmf, smf, _ = GHOSTS[g]
            self.add(z3.And(bmf(r) == bmf(k), smf(r) == smf(k)))
        self.add(matvalid(r) == matvalid(k))
        self.add(srt(r) == r)
        self.add(z3.Implies(z3.Length(k) <= 1, r == k))
        if self.track_sets:
            self.add(self.memset_of(r) == self.memset_of(k))
        self.used.add("L1-mono-def")
        return r

    def sq(self, spin, k):
        """the canonical key of k (boolean: sorted set; spin: sorted odd-multiplicity members)"""
        self.key(k)
        r = ssq(k) if spin else bsq(k)
        self.key(r)
        f = ssq if spin else bsq
        for g in self.ghosts:
            self._sq_facts(g, spin, k, r)
        self.used.add("L4-spin-parity" if spin else "L3-bool-idempotent")
        self.add(f(r) == r)
        self.add(z3.Length(r) <= z3.Length(k))
        self.add(z3.Implies(z3.Length(k) <= 1, r == k))
        self.add(z3.Implies(matvalid(k), matvalid(r)))
        self._sqs.append((spin, k, r))
        if getattr(self, "track_anc", False):
            self._anc_sq(spin, k, r)
        if self.track_sets:
            self._sq_set_fact(spin, k, r)
        self.used.add("sq-shape")
        return r
