"""qvc: verification-condition generator over the real Python source of /repo (see DESIGN.md §2)."""
