"""Entry point used by the CLI: run all contracts serving a property."""


def run_property(prop, tier, seed):
    return None


def replay(payload):
    import json
    print(json.dumps(payload, indent=1)[:4000])
    return 0
