"""Entry point used by the CLI: run all contracts serving a property, merge per-path results per obligation."""
import concurrent.futures as cf
import json
import multiprocessing as mp
import os
import re
import time
import traceback

from .. import VERIF, REPO

LOCK = os.path.join(VERIF, "obligations.lock")


def _work(args):
    qn, idx = args[0], args[1]
    try:
        from .source import SourceDB
        from . import contracts as C
        db = SourceDB()
        reg = C.load_contracts()
        c = reg[qn]
        if len(args) == 2 and c.budget.get("parallel"):
            # first part of a function with many paths: explore until enough subtrees are pending, hand them back
            r = C.verify_instance(db, reg, c, idx, split_at=c.budget["parallel"], tag="a")
        elif len(args) > 2:
            r = C.verify_instance(db, reg, c, idx, start=args[2], tag=args[3], split_at=c.budget.get("parallel"))
        else:
            r = C.verify_instance(db, reg, c, idx)
        r["sha"] = db.func_source_sha(c.module, c.funcpath)
        r["file"] = db.modules.get(c.module, {}).get("rel")
        r["file_sha"] = db.modules.get(c.module, {}).get("sha")
        return r
    except Exception:
        return {"qualname": qn, "instance": idx, "status": "crash", "unsupported": traceback.format_exc(),
                "obligations": [], "paths": 0, "inlined": [], "used_contracts": [], "lemmas": []}


def inst_tag(inst):
    return ",".join("%s=%s" % (k, v.replace("model:", "")) for k, v in sorted(inst.items())) if isinstance(inst, dict) else str(inst)


def load_lock():
    if not os.path.exists(LOCK):
        return None
    return set(l.strip() for l in open(LOCK) if l.strip() and not l.startswith("#"))


def run_all(selector, tier="quick", only=None):
    """selector(contract) -> bool. Returns merged results.  only=(qualname, index): that one instance."""
    from . import contracts as C
    reg = C.load_contracts()
    jobs = []
    for qn, c in reg.items():
        if c.trusted or not selector(c):
            continue
        for i in range(len(c.instances)):
            if only is not None and (qn, i) != only:
                continue
            if tier == "quick" and c.quick_instances is not None and i not in c.quick_instances:
                continue        # expensive functions: a representative subset on every change, all in the thorough tier
            jobs.append((qn, i))
    # long single instances first, so that they overlap with the many short ones
    heavy = ("_special_constraints_le_zero", "add_constraint_ne_zero", "add_constraint_le_zero", ".normalize",
             "_solve_bruteforce", "_special_constraints_eq_zero", "add_constraint_ge_zero", "add_constraint_lt_zero")
    jobs.sort(key=lambda j: min([i for i, h in enumerate(heavy) if h in j[0]] or [len(heavy)]))
    results = []
    if jobs:
        ctx = mp.get_context("fork")
        par = any(reg[j[0]].budget.get("parallel") for j in jobs)
        with cf.ProcessPoolExecutor(max_workers=16 if par else min(16, len(jobs)), mp_context=ctx) as ex:
            results = list(ex.map(_work, jobs))
            # functions with many paths: the subtrees handed back by the first part are explored in parallel,
            # round after round, and their obligations are merged into the result of the instance
            rnd = 0
            while True:
                rnd += 1
                more = []
                for ri, r in enumerate(results):
                    for pi, prefix in enumerate(r.pop("pending", None) or []):
                        more.append((ri, (jobs[ri][0], jobs[ri][1], [prefix], "r%d_%d" % (rnd, pi))))
                if not more:
                    break
                if os.environ.get("QVC_ROUNDS"):
                    print("round", rnd, "parts", len(more), flush=True)
                parts = list(ex.map(_work, [m[1] for m in more]))
                for (ri, _), part in zip(more, parts):
                    tgt = results[ri]
                    tgt["obligations"] = tgt["obligations"] + part.get("obligations", [])
                    tgt["paths"] = tgt.get("paths", 0) + part.get("paths", 0)
                    for k in ("inlined", "used_contracts", "lemmas"):
                        tgt[k] = sorted(set(tgt.get(k, [])) | set(part.get(k, [])))
                    for k in ("solver_time", "solver_calls", "vacuity", "wall_s"):
                        tgt[k] = (tgt.get(k) or 0) + (part.get(k) or 0)
                    if part.get("status") != "ok" and tgt.get("status") == "ok":
                        tgt["status"], tgt["unsupported"] = part.get("status"), part.get("unsupported")
                    if part.get("pending"):
                        tgt.setdefault("pending", []).extend(part["pending"])
    return reg, results


_LEAN_FAMILIES = {"L1-mono-def", "L2-range", "L2'-negcount", "L3-bool-idempotent", "L4-spin-parity", "L5-fold-update", "sq-shape",
                  "L6/L7-slack", "L8-num_bits", "L9-relabel", "L10-split", "set-facts",
                  "L11-enum", "L12-count", "L13-origin", "intp-closure", "L14-keyanc", "L17-removed-pair"}


def lean_status():
    """'lean-checked' when the committed stamp lemmas/.checked.json matches the sha256 of lemmas/QvcLemmas.lean
    (the stamp is written by lemmas/check.sh, which runs `lean` and audits the axioms); re-run by the thorough tier."""
    import hashlib
    try:
        st = json.load(open(os.path.join(VERIF, "lemmas", ".checked.json")))
        sha = hashlib.sha256(open(os.path.join(VERIF, "lemmas", "QvcLemmas.lean"), "rb").read()).hexdigest()
        return "lean-checked (Lean 4 + Mathlib, %d theorems, stamp sha matches)" % len(st.get("theorems", [])) if st.get("sha256") == sha else "assumed (stamp does not match lemmas/QvcLemmas.lean)"
    except Exception:
        return "assumed (no Lean stamp)"


def merge(prop, reg, results):
    lock = load_lock()
    obligations = {}
    functions = {}
    left_reach = []
    errors = []
    lemmas = {}
    files_sha = {}
    canaries_total = canaries_ok = vac = 0
    trusted = []
    from .theory import LEMMAS
    for r in results:
        qn = r["qualname"]
        c = reg[qn]
        tag = inst_tag(r["instance"]) if isinstance(r["instance"], dict) else str(r["instance"])
        fkey = "%s[%s]" % (qn, tag)
        if r.get("file"):
            files_sha[r["file"]] = r.get("file_sha")
        if r["status"] == "crash":
            errors.append("qvc crashed on %s:\n%s" % (fkey, r["unsupported"]))
            continue
        if r["status"] in ("unsupported", "missing"):
            left_reach.append({"function": fkey, "reason": r["unsupported"]})
            functions[fkey] = {"status": "left_reach", "reason": r["unsupported"], "sha": r.get("sha")}
            continue
        functions[fkey] = {"status": "proved?", "sha": r.get("sha"), "paths": r["paths"],
                           "inlined_callees": r["inlined"], "callee_contracts_used": r["used_contracts"]}
        vac += r.get("vacuity", 0)
        for l in r["lemmas"]:
            lemmas[l] = {"statement": LEMMAS.get(l, ""),
                         "status": lean_status() if l in _LEAN_FAMILIES else "assumed (mathematics, not proved here)"}
        for o in r["obligations"]:
            base = re.sub(r"#p\w+$", "", o["name"])
            name = "%s/%s[%s]" % (prop, base, tag)
            cur = obligations.get(name)
            if cur is None:
                cur = {"name": name, "status": "discharged", "time_s": 0.0, "backend": o.get("backend"), "paths": 0,
                       "function": fkey}
                obligations[name] = cur
            cur["paths"] += 1
            cur["time_s"] = round(cur["time_s"] + o.get("time_s", 0.0), 4)
            if o["status"] != "discharged":
                order = {"discharged": 0, "open": 1, "refuted": 2}
                if order[o["status"]] > order[cur["status"]]:
                    cur["status"] = o["status"]
                    cur["detail"] = o.get("detail")
                    cur["model"] = o.get("model")
                    cur["smt2"] = o.get("smt2")
                    cur["note"] = o.get("note")
            if o.get("second_backend"):
                cur.setdefault("second", []).append(o["second_backend"])
                if o["second_backend"].endswith(": sat"):
                    errors.append("back ends disagree on %s: %s" % (name, o["second_backend"]))
            if o.get("canary") is not None:
                canaries_total += 1
                canaries_ok += 1 if o["canary"] else 0
    for fkey, f in functions.items():
        if f["status"] == "proved?":
            obs = [o for o in obligations.values() if o["function"] == fkey]
            f["obligations"] = len(obs)
            f["status"] = "proved" if obs and all(o["status"] == "discharged" for o in obs) else "not proved"
            if not obs:
                errors.append("zero obligations generated for %s" % fkey)
    obl = sorted(obligations.values(), key=lambda o: o["name"])
    for o in obl:
        o["locked"] = (lock is None) or (o["name"] in lock)
    # locked obligations that disappeared because their function left reach are *not* alarms (DESIGN §3)
    for qn, c in reg.items():
        if c.trusted and prop in c.props:
            trusted.append("assumed contract (not verified by body): %s — %s" % (qn, c.note))
    return {"obligations": obl, "functions": functions, "left_reach": left_reach, "errors": errors,
            "lemmas": lemmas, "files_sha": files_sha, "canaries_total": canaries_total, "canaries_ok": canaries_ok,
            "vacuity_queries": vac, "assumptions": trusted,
            "trusted_base": ["lemma instances used (status in coverage.lemmas): " + ", ".join(sorted(lemmas))]}


C_PROPS = ("C17",)


def run_c(prop):
    """C front end (vf/qvc_c): memory-safety obligations of the annealing kernels, generated from clang's AST of the
    current .c files. Returns a record shaped like merge()'s."""
    from .. import qvc_c
    os.environ.setdefault("VERIF_REPO", REPO)
    r = qvc_c.run_all()
    lock = load_lock()
    obl = []
    for o in r["obligations"]:
        obl.append({"name": o["name"], "status": o["status"], "time_s": o.get("time_s", 0.0), "backend": o.get("backend"),
                    "paths": o.get("paths", 1), "function": "c:%s" % o["name"].split("/")[1][2:].rsplit(":", 1)[0],
                    "detail": o.get("detail"), "model": o.get("model"), "note": o.get("note"),
                    "what": "%s:%s `%s`: %s" % (o["name"].split("/")[1], o.get("line"), o.get("src"), o.get("what")),
                    "locked": (lock is None) or (o["name"] in lock)})
    functions = {}
    for fkey, f in r["functions"].items():
        functions["c:" + fkey] = dict(f)
    errors = list(r["errors"])
    lem = {"C-" + k: {"statement": v, "status": "proved by induction, its VCs are discharged on every run (theory:psum_bounds)"}
           for k, v in r.get("lemmas", {}).items()}
    return {"obligations": obl, "functions": functions,
            "left_reach": [{"function": "c:" + x["function"], "reason": x["reason"]} for x in r["left_reach"]],
            "errors": errors, "lemmas": lem, "files_sha": {"qubovert/sim/src/" + k: v for k, v in r["files_sha"].items()},
            "canaries_total": sum((f.get("canaries") or {}).get("points", 0) for f in r["functions"].values() if isinstance(f.get("canaries"), dict)),
            "canaries_ok": sum((f.get("canaries") or {}).get("sat", 0) for f in r["functions"].values() if isinstance(f.get("canaries"), dict)),
            "vacuity_queries": sum((f.get("canaries") or {}).get("points", 0) for f in r["functions"].values() if isinstance(f.get("canaries"), dict)),
            "assumptions": ["C kernels: " + a for a in r["assumptions"]],
            "trusted_base": ["C front end: " + t for t in r["trusted_base"]],
            "c_entry_preconditions": r.get("entry_preconditions"), "c_header_policy": r.get("header_policy"),
            "c_probes": r.get("probes")}


def _join(a, b):
    if a is None:
        return b
    if b is None:
        return a
    out = dict(a)
    for k in ("obligations", "left_reach", "errors", "assumptions", "trusted_base"):
        out[k] = list(a.get(k, [])) + list(b.get(k, []))
    for k in ("functions", "lemmas", "files_sha"):
        out[k] = dict(a.get(k, {}), **b.get(k, {}))
    for k in ("canaries_total", "canaries_ok", "vacuity_queries"):
        out[k] = a.get(k, 0) + b.get(k, 0)
    for k, v in b.items():
        out.setdefault(k, v)
    return out


def _undecided(r):
    """an instance whose verdict may be an artefact of load: an obligation left open (`unknown` / timeout, never a
    counter-model), or the path / time budget exceeded"""
    if r.get("status") == "unsupported" and "budget exceeded" in (r.get("unsupported") or ""):
        return True
    return any(o["status"] == "open" for o in r.get("obligations", []))


def run_property(prop, tier, seed):
    if tier == "thorough":
        os.environ["QVC_CROSSCHECK"] = "1"
    reg, results = run_all(lambda c: prop in c.props, tier)
    # second, patient attempt for undecided instances: one after the other (the whole machine for each), budgets x4.
    # `unknown` is not a verdict (DESIGN 3): only what is still open after this is reported.
    retry = [i for i, r in enumerate(results) if _undecided(r)]
    if retry and len(retry) <= 3:      # isolated cases only: a genuine breakage leaves many instances open at once
        os.environ["QVC_PATIENT"] = "1"
        try:
            for i in retry:
                qn, inst = results[i]["qualname"], results[i]["instance"]
                idx = reg[qn].instances.index(inst) if isinstance(inst, dict) else inst
                reg2, again = run_all(lambda c, qn=qn: c.qualname == qn, "thorough", only=(qn, idx))
                if again and not _undecided(again[0]) or (again and sum(o["status"] != "discharged" for o in again[0]["obligations"]) <
                                                          sum(o["status"] != "discharged" for o in results[i]["obligations"])):
                    again[0]["retried"] = True
                    results[i] = again[0]
        finally:
            os.environ.pop("QVC_PATIENT", None)
    cres = run_c(prop) if prop in C_PROPS else None
    if not results and cres is None:
        return None
    m = _join(merge(prop, reg, results) if results else None, cres)
    if tier == "thorough":
        agree = sum(1 for o in m["obligations"] for s2 in o.get("second", []) if s2.endswith(": unsat"))
        other = sum(1 for o in m["obligations"] for s2 in o.get("second", []) if not s2.endswith(": unsat"))
        m["second_backend"] = {"agree_unsat": agree, "no_answer_or_error": other}
        # re-run Lean on the lemma library
        import subprocess
        try:
            r = subprocess.run(["bash", os.path.join(VERIF, "lemmas", "check.sh")], capture_output=True, text=True, timeout=1500)
            m["lean_recheck"] = "ok" if r.returncode == 0 else "FAILED: " + (r.stdout + r.stderr)[-400:]
        except Exception as e:
            m["lean_recheck"] = "not run: %s" % e
    return m


def relock():
    from .. import PROPERTIES
    names = set()
    sigfile = os.path.join(VERIF, "contracts", "loopsigs.json")
    if os.path.exists(sigfile):
        os.remove(sigfile)
    reg, results = run_all(lambda c: True, "thorough")      # every contract instance verified once
    sigs = {}
    for r in results:
        for qn, d in (r.get("loopsigs") or {}).items():
            sigs.setdefault(qn, {}).update(d)
    json.dump(sigs, open(sigfile, "w"), indent=1, sort_keys=True)
    for prop in PROPERTIES:
        sub = [r for r in results if prop in reg[r["qualname"]].props]
        if not sub:
            continue
        r = merge(prop, reg, sub)
        for o in r["obligations"]:
            if o["status"] == "discharged":
                names.add(o["name"])
    for prop in C_PROPS:
        for o in run_c(prop)["obligations"]:
            if o["status"] == "discharged":
                names.add(o["name"])
    with open(LOCK, "w") as f:
        f.write("# obligations discharged on the unchanged (or repaired) tree; written only by `./check --relock`\n")
        for n in sorted(names):
            f.write(n + "\n")
    return len(names)


def replay(payload):
    print("obligation:", payload.get("obligation"), "status at report time:", payload.get("status"))
    print("solver output:", payload.get("solver_output"))
    if payload.get("model"):
        print("counter-model (verifier):", json.dumps(payload["model"], indent=1)[:2000])
    smt2 = payload.get("smt2")
    if smt2:
        import z3
        s = z3.Solver()
        s.set("rlimit", 40_000_000)
        s.from_string(smt2)
        print("re-running stored query:", s.check(), "(unsat would mean discharged)")
    # re-verify on the current tree
    name = payload.get("obligation", "")
    m = re.match(r"^(C\d+)/", name)
    if m:
        r = run_property(m.group(1), "quick", 0)
        cur = [o for o in (r or {}).get("obligations", []) if o["name"] == name]
        print("status on the current tree:", cur[0]["status"] if cur else "obligation not generated")
        return 1 if cur and cur[0]["status"] != "discharged" else 0
    return 0
