"""Theory of exhaustive enumeration (C09: the brute-force solvers).

`itertools.product(domain, repeat=N)` is the *trusted* specification "every tuple of domain^N exactly once": the
tuples are the elements t of the uninterpreted sort Asg that satisfy INS(t, spin, N) (spin: the domain is (1, -1)
rather than (0, 1)).  The assignment built from a tuple, `{mapping[i]: v for i, v in enumerate(t)}`, is identified
with the tuple (one assignment per tuple; that distinct tuples give distinct assignments needs an injective mapping,
which is the C14 invariant and is not used here).  The caller's `valid` and `value` are abstract pure functions:
VALID(t) and VALUE(t, D) with D the *contents* of the model at the time of the call (so a write to D between two
calls changes the function, and equal contents give equal values by congruence).

Values:
  SV(t, 'asgtuple')    a tuple produced by the enumeration          SV(t, 'asg')   the assignment built from it
  SV(arr, 'asgset')    a set of tuples (ghost `visited` of the enumeration loop), Array(Asg -> Bool)
  SV(cnt, 'asglist')   a python list of assignments as a multiset, Array(Asg -> Int)
  Groups               the dict  {None: [], value: [assignments...]}  of the all_solutions bookkeeping
"""
import z3

from . import theory as T
from .values import SV, Unsupported, ListVal

Asg = z3.DeclareSort("Asg")
INS = z3.Function("bf_in_product", Asg, T.Bool, T.Int, T.Bool)
# the first argument identifies *which* function was passed (an arbitrary one for a parameter; a fixed number for a
# function of the repository named at a call site, so that passing qubo_value where pubo_value is meant is seen)
VALID = z3.Function("bf_valid", T.Int, Asg, T.Bool)
VALUE = z3.Function("bf_value", T.Int, Asg, z3.ArraySort(T.Key, T.Bool), z3.ArraySort(T.Key, T.Real), T.Real)
SetSort = z3.ArraySort(Asg, T.Bool)
CntSort = z3.ArraySort(Asg, T.Int)
GrpSort = z3.ArraySort(T.Real, CntSort)


class AbstractFn:
    """the caller-supplied `valid` (kind 'valid') or `value` (kind 'value') function"""

    def __init__(self, kind, fid):
        self.kind, self.fid = kind, fid

    def __repr__(self):
        return "AbstractFn(%s, %s)" % (self.kind, self.fid)


def fid_of(qualname):
    import zlib
    return z3.IntVal(zlib.crc32(qualname.encode()) + 1)


def param_fn(eng, kind, hint):
    eng.nfresh += 1
    return AbstractFn(kind, z3.Int("%s_fn!%d" % (hint, eng.nfresh)))


def as_abstract(eng, v, kind):
    """a function of the repository passed as `valid` / `value`: an abstract pure function identified by its name.
    ASSUMED (listed in the evidence): the function has no side effect."""
    from .values import Closure, BoundMethod
    if isinstance(v, AbstractFn):
        return v if v.kind == kind else None
    if isinstance(v, Closure) and v.env is None and v.cls is None and kind == "value":
        return AbstractFn("value", fid_of(v.qualname()))
    if isinstance(v, BoundMethod) and v.func.name == "is_solution_valid" and kind == "valid":
        return _known_valid(eng, fid_of(v.func.qualname()), v.func.fdef)
    if isinstance(v, Closure) and v.fdef.name == "<lambda>" and kind == "valid" and _always_true(v.fdef):
        return _known_valid(eng, fid_of("<lambda x: True>"), v.fdef)
    return None


def _always_true(fd):
    """the function body is `return True` (after an optional docstring)"""
    import ast
    body = [st for st in fd.body if not (isinstance(st, ast.Expr) and isinstance(st.value, ast.Constant))]
    return (len(body) == 1 and isinstance(body[0], ast.Return) and isinstance(body[0].value, ast.Constant)
            and body[0].value.value is True)


def _known_valid(eng, fid, fd):
    if _always_true(fd):
        eng.nfresh += 1
        t = z3.Const("tq!%d" % eng.nfresh, Asg)
        eng.facts.add(z3.ForAll([t], VALID(fid, t)))
    return AbstractFn("valid", fid)


class Product:
    """itertools.product(domain, repeat=n)"""

    def __init__(self, spin, n):
        self.spin, self.n = spin, n

    def member(self, t):
        return INS(t, z3.BoolVal(bool(self.spin)) if isinstance(self.spin, bool) else self.spin, self.n)


class Groups:
    """{None: [...], v: [assignments with value v appended so far], ...}"""

    def __init__(self, has, cnt, none_list):
        self.has, self.cnt, self.none_list = has, cnt, none_list


class GroupRef:
    """the list all_sols[key] (a view: appending to it writes the Groups object)"""

    def __init__(self, groups, key):
        self.groups, self.key = groups, key


def new_groups(eng, none_list):
    return eng.alloc(Groups(z3.K(T.Real, z3.BoolVal(False)), z3.K(T.Real, z3.K(Asg, z3.IntVal(0))), none_list))


def havoc_groups(eng, g, hint):
    eng.nfresh += 1
    g.has = z3.Const("%s_has!%d" % (hint, eng.nfresh), z3.ArraySort(T.Real, T.Bool))
    g.cnt = z3.Const("%s_cnt!%d" % (hint, eng.nfresh), GrpSort)


def fresh_asg(eng, hint="t", kind="asg"):
    eng.nfresh += 1
    return SV(z3.Const("%s!%d" % (hint, eng.nfresh), Asg), kind)


def groups_method(eng, g, name, args):
    from .values import zreal
    if name == "setdefault":
        key, default = args
        if not (isinstance(default, ListVal) and not default.items):
            raise Unsupported("setdefault on the solutions table with a non-empty default")
        if key is None:
            return g.none_list
        k = zreal(key)
        if eng.frame_writes is not None:
            eng.frame_writes.add(id(g))
        had = z3.Select(g.has, k)
        g.cnt = z3.Store(g.cnt, k, z3.If(had, z3.Select(g.cnt, k), z3.K(Asg, z3.IntVal(0))))
        g.has = z3.Store(g.has, k, z3.BoolVal(True))
        return GroupRef(g, k)
    raise Unsupported("method %s of the solutions table" % name)


def groupref_method(eng, r, name, args):
    if name == "append":
        (x,) = args
        if not (isinstance(x, SV) and x.t == "asg"):
            raise Unsupported("appending a non-assignment to a solutions list")
        g = r.groups
        if eng.frame_writes is not None:
            eng.frame_writes.add(id(g))
        cur = z3.Select(g.cnt, r.key)
        g.cnt = z3.Store(g.cnt, r.key, z3.Store(cur, x.e, z3.Select(cur, x.e) + 1))
        return None
    raise Unsupported("method %s of a solutions list" % name)


def groups_getitem(eng, g, key):
    from .values import zreal, PyExc
    if key is None:
        return g.none_list
    k = zreal(key)
    if not eng.branch(z3.Select(g.has, k)):
        raise PyExc("KeyError", "value not in the solutions table")
    return SV(z3.Select(g.cnt, k), "asglist")


def call_abstract(eng, f, args):
    if f.kind == "valid":
        (x,) = args
        if not (isinstance(x, SV) and x.t == "asg"):
            raise Unsupported("valid() of a non-assignment")
        return SV(VALID(f.fid, x.e), "bool")
    x, D = args
    if not (isinstance(x, SV) and x.t == "asg"):
        raise Unsupported("value() of a non-assignment")
    ver = eng.store_of(D)
    if ver.ksort != T.Key or ver.vsort != T.Real:
        raise Unsupported("value() of a dict that is not a term dict")
    return SV(VALUE(f.fid, x.e, ver.dom, ver.val), "real")


# ------------------------------------------------------------------ recorded constraints (is_solution_valid)
# A recorded constraint is an abstract object id with CVAL(id) = its value at the ghost assignment (the `solution`
# argument of is_solution_valid is that assignment); a list of constraints is abstracted to the multiset of its
# elements.  any(pred(v.value(solution)) for v in lst) is "some element satisfies pred".
CVAL = z3.Function("constraint_value", T.Int, T.Real)


class CList:
    """an abstract python list of recorded constraint objects (multiset: id -> multiplicity)"""

    def __init__(self, cnt):
        self.cnt = cnt


def new_clist(eng, hint):
    eng.nfresh += 1
    return eng.alloc(CList(z3.Const("%s_cnt!%d" % (hint, eng.nfresh), z3.ArraySort(T.Int, T.Int))))


def any_over_clist(eng, lst, n, fr):
    """any(<elt> for v in lst): exists an element for which <elt> is true"""
    from .interp import Frame
    import ast
    g = n.generators[0]
    if g.ifs or not isinstance(g.target, ast.Name):
        raise Unsupported("any over the recorded constraints: filter / target shape")
    eng.nfresh += 1
    eng.quantified = True
    c = z3.Int("cq!%d" % eng.nfresh)
    sub = Frame(fr.closure, dict(fr.locals), fr.self_obj, fr.defining_cls)
    sub.locals[g.target.id] = SV(c, "cobj")
    eng.spec += 1
    try:
        phi = eng.tobool(eng.eval(n.elt, sub))
    finally:
        eng.spec -= 1
    phi = z3.BoolVal(phi) if isinstance(phi, bool) else phi
    return SV(z3.Exists([c], z3.And(z3.Select(lst.cnt, c) > 0, phi)), "bool")
