"""Indexed solutions (C04: convert_solution and its helpers).

A *solution* handed to convert_solution is a dict with keys 0..n-1, a list or a tuple of length n: abstractly a
container tag and a total map arr: Int -> Real read on the index range [0, n).  Loops over its values visit every
index of the range exactly once (ghost `visited`: a set of indices); comprehensions that map every value through a
small literal table ({k: convert[v] for k, v in z.items()}, type(z)(convert[i] for i in z)) produce a solution with
the mapped values (KeyError when some value is not a key of the table); the final relabelling comprehension
{reverse_mapping[i]: solution[i] for i in range(N)} produces a label-keyed dict described by quantified facts."""
import ast

import z3

from . import theory as T
from . import folds as FO
from .values import SV, DictVal, Unsupported, PyExc, zreal, zint

ArrSort = z3.ArraySort(T.Int, T.Real)


class SolVal:
    def __init__(self, container, arr, n, view=None):
        self.container, self.arr, self.n, self.view = container, arr, n, view      # view: None | 'values' | 'items'

    def __repr__(self):
        return "SolVal(%s, n=%s)" % (self.container, self.n)


def make(eng, container, hint):
    eng.nfresh += 1
    arr = z3.Const("%s_sol!%d" % (hint, eng.nfresh), ArrSort)
    n = z3.Int("%s_len!%d" % (hint, eng.nfresh))
    eng.facts.add(n >= 0)
    return SolVal(container, arr, n)


def _iq(eng, hint="iq"):
    eng.nfresh += 1
    eng.quantified = True
    return z3.Int("%s!%d" % (hint, eng.nfresh))


def getitem(eng, s, idx):
    i = zint(idx)
    if not eng.spec and not eng.branch(z3.And(i >= 0, i < s.n)):
        raise PyExc("KeyError" if s.container == "dict" else "IndexError")
    return SV(z3.Select(s.arr, i), "real")


def table_of(eng, node, var, fr):
    """node is `convert[var]` with convert a small literal table of numbers -> (table, f) with f(e) the lookup as an
    if-then-else chain and ok(e) 'e is a key'"""
    if not (isinstance(node, ast.Subscript) and isinstance(node.slice, ast.Name) and node.slice.id == var):
        return None
    tab = eng.eval(node.value, fr)
    if not (isinstance(tab, dict) and tab and all(isinstance(k, int) and isinstance(v, int) for k, v in tab.items())):
        return None
    keys = list(tab)

    def f(e):
        r = z3.RealVal(tab[keys[-1]])
        for k in keys[-2::-1]:
            r = z3.If(e == k, z3.RealVal(tab[k]), r)
        return r

    def ok(e):
        return z3.Or(*[e == k for k in keys])
    return f, ok


def mapped(eng, s, f, ok, container=None):
    """the solution whose values are f(value) - KeyError when some value is not a key of the table"""
    j = _iq(eng)
    bad = z3.Exists([j], z3.And(j >= 0, j < s.n, z3.Not(ok(z3.Select(s.arr, j)))))
    if eng.branch(bad):
        raise PyExc("KeyError", "value is not a key of the conversion table")
    eng.nfresh += 1
    arr2 = z3.Const("mapped_sol!%d" % eng.nfresh, ArrSort)
    j2 = _iq(eng)
    eng.facts.add(z3.ForAll([j2], z3.Implies(z3.And(j2 >= 0, j2 < s.n), z3.Select(arr2, j2) == f(z3.Select(s.arr, j2)))))
    return SolVal(container or s.container, arr2, s.n)


def relabelled(eng, rmap, s, N):
    """{rmap[i]: s[i] for i in range(N)}: KeyError / IndexError when an index below N is missing on either side"""
    ver = eng.store_of(rmap)
    if ver.ksort != T.Int or ver.vsort != T.Label:
        raise Unsupported("relabelling through a dict that is not int -> label")
    N = zint(N)
    i = _iq(eng)
    if eng.branch(z3.Exists([i], z3.And(i >= 0, i < N, z3.Not(z3.Select(ver.dom, i))))):
        raise PyExc("KeyError", "index not in the reverse mapping")
    if eng.branch(N > s.n):
        raise PyExc("KeyError" if s.container == "dict" else "IndexError", "solution shorter than the number of variables")
    res = FO.base(eng, T.Label, T.Real, "converted")
    a, b, l = _iq(eng), _iq(eng), None
    inj = z3.ForAll([a, b], z3.Implies(z3.And(a >= 0, a < N, b >= 0, b < N, z3.Select(ver.val, a) == z3.Select(ver.val, b)), a == b))
    i2 = _iq(eng)
    eng.facts.add(z3.ForAll([i2], z3.Implies(z3.And(i2 >= 0, i2 < N), z3.Select(res.dom, z3.Select(ver.val, i2)))))
    eng.facts.add(z3.Implies(inj, z3.ForAll([i2], z3.Implies(z3.And(i2 >= 0, i2 < N),
                                                             z3.Select(res.val, z3.Select(ver.val, i2)) == z3.Select(s.arr, i2)))))
    eng.nfresh += 1
    lq = z3.Const("lq!%d" % eng.nfresh, T.Label)
    i3 = _iq(eng)
    eng.facts.add(z3.ForAll([lq], z3.Implies(z3.Select(res.dom, lq),
                                             z3.Exists([i3], z3.And(i3 >= 0, i3 < N, z3.Select(ver.val, i3) == lq)))))
    return eng.alloc(DictVal(res, pyclass="dict"))


def relabelled_items(eng, rmap, s):
    """{v: s[i] for i, v in rmap.items()}: KeyError / IndexError when a key of rmap is not an index of the solution"""
    ver = eng.store_of(rmap)
    if ver.ksort != T.Int or ver.vsort != T.Label:
        raise Unsupported("relabelling through a dict that is not int -> label")
    i = _iq(eng)
    if eng.branch(z3.Exists([i], z3.And(z3.Select(ver.dom, i), z3.Not(z3.And(i >= 0, i < s.n))))):
        raise PyExc("KeyError" if s.container == "dict" else "IndexError", "a mapped integer is not an index of the solution")
    res = FO.base(eng, T.Label, T.Real, "converted")
    a, b = _iq(eng), _iq(eng)
    inj = z3.ForAll([a, b], z3.Implies(z3.And(z3.Select(ver.dom, a), z3.Select(ver.dom, b),
                                              z3.Select(ver.val, a) == z3.Select(ver.val, b)), a == b))
    i2 = _iq(eng)
    eng.facts.add(z3.ForAll([i2], z3.Implies(z3.Select(ver.dom, i2), z3.Select(res.dom, z3.Select(ver.val, i2)))))
    eng.facts.add(z3.Implies(inj, z3.ForAll([i2], z3.Implies(z3.Select(ver.dom, i2),
                                                             z3.Select(res.val, z3.Select(ver.val, i2)) == z3.Select(s.arr, i2)))))
    eng.nfresh += 1
    lq = z3.Const("lq!%d" % eng.nfresh, T.Label)
    i3 = _iq(eng)
    eng.facts.add(z3.ForAll([lq], z3.Implies(z3.Select(res.dom, lq),
                                             z3.Exists([i3], z3.And(z3.Select(ver.dom, i3), z3.Select(ver.val, i3) == lq)))))
    return eng.alloc(DictVal(res, pyclass="dict"))
