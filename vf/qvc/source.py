"""Source database: parses the real files under REPO on every run; nothing is cached across runs.

Extraction drops exactly: docstrings and comments (ast does), `__all__`, and `QUBOVertWarning.warn(msg)` calls
(turned into writes to the ghost list `warned` by the interpreter; the statement
`if not suppress_warnings: QUBOVertWarning.warn("<literal>")` writes the literal to `warned` whatever the flag is,
i.e. `warned` records what the library determined, not whether the caller asked to hear it).

What is NOT the code that runs is refused instead of dropped: a def with a decorator other than staticmethod /
classmethod / property / .setter, a function or class name re-bound at module level, a method name re-bound in the
class body or assigned from outside (`Cls.m = ...`, `setattr(Cls, "m", ...)`) is marked `_qvc_rebound`; executing or
using the contract of such a function raises Unsupported, so it and its callers leave reach."""
import ast
import hashlib
import os

from .. import REPO
from .values import Unsupported

PKG_FILES = [
    "qubovert/utils/_warn.py", "qubovert/utils/_binary_helpers.py", "qubovert/utils/_approximate_extrema.py",
    "qubovert/utils/_ordering_key.py", "qubovert/utils/_subgraph.py", "qubovert/utils/_normalize.py",
    "qubovert/utils/_values.py", "qubovert/utils/_solve_bruteforce.py", "qubovert/utils/_dict_arithmetic.py",
    "qubovert/utils/_pubomatrix.py", "qubovert/utils/_pusomatrix.py", "qubovert/utils/_qubomatrix.py",
    "qubovert/utils/_qusomatrix.py", "qubovert/utils/_conversions.py", "qubovert/utils/_bo_parentclass.py",
    "qubovert/utils/_info.py", "qubovert/_qubo.py", "qubovert/_quso.py", "qubovert/_pubo.py", "qubovert/_puso.py",
    "qubovert/_pcbo.py", "qubovert/_pcso.py", "qubovert/sat/_satisfiability.py",
    "qubovert/sim/_anneal_results.py", "qubovert/sim/_anneal_temperature_range.py", "qubovert/sim/_anneal.py",
]


class ClassInfo:
    def __init__(self, name, module, node, base_names):
        self.name, self.module, self.node, self.base_names = name, module, node, base_names
        self.methods = {}      # name -> (FunctionDef, kind) kind in {'method','static','class','property','setter'}
        self.mro = None

    def __repr__(self):
        return "ClassInfo(%s)" % self.name


BUILTIN_BASES = {"dict", "list", "object", "UserWarning"}


class SourceDB:
    def __init__(self, repo=None):
        self.repo = repo or REPO
        self.modules = {}      # modname -> {'tree','funcs','classes','path','sha','src'}
        self.classes = {}      # class name -> ClassInfo (class names are unique in qubovert)
        self.funcs = {}        # function name -> (modname, FunctionDef)   (module-level, unique names expected)
        self.missing = []
        for rel in PKG_FILES:
            self._load(rel)
        for c in self.classes.values():
            self._mro(c)

    def _load(self, rel):
        path = os.path.join(self.repo, rel)
        mod = rel[:-3].replace("/", ".")
        try:
            src = open(path, encoding="utf-8").read()
            tree = ast.parse(src)
        except (OSError, SyntaxError) as e:
            self.missing.append((rel, str(e)))
            return
        funcs, classes = {}, {}
        _KNOWN = ("staticmethod", "classmethod", "property")

        def _decorated(fd):
            """a decorator other than staticmethod/classmethod/property/.setter replaces the function by something
            this front end does not model: the def's body is then *not* the code that runs."""
            for d in fd.decorator_list:
                if isinstance(d, ast.Name) and d.id in _KNOWN:
                    continue
                if isinstance(d, ast.Attribute) and d.attr == "setter":
                    continue
                return "decorated by %s" % ast.unparse(d)
            return None

        def _targets(stmt):
            ts = []
            if isinstance(stmt, ast.Assign):
                ts = list(stmt.targets)
            elif isinstance(stmt, (ast.AugAssign, ast.AnnAssign)):
                ts = [stmt.target]
            out = []
            for t in ts:
                out.extend(t.elts if isinstance(t, (ast.Tuple, ast.List)) else [t])
            return out

        # names re-bound at module level / attributes of classes assigned at module level (monkey patching)
        rebound_names, rebound_attrs = {}, {}
        for node in ast.walk(tree):
            for t in _targets(node):
                if isinstance(t, ast.Attribute) and isinstance(t.value, ast.Name):
                    rebound_attrs[(t.value.id, t.attr)] = "line %d assigns %s" % (node.lineno, ast.unparse(t))
        for node in tree.body:
            for t in _targets(node):
                if isinstance(t, ast.Name):
                    rebound_names[t.id] = "line %d re-binds the name %s at module level" % (node.lineno, t.id)
            if isinstance(node, ast.Expr) and isinstance(node.value, ast.Call) and isinstance(node.value.func, ast.Name) \
                    and node.value.func.id == "setattr" and len(node.value.args) >= 2 \
                    and isinstance(node.value.args[0], ast.Name) and isinstance(node.value.args[1], ast.Constant):
                rebound_attrs[(node.value.args[0].id, node.value.args[1].value)] = "line %d: setattr" % node.lineno
        for node in tree.body:
            if isinstance(node, ast.FunctionDef):
                funcs[node.name] = node
                why = _decorated(node) or rebound_names.get(node.name)
                if why:
                    node._qvc_rebound = why
                self.funcs[node.name] = (mod, node) if node.name not in self.funcs or self.funcs[node.name][0] == mod \
                    else self.funcs[node.name]
            elif isinstance(node, ast.ClassDef):
                bases = []
                for b in node.bases:
                    if isinstance(b, ast.Name):
                        bases.append(b.id)
                    elif isinstance(b, ast.Attribute):
                        bases.append(b.attr)
                    else:
                        bases.append("?")
                ci = ClassInfo(node.name, mod, node, bases)
                cls_rebound = {}
                for item in node.body:
                    for t in _targets(item):
                        if isinstance(t, ast.Name):
                            cls_rebound[t.id] = "line %d re-binds %s.%s in the class body" % (item.lineno, node.name, t.id)
                for item in node.body:
                    if isinstance(item, ast.FunctionDef):
                        why = _decorated(item) or cls_rebound.get(item.name) or rebound_attrs.get((node.name, item.name))
                        if why:
                            item._qvc_rebound = why
                        kind = "method"
                        for d in item.decorator_list:
                            if isinstance(d, ast.Name) and d.id in ("staticmethod", "classmethod", "property"):
                                kind = {"staticmethod": "static", "classmethod": "class", "property": "property"}[d.id]
                            elif isinstance(d, ast.Attribute) and d.attr == "setter":
                                kind = "setter"
                        key = item.name + (".setter" if kind == "setter" else "")
                        ci.methods[key] = (item, kind)
                classes[node.name] = ci
                self.classes[node.name] = ci
        self.modules[mod] = {"tree": tree, "funcs": funcs, "classes": classes, "path": path,
                             "sha": hashlib.sha256(src.encode()).hexdigest()[:16], "src": src, "rel": rel}

    def _mro(self, c):
        if c.mro is not None:
            return c.mro
        seqs = []
        for b in c.base_names:
            if b in self.classes:
                seqs.append(list(self._mro(self.classes[b])))
            else:
                seqs.append([b])
        seqs.append([self.classes[b] if b in self.classes else b for b in c.base_names])
        res = [c]
        seqs = [s for s in seqs if s]
        while seqs:
            for s in seqs:
                cand = s[0]
                if not any(cand in t[1:] for t in seqs):
                    break
            else:
                raise Unsupported("inconsistent MRO for %s" % c.name)
            res.append(cand)
            seqs = [[x for x in s if x is not cand and x != cand] for s in seqs]
            seqs = [s for s in seqs if s]
        # builtin bases are strings; dedupe 'object'
        c.mro = res
        return res

    def find_method(self, cls, name, after=None):
        """(defining class or builtin-name, FunctionDef or None, kind)"""
        mro = cls.mro
        start = 0
        if after is not None:
            start = mro.index(after) + 1
        for k in mro[start:]:
            if isinstance(k, str):
                return k, None, "builtin"
            if name in k.methods:
                fd, kind = k.methods[name]
                return k, fd, kind
        return None, None, None

    def is_subclass(self, cls, basename):
        return any((k == basename) if isinstance(k, str) else (k.name == basename) for k in cls.mro)

    def func_source_sha(self, modname, qual):
        m = self.modules.get(modname)
        if not m:
            return "missing"
        node = self.lookup(modname, qual)
        if node is None:
            return "missing"
        seg = ast.get_source_segment(m["src"], node) or ""
        return hashlib.sha256(seg.encode()).hexdigest()[:12]

    def lookup(self, modname, qual):
        m = self.modules.get(modname)
        if not m:
            return None
        if ".<locals>." in qual:
            outer, inner = qual.split(".<locals>.", 1)
            o = self.lookup(modname, outer)
            if o is None:
                return None
            for node in ast.walk(o):
                if isinstance(node, ast.FunctionDef) and node.name == inner and node is not o:
                    return node
            return None
        parts = qual.split(".")
        if len(parts) == 1:
            return m["funcs"].get(parts[0])
        ci = m["classes"].get(parts[0])
        if ci is None:
            return None
        ent = ci.methods.get(parts[1])
        return ent[0] if ent else None
