"""Source database: parses the real files under REPO on every run; nothing is cached across runs.

Extraction drops exactly: docstrings and comments (ast does), `__all__`, and `QUBOVertWarning.warn(msg)` calls
(turned into writes to the ghost list `warned` by the interpreter)."""
import ast
import hashlib
import os

from .. import REPO
from .values import Unsupported

PKG_FILES = [
    "qubovert/utils/_warn.py", "qubovert/utils/_binary_helpers.py", "qubovert/utils/_approximate_extrema.py",
    "qubovert/utils/_ordering_key.py", "qubovert/utils/_subgraph.py", "qubovert/utils/_normalize.py",
    "qubovert/utils/_values.py", "qubovert/utils/_solve_bruteforce.py", "qubovert/utils/_dict_arithmetic.py",
    "qubovert/utils/_pubomatrix.py", "qubovert/utils/_pusomatrix.py", "qubovert/utils/_qubomatrix.py",
    "qubovert/utils/_qusomatrix.py", "qubovert/utils/_conversions.py", "qubovert/utils/_bo_parentclass.py",
    "qubovert/utils/_info.py", "qubovert/_qubo.py", "qubovert/_quso.py", "qubovert/_pubo.py", "qubovert/_puso.py",
    "qubovert/_pcbo.py", "qubovert/_pcso.py", "qubovert/sat/_satisfiability.py",
    "qubovert/sim/_anneal_results.py", "qubovert/sim/_anneal_temperature_range.py", "qubovert/sim/_anneal.py",
]


class ClassInfo:
    def __init__(self, name, module, node, base_names):
        self.name, self.module, self.node, self.base_names = name, module, node, base_names
        self.methods = {}      # name -> (FunctionDef, kind) kind in {'method','static','class','property','setter'}
        self.mro = None

    def __repr__(self):
        return "ClassInfo(%s)" % self.name


BUILTIN_BASES = {"dict", "list", "object", "UserWarning"}


class SourceDB:
    def __init__(self, repo=None):
        self.repo = repo or REPO
        self.modules = {}      # modname -> {'tree','funcs','classes','path','sha','src'}
        self.classes = {}      # class name -> ClassInfo (class names are unique in qubovert)
        self.funcs = {}        # function name -> (modname, FunctionDef)   (module-level, unique names expected)
        self.missing = []
        for rel in PKG_FILES:
            self._load(rel)
        for c in self.classes.values():
            self._mro(c)

    def _load(self, rel):
        path = os.path.join(self.repo, rel)
        mod = rel[:-3].replace("/", ".")
        try:
            src = open(path, encoding="utf-8").read()
            tree = ast.parse(src)
        except (OSError, SyntaxError) as e:
            self.missing.append((rel, str(e)))
            return
        funcs, classes = {}, {}
        for node in tree.body:
            if isinstance(node, ast.FunctionDef):
                funcs[node.name] = node
                self.funcs.setdefault(node.name, (mod, node))
            elif isinstance(node, ast.ClassDef):
                bases = []
                for b in node.bases:
                    if isinstance(b, ast.Name):
                        bases.append(b.id)
                    elif isinstance(b, ast.Attribute):
                        bases.append(b.attr)
                    else:
                        bases.append("?")
                ci = ClassInfo(node.name, mod, node, bases)
                for item in node.body:
                    if isinstance(item, ast.FunctionDef):
                        kind = "method"
                        for d in item.decorator_list:
                            if isinstance(d, ast.Name) and d.id in ("staticmethod", "classmethod", "property"):
                                kind = {"staticmethod": "static", "classmethod": "class", "property": "property"}[d.id]
                            elif isinstance(d, ast.Attribute) and d.attr == "setter":
                                kind = "setter"
                        key = item.name + (".setter" if kind == "setter" else "")
                        ci.methods[key] = (item, kind)
                classes[node.name] = ci
                self.classes[node.name] = ci
        self.modules[mod] = {"tree": tree, "funcs": funcs, "classes": classes, "path": path,
                             "sha": hashlib.sha256(src.encode()).hexdigest()[:16], "src": src, "rel": rel}

    def _mro(self, c):
        if c.mro is not None:
            return c.mro
        seqs = []
        for b in c.base_names:
            if b in self.classes:
                seqs.append(list(self._mro(self.classes[b])))
            else:
                seqs.append([b])
        seqs.append([self.classes[b] if b in self.classes else b for b in c.base_names])
        res = [c]
        seqs = [s for s in seqs if s]
        while seqs:
            for s in seqs:
                cand = s[0]
                if not any(cand in t[1:] for t in seqs):
                    break
            else:
                raise Unsupported("inconsistent MRO for %s" % c.name)
            res.append(cand)
            seqs = [[x for x in s if x is not cand and x != cand] for s in seqs]
            seqs = [s for s in seqs if s]
        # builtin bases are strings; dedupe 'object'
        c.mro = res
        return res

    def find_method(self, cls, name, after=None):
        """(defining class or builtin-name, FunctionDef or None, kind)"""
        mro = cls.mro
        start = 0
        if after is not None:
            start = mro.index(after) + 1
        for k in mro[start:]:
            if isinstance(k, str):
                return k, None, "builtin"
            if name in k.methods:
                fd, kind = k.methods[name]
                return k, fd, kind
        return None, None, None

    def is_subclass(self, cls, basename):
        return any((k == basename) if isinstance(k, str) else (k.name == basename) for k in cls.mro)

    def func_source_sha(self, modname, qual):
        m = self.modules.get(modname)
        if not m:
            return "missing"
        node = self.lookup(modname, qual)
        if node is None:
            return "missing"
        seg = ast.get_source_segment(m["src"], node) or ""
        return hashlib.sha256(seg.encode()).hexdigest()[:12]

    def lookup(self, modname, qual):
        m = self.modules.get(modname)
        if not m:
            return None
        if ".<locals>." in qual:
            outer, inner = qual.split(".<locals>.", 1)
            o = self.lookup(modname, outer)
            if o is None:
                return None
            for node in ast.walk(o):
                if isinstance(node, ast.FunctionDef) and node.name == inner and node is not o:
                    return node
            return None
        parts = qual.split(".")
        if len(parts) == 1:
            return m["funcs"].get(parts[0])
        ci = m["classes"].get(parts[0])
        if ci is None:
            return None
        ent = ci.methods.get(parts[1])
        return ent[0] if ent else None
