"""Functions available inside contract expressions (requires / ensures / invariants)."""
import z3

from . import theory as T
from . import folds as FO
from .values import (SV, Ver, DictVal, SetVal, ListVal, PObj, ItemsView, AssignVal, ClassRef, Unsupported, VerifBug,
                     zreal, zint)

SPEC_FUNCS = {}


def spec(fn):
    SPEC_FUNCS[fn.__name__.lstrip("_")] = fn
    return fn


def _b(eng, v):
    t = eng.tobool(v)
    return z3.BoolVal(t) if isinstance(t, bool) else t


@spec
def implies(eng, a, b):
    return SV(z3.Implies(_b(eng, a), _b(eng, b)), "bool")


@spec
def iff(eng, a, b):
    return SV(_b(eng, a) == _b(eng, b), "bool")


@spec
def ite(eng, c, a, b):
    return SV(z3.If(_b(eng, c), zreal(a), zreal(b)), "real")


_GHOST_A = {"bden": "aden", "sden": "asden"}


def _g(eng, name):
    """fold name under the ghost assignment currently selected (contracts proved for an arbitrary assignment are
    also assumed, at call sites, for the second ghost)"""
    return _GHOST_A.get(name, name) if getattr(eng, "ghost", "x") == "a" else name


def _mkfold(name):
    def f(eng, d):
        nm = _g(eng, name)
        F = FO.FOLDS[nm]
        r = FO.fold(eng, eng.store_of(d), nm)
        return SV(r, "bool" if F.kind == "all" else ("real" if F.sort == T.Real else "int"))
    f.__name__ = name
    return f


for _n in list(FO.FOLDS):
    SPEC_FUNCS[_n] = _mkfold(_n)


@spec
def store(eng, d):
    return eng.store_of(d)


@spec
def old(eng, v):
    # old(...) is handled syntactically by the interpreter for heap reads; a value that reaches here is a
    # scalar evaluated in the current state, which is the same as in the old state for immutable values
    return v


@spec
def empty_store(eng):
    return FO.empty(eng, T.Key, T.Real)


@spec
def store_put(eng, ver, k, c):
    ver = eng.store_of(ver)
    return FO.put(eng, ver, eng.as_dictkey(ver, k), zreal(c) if ver.vsort == T.Real else zint(c))


@spec
def store_set(eng, ver, k, c):
    ver = eng.store_of(ver)
    return FO.setitem(eng, ver, eng.as_dictkey(ver, k), zreal(c) if ver.vsort == T.Real else zint(c))


@spec
def store_pop(eng, ver, k):
    ver = eng.store_of(ver)
    return FO.popitem(eng, ver, eng.as_dictkey(ver, k))


@spec
def same_store(eng, a, b):
    va, vb = eng.store_of(a), eng.store_of(b)
    cond = z3.And(va.dom == vb.dom, va.val == vb.val)
    if va is not vb:
        FO.assert_same(eng, va, vb, cond)
    return SV(cond, "bool")


@spec
def lookup(eng, d, k):
    ver = eng.store_of(d)
    kk = eng.as_dictkey(ver, k)
    return SV(z3.If(z3.Select(ver.dom, kk), z3.Select(ver.val, kk), 0), "real")


@spec
def dictcopy(eng, d):
    """a new dict object with the contents of d (result of d.copy())"""
    ver = eng.store_of(d)
    spec, eng.spec = eng.spec, 0
    try:
        return eng.alloc(DictVal(ver, pyclass="dict"))
    finally:
        eng.spec = spec


@spec
def setcopy(eng, s):
    """a new set object with the members of s"""
    if not isinstance(s, SetVal):
        raise Unsupported("set expected")
    mem, card = (eng.old[id(s)] if eng.old is not None and id(s) in eng.old else (s.mem, s.card))
    return eng.alloc(SetVal(mem, card))


@spec
def maxabs(eng, d):
    """largest coefficient magnitude of the dict / model (0 for an empty one)"""
    return SV(FO.maxabs_of(eng, eng.store_of(d)), "real")


@spec
def has(eng, d, k):
    ver = eng.store_of(d)
    return SV(z3.Select(ver.dom, eng.as_dictkey(ver, k)), "bool")


def is_spin_class(eng, cls):
    return eng.db.is_subclass(cls, "PUSOMatrix")


def _cls_of(eng, o):
    if isinstance(o, PObj):
        return o.cls
    if isinstance(o, ClassRef):
        return o.cls
    if isinstance(o, str):
        return eng.db.classes[o]
    raise Unsupported("class of %r" % (o,))


@spec
def sq(eng, o, k):
    """canonical key under the class of o (boolean: sorted set; spin: sorted odd-multiplicity members)"""
    cls = _cls_of(eng, o)
    return SV(eng.facts.sq(is_spin_class(eng, cls), eng.as_key(k)), "key")


@spec
def bsq(eng, k):
    return SV(eng.facts.sq(False, eng.as_key(k)), "key")


@spec
def ssq(eng, k):
    return SV(eng.facts.sq(True, eng.as_key(k)), "key")


@spec
def bmono(eng, k):
    e = eng.as_key(k)
    eng.facts.key(e)
    return SV(T.bmono(e), "real")


@spec
def smono(eng, k):
    e = eng.as_key(k)
    eng.facts.key(e)
    return SV(T.smono(e), "real")


@spec
def den(eng, o):
    """denotation of a model object at the ghost assignment, in the model's own domain"""
    cls = _cls_of(eng, o)
    name = _g(eng, "sden" if is_spin_class(eng, cls) else "bden")
    return SV(FO.fold(eng, eng.store_of(o), name), "real")


@spec
def wf(eng, o):
    """representation invariant: canonical keys, no stored zeros, degree <= 2 for the Q types"""
    cls = _cls_of(eng, o)
    ver = eng.store_of(o)
    spin = is_spin_class(eng, cls)
    parts = [FO.fold(eng, ver, "nozero"), FO.fold(eng, ver, "scanon" if spin else "bcanon")]
    if eng.db.is_subclass(cls, "QUBOMatrix") or eng.db.is_subclass(cls, "QUSOMatrix"):
        parts.append(FO.fold(eng, ver, "deg2"))
    if not eng.db.is_subclass(cls, "BO"):
        parts.append(FO.fold(eng, ver, "valid_mat"))
    return SV(z3.And(*parts), "bool")


@spec
def xv(eng, i):
    e = eng.as_label(i)
    eng.facts.label(e)
    return SV(T.xval(e), "real")


@spec
def zv(eng, i):
    e = eng.as_label(i)
    eng.facts.label(e)
    return SV(T.zval(e), "real")


@spec
def klen(eng, k):
    return SV(z3.Length(eng.as_key(k)), "int")


@spec
def typeis(eng, o, name):
    from .builtins import class_name_of
    return class_name_of(eng, o) == name


@spec
def isfresh(eng, o):
    return getattr(o, "birth", 0) > eng.entry_alloc


def _validity_parts(eng, cls):
    """(needs_matvalid, 'bool'|'spin'|None for the <=2 distinct-label rule)"""
    mat = not eng.db.is_subclass(cls, "BO")
    spin = is_spin_class(eng, cls)
    deg2 = eng.db.is_subclass(cls, "QUBOMatrix") or eng.db.is_subclass(cls, "QUSOMatrix")
    return mat, spin, deg2


@spec
def keyvalid(eng, o, k):
    """the key is accepted by the class of o (no KeyError from squash_key)"""
    cls = _cls_of(eng, o)
    mat, spin, deg2 = _validity_parts(eng, cls)
    e = eng.as_key(k)
    parts = []
    if mat:
        eng.facts.key(e)
        parts.append(T.matvalid(e))
    if deg2:
        parts.append(z3.Length(eng.facts.sq(spin, e)) <= 2)
    return SV(z3.And(*parts) if parts else z3.BoolVal(True), "bool")


@spec
def keysvalid(eng, o, d):
    """every key of the dict d is accepted by the class of o"""
    cls = _cls_of(eng, o)
    mat, spin, deg2 = _validity_parts(eng, cls)
    ver = eng.store_of(d)
    parts = []
    if mat:
        parts.append(FO.fold(eng, ver, "valid_mat"))
    if deg2:
        vq = FO.fold(eng, ver, "valid_quso" if spin else "valid_qubo")
        parts.append(vq)
        # fold lifting of the pointwise fact  sq(k) == k /\ len(k) <= 2  ==>  len(sq(k)) <= 2
        eng.facts.add(z3.Implies(z3.And(FO.fold(eng, ver, "scanon" if spin else "bcanon"), FO.fold(eng, ver, "deg2")), vq))
    return SV(z3.And(*parts) if parts else z3.BoolVal(True), "bool")


@spec
def den_as(eng, o, d):
    """denotation of the dict/model d read in the domain (boolean/spin) of the class of o"""
    cls = _cls_of(eng, o)
    name = _g(eng, "sden" if is_spin_class(eng, cls) else "bden")
    return SV(FO.fold(eng, eng.store_of(d), name), "real")


@spec
def mono_as(eng, o, k):
    cls = _cls_of(eng, o)
    e = eng.as_key(k)
    eng.facts.key(e)
    a = getattr(eng, "ghost", "x") == "a"
    if is_spin_class(eng, cls):
        return SV(T.asmono(e) if a else T.smono(e), "real")
    return SV(T.amono(e) if a else T.bmono(e), "real")


@spec
def distinct(eng, a, b):
    """the two arguments are different objects (no aliasing)"""
    return a is not b


@spec
def is_empty(eng, d):
    ver = eng.store_of(d)
    zero = z3.RealVal(0) if ver.vsort == T.Real else z3.IntVal(0)
    cond = z3.And(ver.dom == z3.K(ver.ksort, z3.BoolVal(False)), ver.val == z3.K(ver.ksort, zero))
    if ver.kind != "empty":
        FO.assert_same(eng, ver, FO.empty(eng, ver.ksort, ver.vsort), cond)     # fold congruence with the empty dict
    return SV(cond, "bool")


@spec
def sameclass(eng, a, b):
    from .builtins import class_name_of
    return class_name_of(eng, a) == class_name_of(eng, b)


@spec
def forall_key(eng, f):
    """forall q: Key. f(q)   (a genuinely quantified formula; used sparingly).  Its instances at the witness keys of
    the maxima the path has asked for are stated explicitly (F => f(w) is valid whatever F's polarity), so that the
    proofs about largest coefficients do not depend on the solver's quantifier instantiation."""
    eng.nfresh += 1
    eng.quantified = True
    q = z3.Const("q!%d" % eng.nfresh, T.Key)
    body = eng.call(f, [SV(q, "key")], {})
    t = eng.tobool(body)
    t = z3.BoolVal(t) if isinstance(t, bool) else t
    F = z3.ForAll([q], t)

    def inst(ksort, w, F=F, t=t, q=q):
        if ksort != T.Key:
            return
        # the instance is obtained by substitution in the formula built *now* (the hook may run in a later state)
        eng.facts.add(z3.Implies(F, z3.substitute(t, (q, w))))
    FO.maxabs_hook(eng, inst)
    return SV(F, "bool")


@spec
def isnumber(eng, x):
    from .values import is_num
    return is_num(x) or isinstance(x, bool) or (isinstance(x, SV) and x.t in ("real", "int"))


@spec
def matvalid(eng, k):
    e = eng.as_key(k)
    eng.facts.key(e)
    return SV(T.matvalid(e), "bool")


# ------------------------------------------------------------------ sat operands (C07 / C06)
def _opden(eng, v):
    """denotation of a sat operand at the ghost assignment: label -> xval, dict/model -> bden"""
    if isinstance(v, (PObj, DictVal)):
        return FO.fold(eng, eng.store_of(v), "bden")
    e = eng.as_label(v)
    eng.facts.label(e)
    return T.xval(e)


@spec
def opden(eng, v):
    return SV(_opden(eng, v), "real")


def _labelkey(vs):
    return isinstance(vs, SV) and vs.t == "key"


@spec
def all01(eng, vs):
    """every operand takes a value in {0,1} at the ghost assignment"""
    if _labelkey(vs):          # a tuple of labels of symbolic length: the ghost assignment is boolean on every label
        return True
    parts = []
    for v in vs:
        d = _opden(eng, v)
        parts.append(z3.Or(d == 0, d == 1))
    return SV(z3.And(*parts) if parts else z3.BoolVal(True), "bool")


@spec
def andf(eng, vs):
    if _labelkey(vs):
        return SV(T.bmono(eng.facts.key(vs.e)), "real")
    r = z3.RealVal(1)
    for v in vs:
        r = r * _opden(eng, v)
    return SV(r, "real")


@spec
def orf(eng, vs):
    r = z3.RealVal(1)
    for v in vs:
        r = r * (1 - _opden(eng, v))
    return SV(1 - r, "real") if vs else SV(z3.RealVal(1), "real")


@spec
def xorf(eng, vs):
    """parity of the operands (for values in {0,1}); documented value 1 for no operands"""
    if not vs:
        return SV(z3.RealVal(1), "real")
    r = _opden(eng, vs[0])
    for v in vs[1:]:
        d = _opden(eng, v)
        r = r + d - 2 * r * d
    return SV(r, "real")


@spec
def opsvalid(eng, vs):
    """dict/model operands are well formed boolean models or raw dicts; distinct objects"""
    if _labelkey(vs):
        return True
    parts = []
    for v in vs:
        if isinstance(v, PObj):
            parts.append(_b(eng, wf(eng, v)))
    return SV(z3.And(*parts) if parts else z3.BoolVal(True), "bool")


@spec
def isint(eng, x):
    if isinstance(x, int):
        return True
    e = zreal(x)
    return SV(eng.facts.intp(e), "bool")


@spec
def warned_unsat(eng):
    """the library warned that the constraint cannot be satisfied (ghost list `warned`).
    Inside the ensures of a contract applied at a call site this is the callee's own (symbolic) warning flag."""
    st = getattr(eng, "apply_w_stack", None)
    if st:
        return SV(st[-1], "bool")
    parts = []
    for w in eng.warned:
        if isinstance(w, SV):
            parts.append(w.e)
        elif "cannot be satisfied" in str(w):
            return True
    return SV(z3.Or(*parts), "bool") if parts else False


@spec
def encloses(eng, bounds, d):
    """bounds is None / (lo|None, hi|None); every given side encloses the denotation d"""
    if bounds is None:
        return True
    lo, hi = bounds
    parts = []
    if lo is not None:
        parts.append(zreal(lo) <= zreal(d))
    if hi is not None:
        parts.append(zreal(d) <= zreal(hi))
    return SV(z3.And(*parts), "bool") if parts else True


@spec
def distinct_from(eng, o, vs):
    return all(v is not o for v in vs)


# ------------------------------------------------------------------ lists of results (C13)
from . import lists as LS


@spec
def llen(eng, o):
    return SV(eng.lver_of(o).length, "int")


@spec
def lhas(eng, o, r):
    e = r.rid if isinstance(r, LS.OptRid) else r.e
    LS.register_rid(eng, e)
    return SV(z3.Select(eng.lver_of(o).cnt, e) >= 1, "bool")


@spec
def lmin(eng, o):
    return SV(LS.lmin(eng, eng.lver_of(o)), "real")


@spec
def best_ok(eng, o, *rest):
    """best is None exactly when the collection is empty; otherwise an element with the smallest value"""
    ver = eng.lver_of(o)
    b = rest[0] if rest else eng.get_attr_raw(o, "best")
    if b is None:
        return SV(ver.length == 0, "bool")
    if isinstance(b, SV) and b.t == "rid":
        isnone, rid = z3.BoolVal(False), b.e
    elif isinstance(b, LS.OptRid):
        isnone, rid = b.isnone, b.rid
    else:
        raise Unsupported("best_ok: the value of `best` (%s) is not a result identity the list specification tracks"
                          % type(b).__name__)
    LS.register_rid(eng, rid)
    m = LS.lmin(eng, ver)
    return SV(z3.And((ver.length == 0) == isnone,
                     z3.Implies(z3.Not(isnone), z3.And(z3.Select(ver.cnt, rid) >= 1, LS.rval(rid) == m))), "bool")


# ------------------------------------------------------------------ slack ancillas (C02)
@spec
def slackval(eng, a0, n, log):
    """value of the slack encoded by the n ancillas '__a<a0>' ... '__a<a0+n-1>' at the ghost assignment"""
    lg = eng.tobool(log)
    lg = z3.BoolVal(lg) if isinstance(lg, bool) else lg
    e = T.slack(zint(a0), zint(n), lg)
    eng.facts.add(T.slack(zint(a0), z3.IntVal(0), lg) == 0)
    return SV(e, "int")


@spec
def slackcap(eng, n, log):
    """largest slack value n ancillas can encode: 2^n - 1 (log trick) or n (unary)"""
    lg = eng.tobool(log)
    lg = z3.BoolVal(lg) if isinstance(lg, bool) else lg
    nn = zint(n)
    return SV(z3.If(lg, eng.facts.pow2_term(nn) - 1, nn), "int")


@spec
def slack_next(eng, a0, i, log):
    """unfolds slack(a0, i+1) (used in invariants so that the step law is available)"""
    lg = eng.tobool(log)
    lg = z3.BoolVal(lg) if isinstance(lg, bool) else lg
    return SV(eng.facts.slack_step(zint(a0), zint(i), lg), "int")


@spec
def anclabel(eng, n):
    """the label '__a<n>'"""
    return SV(eng.facts.anc_label(zint(n)), "label")


# ------------------------------------------------------------------ finite label sets (C14)
def _lset(eng, v):
    if isinstance(v, SetVal):
        if eng.old is not None and id(v) in eng.old:
            return eng.old[id(v)][0]
        return v.mem
    if isinstance(v, SV) and v.t == "lset":
        return v.e
    if isinstance(v, (DictVal, Ver)) or (isinstance(v, PObj) and v.store is not None):
        ver = eng.store_of(v)
        if ver.ksort != T.Label:
            raise Unsupported("domain set of a dict that is not keyed by labels")
        return ver.dom
    raise Unsupported("label set expected")


@spec
def lset(eng, v):
    return SV(_lset(eng, v), "lset")


@spec
def setcard(eng, v):
    if isinstance(v, SetVal):
        if eng.old is not None and id(v) in eng.old:
            return SV(eng.old[id(v)][1], "int")
        return SV(v.card, "int")
    return SV(T.CARD(_lset(eng, v)), "int")


@spec
def members(eng, k):
    eng.facts.enable_sets()
    return SV(eng.facts.memset_of(eng.as_key(k)), "lset")


@spec
def union(eng, a, b):
    return SV(eng.facts.set_union(_lset(eng, a), _lset(eng, b)), "lset")


@spec
def inter(eng, a, b):
    return SV(eng.facts.set_inter(_lset(eng, a), _lset(eng, b)), "lset")


@spec
def subseteq(eng, a, b):
    return SV(eng.facts.set_subset(_lset(eng, a), _lset(eng, b)), "bool")


@spec
def seteq(eng, a, b):
    return SV(_lset(eng, a) == _lset(eng, b), "bool")


@spec
def domcard(eng, d):
    """number of keys of a label-keyed dict, as CARD of its domain (facts along the version chain)"""
    ver = eng.store_of(d)

    def go(v):
        if "domcard" in v.cache:
            return v.cache["domcard"]
        c = T.CARD(v.dom)
        if v.kind == "empty":
            eng.facts.add(c == 0)
        elif v.kind == "base":
            eng.facts.add(c >= 0)
        elif v.kind == "set":
            eng.facts.add(c == go(v.parent) + z3.If(z3.Select(v.parent.dom, v.k), 0, 1))
        elif v.kind == "pop":
            eng.facts.add(c == go(v.parent) - z3.If(z3.Select(v.parent.dom, v.k), 1, 0))
        else:
            raise Unsupported("domcard of a put-version")
        v.cache["domcard"] = c
        return c
    return SV(go(ver), "int")


@spec
def bk(eng, o):
    """bookkeeping invariant (C14): the variable counter is the size of the variable set, which contains every label
    of a stored key; for labelled models the mapping enumerates exactly the reported variables and the next free
    label is the number of mapped labels"""
    vs = eng.get_attr_raw(o, "_variables")
    nv = eng.get_attr_raw(o, "_num_binary_variables")
    if eng.old is not None and id(vs) in eng.old:
        mem, card = eng.old[id(vs)]
    else:
        mem, card = vs.mem, vs.card
    parts = [zint(nv) == card]
    # the reported variables contain every label of a stored key
    parts.append(FO.pfold_subset(eng, eng.store_of(o), mem))
    if eng.db.is_subclass(o.cls, "BO"):
        mp = eng.store_of(eng.get_attr_raw(o, "_mapping"))
        parts.append(mp.dom == mem)
        parts.append(zint(domcard(eng, mp)) == zint(eng.get_attr_raw(o, "_next_label")))
    return SV(z3.And(*parts), "bool")


@spec
def anc_of(eng, o):
    """the constraint-ancilla counter of a PCBO / PCSO (0 for the other classes)"""
    if isinstance(o, PObj) and "_ancilla" in o.attrs:
        return eng.get_attr_raw(o, "_ancilla")
    return 0


# ------------------------------------------------------------------ relabelling through a mapping (C04)
@spec
def aden(eng, d):
    eng.facts.enable_ghost("a")
    return SV(FO.fold(eng, eng.store_of(d), "aden"), "real")


@spec
def asden(eng, d):
    eng.facts.enable_ghost("a")
    return SV(FO.fold(eng, eng.store_of(d), "asden"), "real")


@spec
def keys_ancbelow(eng, d, n):
    """no stored key of d mentions a constraint-ancilla name '__a<j>' with j >= n (numbers, None: vacuously true)"""
    from .values import is_num
    if d is None or is_num(d) or isinstance(d, bool):
        return True
    if isinstance(d, SV) and d.t in ("real", "int"):
        return True
    ver = eng.store_of(d)
    if ver.ksort != T.Key:
        raise Unsupported("keys_ancbelow on a dict that is not keyed by keys")
    nn = zint(n)
    gts = eng.__dict__.setdefault("gn_terms", [])
    if not any(nn.eq(t) for t in gts):
        gts.append(nn)
    return SV(FO.fold(eng, ver, FO.ancbelow_fold(eng, nn)), "bool")


@spec
def keyanc(eng, k):
    """1 + the largest ancilla number among the labels of the key (0 if it has no ancilla label)"""
    eng.facts.enable_anc()
    return SV(T.KEYANC(eng.facts.key(eng.as_key(k))), "int")


@spec
def ops_ancbelow(eng, vs, n):
    """operands of a gate / builder (labels, raw dicts, models, or a symbolic tuple of labels): none mentions an
    ancilla name '__a<j>' with j >= n"""
    eng.facts.enable_anc()
    nn = zint(n)
    if isinstance(vs, SV) and vs.t == "key":
        keys_ancbelow(eng, None, n)
        return SV(T.KEYANC(eng.facts.key(vs.e)) <= nn, "bool")
    parts = []
    for v in vs:
        if isinstance(v, (PObj, DictVal)) or isinstance(v, dict):
            if isinstance(v, dict) and not v:
                continue
            parts.append(_b(eng, keys_ancbelow(eng, v, n)))
        else:
            l = eng.as_label(v)
            eng.facts.label(l)
            parts.append(eng.facts._lanc(l) <= nn)
    gts = eng.__dict__.setdefault("gn_terms", [])
    if not any(nn.eq(t) for t in gts):
        gts.append(nn)
    return SV(z3.And(*parts) if parts else z3.BoolVal(True), "bool")


@spec
def gn(eng):
    """ghost bound: an arbitrary integer, fixed for the function under verification. Ensures that mention it are
    proved for every value of it, and are therefore assumed at call sites for every bound the caller has in play."""
    ov = getattr(eng, "gn_override", None)
    if ov is not None:
        return SV(ov, "int")
    g = getattr(eng, "_gn_const", None)
    if g is None:
        g = eng._gn_const = z3.Int("GN!ghost")
        eng.facts.add(g >= 0)                  # a bound on ancilla numbers: arbitrary, but not negative
    return SV(g, "int")


@spec
def int_at_origin(eng, d, spin=False):
    """the model takes an integer value at the origin (all boolean variables 0 / all spins +1): for a boolean
    model that is its constant term.  An integer-valued polynomial (the property's premise) has this in particular;
    contracts proved for an arbitrary assignment carry it through arithmetic (second ghost = origin)."""
    eng.facts.enable_origin()
    r = FO.fold(eng, eng.store_of(d), "asden" if spin else "aden")
    return isint(eng, SV(r, "real"))


@spec
def maplinked(eng, m):
    """the first ghost assignment is the second one composed with the mapping: x(i) == a(m[i]) on dom(m)"""
    ver = eng.store_of(m)
    if getattr(eng.facts, "a_role", None) == "origin":
        raise Unsupported("second ghost assignment used both for relabelling and as the origin")
    eng.facts.a_role = "relabel"
    eng.facts.enable_ghost("a")
    return SV(T.linked(ver.dom, ver.val), "bool")


@spec
def keys_within(eng, d, s):
    """every key of the dict has all its labels in the label set s"""
    return SV(FO.pfold_subset(eng, eng.store_of(d), _lset(eng, s)), "bool")


@spec
def mapvals_ok(eng, m):
    """every value of the label -> integer mapping is a non-negative int (part of the C14 invariant)"""
    ver = eng.store_of(m)
    return SV(T.nonnegvals(ver.dom, ver.val), "bool")


# ------------------------------------------------------------------ substitution of values (C18)
@spec
def valslinked(eng, values, spin=False):
    """the ghost assignment takes the value values[i] on every label i of the dict `values`"""
    ver = eng.store_of(values)
    sp = bool(spin)
    eng.value_spin = sp
    return SV(T.vlinked(z3.BoolVal(sp), ver.dom, ver.dom, ver.val), "bool")


@spec
def connlinked(eng, nodes, connections, spin=False):
    """the ghost assignment takes the value connections.get(i, 0) on every label i outside `nodes`"""
    sp = bool(spin)
    eng.value_spin = sp
    S = _lset(eng, nodes)
    notS = z3.Map(z3.Not(z3.Bool("_p")).decl(), S)
    if connections is None:
        cdom, cval = z3.K(T.Label, z3.BoolVal(False)), z3.K(T.Label, z3.RealVal(0))
    else:
        ver = eng.store_of(connections)
        cdom, cval = ver.dom, ver.val
    return SV(T.vlinked(z3.BoolVal(sp), notS, cdom, cval), "bool")


@spec
def keys_avoid(eng, d, s):
    """no key of the dict contains a label of the set s"""
    S = _lset(eng, s)
    notS = z3.Map(z3.Not(z3.Bool("_p")).decl(), S)
    return SV(FO.pfold_subset(eng, eng.store_of(d), notS), "bool")


@spec
def isspin(eng, o):
    return isinstance(o, PObj) and is_spin_class(eng, o.cls)


@spec
def denlike(eng, ref, d):
    """denotation of d read in the domain (boolean / spin) of the model `ref` (boolean for a plain dict)"""
    spin = isinstance(ref, PObj) and is_spin_class(eng, ref.cls)
    return SV(FO.fold(eng, eng.store_of(d), _g(eng, "sden" if spin else "bden")), "real")


# ------------------------------------------------------------------ exhaustive enumeration (C09, vf/qvc/enumth.py)
def _asgset(eng, V):
    if isinstance(V, SV) and V.t == "asgset":
        return V.e
    raise Unsupported("set of enumerated tuples expected")


def _tq(eng, hint="tq"):
    from . import enumth as EN
    eng.nfresh += 1
    eng.quantified = True
    return z3.Const("%s!%d" % (hint, eng.nfresh), EN.Asg)


def _fn(eng, f, kind):
    from . import enumth as EN
    a = EN.as_abstract(eng, f, kind)
    if a is None:
        raise Unsupported("abstract %s function expected, got %r" % (kind, f))
    return a


def _value_at(eng, t, D, value):
    from . import enumth as EN
    ver = eng.store_of(D)
    return EN.VALUE(_fn(eng, value, "value").fid, t, ver.dom, ver.val)


def _valid_at(eng, t, valid):
    from . import enumth as EN
    return EN.VALID(_fn(eng, valid, "valid").fid, t)


@spec
def valuefn(eng, name):
    """the value function of the repository with that name (module qubovert.utils._values)"""
    from . import enumth as EN
    return EN.AbstractFn("value", EN.fid_of("qubovert.utils._values:" + name))


@spec
def validfn_of(eng, o):
    """the bound method o.is_solution_valid"""
    from . import enumth as EN
    k, fd, kind = eng.db.find_method(o.cls, "is_solution_valid")
    if fd is None:
        raise Unsupported("no is_solution_valid")
    return EN._known_valid(eng, EN.fid_of("%s:%s.is_solution_valid" % (k.module, k.name)), fd)


@spec
def bf_product(eng, spin, n):
    """the set of all tuples of itertools.product(domain, repeat=n)"""
    from . import enumth as EN
    t = _tq(eng)
    return SV(z3.Lambda([t], EN.INS(t, _b(eng, spin), zint(n))), "asgset")


@spec
def bf_none_valid(eng, V, valid):
    V = _asgset(eng, V)
    t = _tq(eng)
    return SV(z3.ForAll([t], z3.Implies(z3.Select(V, t), z3.Not(_valid_at(eng, t, valid)))), "bool")


@spec
def bf_is_min(eng, b, V, D, valid, value):
    """no valid tuple of V has a value below b"""
    V = _asgset(eng, V)
    t = _tq(eng)
    return SV(z3.ForAll([t], z3.Implies(z3.And(z3.Select(V, t), _valid_at(eng, t, valid)),
                                        _value_at(eng, t, D, value) >= zreal(b))), "bool")


@spec
def bf_attains(eng, x, b, V, D, valid, value):
    """x is the assignment of a valid tuple of V with value b"""
    if not (isinstance(x, SV) and x.t == "asg"):
        return False
    V = _asgset(eng, V)
    return SV(z3.And(z3.Select(V, x.e), _valid_at(eng, x.e, valid), _value_at(eng, x.e, D, value) == zreal(b)), "bool")


@spec
def bf_attained(eng, b, V, D, valid, value):
    """some valid tuple of V has value b"""
    V = _asgset(eng, V)
    t = _tq(eng)
    return SV(z3.Exists([t], z3.And(z3.Select(V, t), _valid_at(eng, t, valid), _value_at(eng, t, D, value) == zreal(b))), "bool")


@spec
def bf_nosol(eng, s):
    """s is the empty assignment {}"""
    if isinstance(s, DictVal):
        return is_empty(eng, s)
    if isinstance(s, dict):
        return not s
    return False


@spec
def bf_one_empty(eng, s):
    """s is the list [{}]"""
    return isinstance(s, ListVal) and len(s.items) == 1 and bf_nosol(eng, s.items[0])


@spec
def bf_nolist(eng, s):
    """s is the empty list"""
    return isinstance(s, ListVal) and not s.items


@spec
def bf_list_is(eng, L, b, V, D, valid, value):
    """the python list L holds, exactly once each, the assignments of the valid tuples of V whose value is b"""
    if not (isinstance(L, SV) and L.t == "asglist"):
        return False
    V = _asgset(eng, V)
    t = _tq(eng)
    want = z3.If(z3.And(z3.Select(V, t), _valid_at(eng, t, valid), _value_at(eng, t, D, value) == zreal(b)),
                 z3.IntVal(1), z3.IntVal(0))
    return SV(z3.ForAll([t], z3.Select(L.e, t) == want), "bool")


def _is_minimiser(eng, t, V, D, valid, value):
    u = _tq(eng, "uq")
    return z3.And(z3.Select(V, t), _valid_at(eng, t, valid),
                  z3.ForAll([u], z3.Implies(z3.And(z3.Select(V, u), _valid_at(eng, u, valid)),
                                            _value_at(eng, u, D, value) >= _value_at(eng, t, D, value))))


@spec
def bf_solution_ok(eng, s, V, D, valid, value):
    """s is the assignment of a valid tuple of V of minimal value; {} when no tuple of V is valid"""
    Vv = _asgset(eng, V)
    if isinstance(s, SV) and s.t == "asg":
        return SV(_is_minimiser(eng, s.e, Vv, D, valid, value), "bool")
    ns = bf_nosol(eng, s)
    if ns is False:
        return False
    return SV(z3.And(_b(eng, ns), _b(eng, bf_none_valid(eng, V, valid))), "bool")


@spec
def bf_solutions_ok(eng, L, V, D, valid, value):
    """the python list L holds exactly the minimisers among the valid tuples of V, once each ([] when none is valid)"""
    Vv = _asgset(eng, V)
    if isinstance(L, SV) and L.t == "asglist":
        t = _tq(eng)
        want = z3.If(_is_minimiser(eng, t, Vv, D, valid, value), z3.IntVal(1), z3.IntVal(0))
        return SV(z3.ForAll([t], z3.Select(L.e, t) == want), "bool")
    if isinstance(L, ListVal) and not L.items:
        return bf_none_valid(eng, V, valid)
    return False


@spec
def bf_sols_ok(eng, groups, b, V, D, valid, value):
    """bookkeeping of all_solutions: no value recorded below the current best b, and the list recorded for b holds
    exactly the valid visited tuples of value b, once each; nothing recorded while there is no best"""
    from . import enumth as EN
    if not isinstance(groups, EN.Groups):
        raise Unsupported("solutions table expected")
    eng.nfresh += 1
    r = z3.Real("rq!%d" % eng.nfresh)
    if b is None:
        return SV(z3.ForAll([r], z3.Not(z3.Select(groups.has, r))), "bool")
    bb = zreal(b)
    Vv = _asgset(eng, V)
    t = _tq(eng)
    want = z3.If(z3.And(z3.Select(Vv, t), _valid_at(eng, t, valid), _value_at(eng, t, D, value) == bb),
                 z3.IntVal(1), z3.IntVal(0))
    return SV(z3.And(z3.Select(groups.has, bb),
                     z3.ForAll([r], z3.Implies(z3.Select(groups.has, r), r >= bb)),
                     z3.ForAll([t], z3.Select(z3.Select(groups.cnt, bb), t) == want)), "bool")


@spec
def keylabels(eng, d):
    """the set of labels that occur in the keys of the dict"""
    return SV(FO.keylabels_of(eng, eng.store_of(d)), "lset")


@spec
def bf_n(eng, D):
    """the number of variables the brute-force solver enumerates over: the variable counter of a labelled model,
    otherwise the number of distinct labels in the keys"""
    if isinstance(D, PObj) and "_reverse_mapping" in D.attrs:
        return SV(zint(eng.get_attr_raw(D, "_num_binary_variables")), "int")
    arr = FO.keylabels_of(eng, eng.store_of(D))
    return SV(T.CARD(arr), "int")


@spec
def cons_all(eng, o, key, rel):
    """every constraint recorded under `key` satisfies  value <rel> 0  at the ghost assignment"""
    from . import enumth as EN
    lst = (o.attrs.get("_constraints") or {}).get(key)
    if not isinstance(lst, EN.CList):
        raise Unsupported("recorded constraints of %r are not abstract lists" % (o,))
    eng.nfresh += 1
    eng.quantified = True
    c = z3.Int("cq!%d" % eng.nfresh)
    v = EN.CVAL(c)
    r = {"==": v == 0, "!=": v != 0, "<": v < 0, "<=": v <= 0, ">": v > 0, ">=": v >= 0}[rel]
    return SV(z3.ForAll([c], z3.Implies(z3.Select(lst.cnt, c) > 0, r)), "bool")


# ------------------------------------------------------------------ indexed solutions (C04, vf/qvc/solth.py)
def _sol(eng, s):
    from . import solth as SO
    if not isinstance(s, SO.SolVal):
        raise Unsupported("indexed solution expected")
    return s


@spec
def sol_len(eng, s):
    return SV(_sol(eng, s).n, "int")


@spec
def sol_at(eng, s, i):
    return SV(z3.Select(_sol(eng, s).arr, zint(i)), "real")


@spec
def sol_all_in(eng, s, a, b):
    """every value of the solution is a or b"""
    from . import solth as SO
    s = _sol(eng, s)
    j = SO._iq(eng)
    v = z3.Select(s.arr, j)
    return SV(z3.ForAll([j], z3.Implies(z3.And(j >= 0, j < s.n), z3.Or(v == zreal(a), v == zreal(b)))), "bool")


@spec
def sol_has(eng, s, a):
    """some value of the solution is a"""
    from . import solth as SO
    s = _sol(eng, s)
    j = SO._iq(eng)
    return SV(z3.Exists([j], z3.And(j >= 0, j < s.n, z3.Select(s.arr, j) == zreal(a))), "bool")


@spec
def idx_none(eng, V, s, a):
    """no visited index of the solution holds the value a"""
    from . import solth as SO
    s = _sol(eng, s)
    if not (isinstance(V, SV) and V.t == "idxset"):
        raise Unsupported("index set expected")
    j = SO._iq(eng)
    return SV(z3.ForAll([j], z3.Implies(z3.Select(V.e, j), z3.Select(s.arr, j) != zreal(a))), "bool")


@spec
def forall_idx(eng, n, f):
    """forall i in [0, n). f(i)"""
    from . import solth as SO
    i = SO._iq(eng)
    body = eng.call(f, [SV(i, "int")], {})
    t = eng.tobool(body)
    t = z3.BoolVal(t) if isinstance(t, bool) else t
    return SV(z3.ForAll([i], z3.Implies(z3.And(i >= 0, i < zint(n)), t)), "bool")


@spec
def map_at(eng, d, i):
    """value of an int-keyed dict at i (unspecified when i is not a key)"""
    ver = eng.store_of(d)
    return SV(z3.Select(ver.val, zint(i)), "label" if ver.vsort == T.Label else "int")


@spec
def label_at(eng, d, l):
    """value of a label-keyed dict at l"""
    ver = eng.store_of(d)
    return SV(z3.Select(ver.val, eng.as_label(l)), "real" if ver.vsort == T.Real else "int")


@spec
def has_key(eng, d, k):
    ver = eng.store_of(d)
    kk = zint(k) if ver.ksort == T.Int else eng.as_label(k)
    return SV(z3.Select(ver.dom, kk), "bool")


@spec
def only_images(eng, d, rmap, n):
    """every key of the label-keyed dict d is rmap[i] for some i in [0, n)"""
    from . import solth as SO
    dv, rv = eng.store_of(d), eng.store_of(rmap)
    eng.nfresh += 1
    l = z3.Const("lq!%d" % eng.nfresh, T.Label)
    i = SO._iq(eng)
    return SV(z3.ForAll([l], z3.Implies(z3.Select(dv.dom, l),
                                        z3.Exists([i], z3.And(i >= 0, i < zint(n), z3.Select(rv.val, i) == l)))), "bool")


@spec
def mapinv(eng, o):
    """mapping and reverse mapping of a labelled model are mutually inverse, and the integer labels in use are exactly
    0 .. next_label - 1 (C14; this is what convert_solution and the brute-force solvers rely on).  True for the
    Matrix classes, which have no mapping."""
    from . import solth as SO
    if not (isinstance(o, PObj) and eng.db.is_subclass(o.cls, "BO")):
        return True
    mp = eng.store_of(eng.get_attr_raw(o, "_mapping"))
    rm = eng.store_of(eng.get_attr_raw(o, "_reverse_mapping"))
    nx = zint(eng.get_attr_raw(o, "_next_label"))
    eng.nfresh += 1
    l = z3.Const("lq!%d" % eng.nfresh, T.Label)
    j = SO._iq(eng)
    ml = z3.Select(mp.val, l)
    rj = z3.Select(rm.val, j)
    return SV(z3.And(
        z3.ForAll([l], z3.Implies(z3.Select(mp.dom, l), z3.And(ml >= 0, ml < nx, z3.Select(rm.dom, ml), z3.Select(rm.val, ml) == l))),
        z3.ForAll([j], z3.Implies(z3.Select(rm.dom, j), z3.And(j >= 0, j < nx, z3.Select(mp.dom, rj), z3.Select(mp.val, rj) == j))),
        z3.ForAll([j], z3.Implies(z3.And(j >= 0, j < nx), z3.Select(rm.dom, j))), nx >= 0), "bool")


# ------------------------------------------------------------------ degree reduction (C01)
@spec
def rlinked(eng, m):
    """the second ghost assignment (on the model's own labels) is the first one (on the integer labels) composed with
    the mapping: a(l) == x(m[l]) on dom(m)"""
    ver = eng.store_of(m)
    if getattr(eng.facts, "a_role", None) == "origin":
        raise Unsupported("second ghost assignment used both for relabelling and as the origin")
    eng.facts.a_role = "relabel"
    eng.facts.enable_ghost("a")
    return SV(T.rlinked(ver.dom, ver.val), "bool")


@spec
def inkey(eng, i, k):
    """the label occurs in the key"""
    eng.facts.enable_sets()
    ke = eng.as_key(k)
    eng.facts.key(ke)
    return SV(z3.Select(eng.facts.memset_of(ke), eng.as_label(i)), "bool")


@spec
def without(eng, k, x, y):
    """the key without the labels x and y (all their occurrences), with: mono(k) == mono(without) * mono(removed part),
    and - lemma L17, boolean idempotence - the removed part's monomial is x's value if x occurs, times y's if y occurs"""
    eng.facts.enable_sets()
    ke = eng.as_key(k)
    xe, ye = eng.as_label(x), eng.as_label(y)
    S = z3.Store(z3.Store(z3.K(T.Label, z3.BoolVal(False)), xe, z3.BoolVal(True)), ye, z3.BoolVal(True))
    fo, fi = eng.facts.split(ke, S)
    ms = eng.facts.memset_of(ke)
    one = z3.RealVal(1)
    for g in eng.facts.ghosts:
        val, _, bmf, _, _ = T.GHOSTS[g]
        both = z3.If(z3.Select(ms, xe), val(xe), one) * z3.If(z3.And(z3.Select(ms, ye), ye != xe), val(ye), one)
        eng.facts.add(bmf(fi) == both)
    eng.facts.used.add("L17-removed-pair")
    return SV(fo, "key")


CONS = z3.Function("consistent_with", z3.ArraySort(T.Key, T.Bool), z3.ArraySort(T.Key, T.Int), T.Bool)


@spec
def cons(eng, R):
    """the ghost assignment is consistent with the reductions recorded in the table R: x[z] == x[p0] * x[p1] for every
    (p0, p1) -> z of R.  The predicate only ever occurs as a hypothesis, so it is an uninterpreted predicate of the
    table's contents together with those of its consequences the proofs use, stated explicitly (no quantifier):
    for a table obtained by writing p -> z into R0: consistency with it gives x[z] == x[p0]*x[p1] and, when p was not
    in R0, consistency with R0; for any table: the equation at every pair the path looked up in a table of reductions."""
    ver = eng.store_of(R)
    if ver.kind == "empty" and ver.vsort != T.Int:
        return True
    if ver.ksort != T.Key or ver.vsort != T.Int:
        raise Unsupported("table of reductions expected (pair -> integer label)")
    return SV(_cons_of(eng, ver), "bool")


def _cons_of(eng, ver):
    if "cons" in ver.cache:
        return ver.cache["cons"]
    c = CONS(ver.dom, ver.val)
    ver.cache["cons"] = c
    if ver.kind == "empty":
        eng.facts.add(c)
    elif ver.kind == "set":
        k, z, par = ver.k, ver.c, ver.parent
        cp = _cons_of(eng, par)
        eng.facts.key(k)
        eng.facts.add(z3.Implies(z3.And(c, z3.Length(k) == 2), T.xval(z) == T.xval(k[0]) * T.xval(k[1])))
        eng.facts.add(z3.Implies(z3.And(c, z3.Not(z3.Select(par.dom, k))), cp))
    reg = getattr(eng, "cons_reg", None)
    if reg is None:
        reg = eng.cons_reg = {"vers": [], "keys": []}
    reg["vers"].append((ver, c))
    for k in reg["keys"]:
        _cons_inst(eng, ver, c, k)
    return c


def _cons_inst(eng, ver, c, k):
    z = z3.Select(ver.val, k)
    eng.facts.add(z3.Implies(z3.And(c, z3.Select(ver.dom, k), z3.Length(k) == 2),
                             T.xval(z) == T.xval(k[0]) * T.xval(k[1])))


def cons_note_key(eng, k):
    """a pair the path looked up in a table of reductions: instantiate the consistency equation there"""
    reg = getattr(eng, "cons_reg", None)
    if reg is None:
        reg = eng.cons_reg = {"vers": [], "keys": []}
    if any(k.eq(x) for x in reg["keys"]):
        return
    reg["keys"].append(k)
    eng.facts.key(k)
    for ver, c in reg["vers"]:
        _cons_inst(eng, ver, c, k)


@spec
def final(eng, name):
    """the value of a local variable of the function under verification at its return point (ghost access, only in
    the post-conditions of that function - not available at call sites)"""
    loc = getattr(eng, "_final_locals", None)
    if loc is None or name not in loc:
        raise Unsupported("final(%r): no such local at the return point" % (name,))
    return loc[name]


@spec
def vals_in(eng, table, lo, hi):
    """every value of the table (key -> integer label) lies in [lo, hi)"""
    ver = eng.store_of(table)
    if ver.kind == "empty":
        return True
    if ver.vsort != T.Int:
        raise Unsupported("table key -> integer expected")
    return SV(FO.valsin_of(eng, ver, zint(lo), zint(hi)), "bool")


@spec
def maxkey(eng, d, default=-1):
    """max(d, default=default) of an int-keyed dict (the same theory term the code's max() evaluates to)"""
    return SV(FO.maxkey_of(eng, eng.store_of(d), default if isinstance(default, int) else zint(default)), "int")


@spec
def forall_mapped(eng, rmap, f):
    """forall i in the keys of the int-keyed dict rmap. f(i)"""
    from . import solth as SO
    ver = eng.store_of(rmap)
    i = SO._iq(eng)
    body = eng.call(f, [SV(i, "int")], {})
    t = eng.tobool(body)
    t = z3.BoolVal(t) if isinstance(t, bool) else t
    return SV(z3.ForAll([i], z3.Implies(z3.Select(ver.dom, i), t)), "bool")


@spec
def only_images_of(eng, d, rmap):
    """every key of the label-keyed dict d is a value of rmap"""
    from . import solth as SO
    dv, rv = eng.store_of(d), eng.store_of(rmap)
    eng.nfresh += 1
    l = z3.Const("lq!%d" % eng.nfresh, T.Label)
    i = SO._iq(eng)
    return SV(z3.ForAll([l], z3.Implies(z3.Select(dv.dom, l),
                                        z3.Exists([i], z3.And(z3.Select(rv.dom, i), z3.Select(rv.val, i) == l)))), "bool")
