"""Fold ghosts over symbolic dict versions.

A *sum fold* F(d) = sum over (k,v) in d of term(k,v); an *all fold* F(d) = forall (k,v) in d. pred(k,v).
Values are computed lazily along the version chain by the update law (lemma L5 for sums; the obvious
monotonicity facts for conjunctions). Every emitted fact is quantifier-free."""
import z3

from . import theory as T
from .values import Ver, Unsupported, VerifBug


class Fold:
    def __init__(self, name, kind, sort, fn, ksort=None):
        self.name, self.kind, self.sort, self.fn, self.ksort = name, kind, sort, fn, ksort


FOLDS = {}


def deffold(name, kind, sort, fn, ksort=None):
    FOLDS[name] = Fold(name, kind, sort, fn, ksort or T.Key)


def _real(v):
    return z3.ToReal(v) if v.sort() == T.Int else v


def _bterm(eng, k, v):
    # v * bmono(k) with bmono(k) in {0,1} (L2): written as an if-then-else so that the arithmetic stays linear
    m = T.bmono(eng.facts.key(k))
    return z3.If(m == 0, z3.RealVal(0), z3.If(m == 1, _real(v), _real(v) * m))


def _sterm(eng, k, v):
    m = T.smono(eng.facts.key(k))
    return z3.If(m == 1, _real(v), z3.If(m == -1, -_real(v), _real(v) * m))


def _aterm(eng, k, v):
    m = T.amono(eng.facts.key(k))
    return z3.If(m == 0, z3.RealVal(0), z3.If(m == 1, _real(v), _real(v) * m))


def _asterm(eng, k, v):
    m = T.asmono(eng.facts.key(k))
    return z3.If(m == 1, _real(v), z3.If(m == -1, -_real(v), _real(v) * m))


deffold("bden", "sum", T.Real, _bterm)
deffold("sden", "sum", T.Real, _sterm)
deffold("aden", "sum", T.Real, _aterm)        # the same sums at the second ghost assignment
deffold("asden", "sum", T.Real, _asterm)


def pfold_subset(eng, ver, arr):
    """all-fold with a parameter: every key of the dict has all its labels in the set `arr`"""
    eng.facts.enable_sets()
    name = "within@%d" % arr.get_id()
    if name not in FOLDS:
        F = Fold(name, "all", T.Bool,
                 lambda e, k, v, arr=arr: e.facts.set_subset(e.facts.memset_of(k), arr), T.Key)
        F.param = arr
        FOLDS[name] = F
    return fold(eng, ver, name)
deffold("size", "sum", T.Int, lambda eng, k, v: z3.IntVal(1))
deffold("allconst", "all", T.Bool, lambda eng, k, v: z3.Length(k) == 0)
deffold("nozero", "all", T.Bool, lambda eng, k, v: v != 0)
deffold("bcanon", "all", T.Bool, lambda eng, k, v: eng.facts.sq(False, k) == k)
deffold("scanon", "all", T.Bool, lambda eng, k, v: eng.facts.sq(True, k) == k)
deffold("valid_qubo", "all", T.Bool, lambda eng, k, v: z3.Length(eng.facts.sq(False, k)) <= 2)
deffold("valid_quso", "all", T.Bool, lambda eng, k, v: z3.Length(eng.facts.sq(True, k)) <= 2)
deffold("valid_mat", "all", T.Bool, lambda eng, k, v: T.matvalid(eng.facts.key(k)))
deffold("deg2", "all", T.Bool, lambda eng, k, v: z3.Length(k) <= 2)
# sum of |v| over non-constant keys / sum of negative / positive coefficients (extrema closed forms)
deffold("absnc", "sum", T.Real, lambda eng, k, v: z3.If(z3.Length(k) == 0, z3.RealVal(0), z3.If(_real(v) < 0, -_real(v), _real(v))))
deffold("constpart", "sum", T.Real, lambda eng, k, v: z3.If(z3.Length(k) == 0, _real(v), z3.RealVal(0)))


def size_of(eng, ver):
    """len(d), with what emptiness means: a dict without items has no key (python truthiness / len of a dict is
    about its key set), and every fold of it is the fold of the empty dict"""
    r = fold(eng, ver, "size")
    if ver.kind != "empty" and not getattr(ver, "_emptiness", False):
        ver._emptiness = True
        eng.facts.add(z3.Implies(r == 0, ver.dom == z3.K(ver.ksort, z3.BoolVal(False))))
        assert_same(eng, ver, empty(eng, ver.ksort, ver.vsort), r == 0)
        # ... and a dict with items has one (skolem witness, at which the all-folds are instantiated)
        eng.nfresh += 1
        w = z3.Const("some_key_%d!%d" % (ver.n, eng.nfresh), ver.ksort)
        if ver.ksort == T.Key:
            eng.facts.key(w)
        eng.facts.add(z3.Implies(r > 0, z3.Select(ver.dom, w)))
        note_maybe(eng, ver, w, z3.Select(ver.val, w), r > 0)
    return r


def empty(eng, ksort, vsort):
    default = z3.RealVal(0) if vsort == T.Real else (z3.IntVal(0) if vsort == T.Int else None)
    if default is None:
        raise Unsupported("dict value sort")
    return Ver(z3.K(ksort, z3.BoolVal(False)), z3.K(ksort, default), "empty", ksort, vsort)


def base(eng, ksort, vsort, hint="d", subdict_of=None):
    eng.nfresh += 1
    n = eng.nfresh
    dom = z3.Const("%s_dom!%d" % (hint, n), z3.ArraySort(ksort, T.Bool))
    val = z3.Const("%s_val!%d" % (hint, n), z3.ArraySort(ksort, vsort))
    v = Ver(dom, val, "base", ksort, vsort, subdict_of=subdict_of)
    return v


def _zero(vsort):
    return z3.RealVal(0) if vsort == T.Real else z3.IntVal(0)


def setitem(eng, ver, k, c):
    """raw dict.__setitem__"""
    if c.sort() != ver.vsort:
        if ver.vsort == T.Real and c.sort() == T.Int:
            c = z3.ToReal(c)
        else:
            raise Unsupported("dict value sort mismatch")
    return Ver(z3.Store(ver.dom, k, z3.BoolVal(True)), z3.Store(ver.val, k, c), "set", ver.ksort, ver.vsort,
               parent=ver, k=k, c=c)


def popitem(eng, ver, k):
    """raw dict.pop(k, default) effect"""
    return Ver(z3.Store(ver.dom, k, z3.BoolVal(False)), z3.Store(ver.val, k, _zero(ver.vsort)), "pop", ver.ksort,
               ver.vsort, parent=ver, k=k)


def put(eng, ver, k, c):
    """DictArithmetic semantics: store c at k if c != 0 else remove k.  Returned as an if-then-else version."""
    if c.sort() != ver.vsort and ver.vsort == T.Real:
        c = z3.ToReal(c)
    nz = c != 0
    dom = z3.Store(ver.dom, k, nz)
    val = z3.Store(ver.val, k, c)       # c == 0 when removed: keeps val = 0 outside dom
    return Ver(dom, val, "put", ver.ksort, ver.vsort, parent=ver, k=k, c=c)


def lookup(eng, ver, k):
    return z3.Select(ver.val, k)


def note_present(eng, ver, k, v):
    """(k, v) is known to be an item of ver: instantiate every all-fold known on ver"""
    ver.picked.append((k, v))
    maxabs_note(eng, ver.ksort, k)
    for name, val in list(ver.cache.items()):
        if name not in FOLDS:
            continue
        F = FOLDS[name]
        if F.kind == "all":
            eng.facts.add(z3.Implies(val, F.fn(eng, k, v)))
        elif name == "size":
            eng.facts.add(val >= 1)


def note_maybe(eng, ver, k, v, cond):
    """(k, v) is an item of ver whenever cond holds: instantiate every all-fold of ver under that condition"""
    if not hasattr(ver, "maybe"):
        ver.maybe = []
    ver.maybe.append((k, v, cond))
    maxabs_note(eng, ver.ksort, k)
    for name, val in list(ver.cache.items()):
        if name in FOLDS and FOLDS[name].kind == "all":
            eng.facts.add(z3.Implies(z3.And(cond, val), FOLDS[name].fn(eng, k, v)))


def fold(eng, ver, name):
    if name in ver.cache:
        return ver.cache[name]
    F = FOLDS[name]
    if ver.ksort != F.ksort and name != "size":
        raise Unsupported("fold %s on a dict of another key sort" % name)
    kind = ver.kind
    if kind == "empty":
        r = (z3.RealVal(0) if F.sort == T.Real else z3.IntVal(0)) if F.kind == "sum" else z3.BoolVal(True)
    elif kind == "base":
        eng.nfresh += 1
        r = z3.Const("%s_%d!%d" % (name, ver.n, eng.nfresh), F.sort)
        if name == "size":
            eng.facts.add(r >= 0)
            ver.cache[name] = r
            size_of(eng, ver)
        if name == "absnc":
            eng.facts.add(r >= 0)
        if name == "aden" and getattr(eng.facts, "origin", False) and ver.ksort == T.Key:
            # L13-origin: at the origin only the constant term contributes
            ek = T.empty_key()
            eng.facts.add(r == z3.If(z3.Select(ver.dom, ek), _real(z3.Select(ver.val, ek)), z3.RealVal(0)))
        if ver.subdict_of is not None and F.kind == "all":
            eng.facts.add(z3.Implies(fold(eng, ver.subdict_of, name), r))
        if ver.subdict_of is not None and name == "size":
            eng.facts.add(r <= fold(eng, ver.subdict_of, name))
        if F.kind == "all":
            for (k, v) in ver.picked:
                eng.facts.add(z3.Implies(r, F.fn(eng, k, v)))
        if name == "size" and ver.picked:
            eng.facts.add(r >= 1)
    else:
        p = fold(eng, ver.parent, name)
        k = ver.k
        had = z3.Select(ver.parent.dom, k)
        oldv = z3.Select(ver.parent.val, k)
        if kind == "set":
            now, c = z3.BoolVal(True), ver.c
        elif kind == "pop":
            now, c = z3.BoolVal(False), None
        elif kind == "put":
            now, c = ver.c != 0, ver.c
        else:
            raise VerifBug("version kind " + kind)
        if F.kind == "sum":
            zero = z3.RealVal(0) if F.sort == T.Real else z3.IntVal(0)
            r = p - z3.If(had, F.fn(eng, k, oldv), zero)
            if c is not None:
                r = r + z3.If(now, F.fn(eng, k, c), zero)
        else:
            eng.nfresh += 1
            r = z3.Const("%s_%d!%d" % (name, ver.n, eng.nfresh), T.Bool)
            predold = F.fn(eng, k, oldv)
            if c is not None:
                prednew = F.fn(eng, k, c)
                # all other items unchanged:  r <=> rest /\ (now => prednew)   with   p <=> rest /\ (had => predold)
                eng.facts.add(z3.Implies(z3.And(p, z3.Implies(now, prednew)), r))
                eng.facts.add(z3.Implies(z3.And(r, now), prednew))
                eng.facts.add(z3.Implies(z3.And(r, z3.Implies(had, predold)), p))
            else:
                eng.facts.add(z3.Implies(p, r))
                eng.facts.add(z3.Implies(z3.And(r, z3.Implies(had, predold)), p))
    ver.cache[name] = r
    if F.kind == "all":
        for (k, v) in ver.picked:
            eng.facts.add(z3.Implies(r, F.fn(eng, k, v)))
        for (k, v, cond) in getattr(ver, "maybe", ()):
            eng.facts.add(z3.Implies(z3.And(cond, r), F.fn(eng, k, v)))
    if name.startswith("within@"):
        # monotone in the parameter: within(A) and A subset B  ==>  within(B)   (same version)
        arr = F.param
        for other, oval in list(ver.cache.items()):
            if other != name and other.startswith("within@"):
                oarr = FOLDS[other].param
                eng.facts.add(z3.Implies(z3.And(oval, eng.facts.set_subset(oarr, arr)), r))
                eng.facts.add(z3.Implies(z3.And(r, eng.facts.set_subset(arr, oarr)), oval))
    if name.startswith("valseq@") or name == "bden":
        # L12-count: every coefficient equals c  ==>  bden = c * (number of monomials equal to 1), a natural number
        if "bden" in ver.cache or name == "bden":
            bd = r if name == "bden" else ver.cache["bden"]
            for other, oval in ([(name, r)] if name != "bden" else
                                [(o, ov) for o, ov in ver.cache.items() if o.startswith("valseq@")]):
                eng.nfresh += 1
                cnt = z3.Int("count1_%d!%d" % (ver.n, eng.nfresh))
                eng.facts.used.add("L12-count")
                eng.facts.add(z3.Implies(oval, z3.And(cnt >= 0, cnt <= fold(eng, ver, "size") if name != "size" else True,
                                                      bd == z3.RealVal(FOLDS[other].const) * z3.ToReal(cnt))))
    if name.startswith("valsin@"):
        lo, hi = F.param
        for other, oval in list(ver.cache.items()):
            if isinstance(other, str) and other != name and other.startswith("valsin@"):
                lo2, hi2 = FOLDS[other].param
                eng.facts.add(z3.Implies(z3.And(oval, lo <= lo2, hi2 <= hi), r))
                eng.facts.add(z3.Implies(z3.And(r, lo2 <= lo, hi <= hi2), oval))
    if name.startswith("ancbelow@"):
        # monotone in the bound (same version): below n and n <= m  ==>  below m
        n_ = F.param
        for other, oval in list(ver.cache.items()):
            if other != name and other.startswith("ancbelow@"):
                m_ = FOLDS[other].param
                eng.facts.add(z3.Implies(z3.And(oval, m_ <= n_), r))
                eng.facts.add(z3.Implies(z3.And(r, n_ <= m_), oval))
    # congruence: dict versions asserted (conditionally) equal have equal folds
    for (va, vb, cond) in getattr(eng, "store_eqs", ()):
        other = vb if va is ver else (va if vb is ver else None)
        if other is not None:
            eng.facts.add(z3.Implies(cond, r == fold(eng, other, name)))
    return r


def assert_same(eng, va, vb, cond):
    """record that the two versions are equal as dicts whenever cond holds (fold congruence)"""
    if not hasattr(eng, "store_eqs"):
        eng.store_eqs = []
    eng.store_eqs.append((va, vb, cond))
    for name in (set(va.cache) | set(vb.cache)) & set(FOLDS):
        if name.startswith("within@"):
            continue
        eng.facts.add(z3.Implies(cond, fold(eng, va, name) == fold(eng, vb, name)))


def _abs(v):
    v = _real(v)
    return z3.If(v < 0, -v, v)


def maxabs_of(eng, ver):
    """M = max(0, max of |v| over the items of the dict version).  Facts (all quantifier-free): M >= 0; M == 0 for
    an empty dict; a non-empty dict has an item kw with |v| == M (skolem witness); |v| <= M for every item -
    instantiated at the witness keys of every dict version of the path for which the maximum was asked (both
    directions), and at every item the path knows to be present."""
    if "maxabs" in ver.cache:
        return ver.cache["maxabs"]
    eng.nfresh += 1
    M = z3.Real("maxabs_%d!%d" % (ver.n, eng.nfresh))
    kw = z3.Const("maxabs_at_%d!%d" % (ver.n, eng.nfresh), ver.ksort)
    if ver.ksort == T.Key:
        eng.facts.key(kw)
    sz = fold(eng, ver, "size")
    eng.facts.add(M >= 0)
    eng.facts.add(z3.Implies(sz == 0, M == 0))
    eng.facts.add(z3.Implies(sz > 0, z3.And(z3.Select(ver.dom, kw), _abs(z3.Select(ver.val, kw)) == M)))
    ver.cache["maxabs"] = M
    ver.maxabs_at = kw
    reg = _mreg(eng)
    reg["vers"].append((ver, M, sz))
    _mkey(eng, reg, ver.ksort, kw)
    for (k, v) in ver.picked:
        _mkey(eng, reg, ver.ksort, k)
    done = reg.setdefault("done", set())
    for (vr, Mv, szv) in reg["vers"]:
        for (ks, w) in reg["keys"]:
            key = (vr.n, w.get_id())
            if ks != vr.ksort or key in done:
                continue
            done.add(key)
            eng.facts.add(z3.Implies(z3.Select(vr.dom, w), z3.And(szv >= 1, _abs(z3.Select(vr.val, w)) <= Mv)))
    return M


def _mreg(eng):
    reg = getattr(eng, "maxabs_reg", None)
    if reg is None:
        reg = eng.maxabs_reg = {"vers": [], "keys": [], "hooks": []}
    return reg


def _mkey(eng, reg, ksort, k):
    if any(ks == ksort and k.eq(x) for ks, x in reg["keys"]):
        return
    reg["keys"].append((ksort, k))
    for h in list(reg["hooks"]):
        h(ksort, k)


def maxabs_hook(eng, h):
    """h(ksort, key) is called for every witness key of a maximum, present and future (explicit instantiation of
    quantified hypotheses at the keys the proofs about maxima need)"""
    reg = _mreg(eng)
    reg["hooks"].append(h)
    for ks, k in list(reg["keys"]):
        h(ks, k)


def maxabs_note(eng, ksort, k):
    """a key the path is interested in (loop item, quantifier witness): instantiate the bound of every tracked maximum"""
    reg = getattr(eng, "maxabs_reg", None)
    if reg is None:
        return
    _mkey(eng, reg, ksort, k)
    done = reg.setdefault("done", set())
    for (vr, Mv, szv) in reg["vers"]:
        key = (vr.n, k.get_id())
        if ksort != vr.ksort or key in done:
            continue
        done.add(key)
        eng.facts.add(z3.Implies(z3.Select(vr.dom, k), z3.And(szv >= 1, _abs(z3.Select(vr.val, k)) <= Mv)))


def ancbelow_fold(eng, n):
    """parametric all-fold: no key of the dict mentions an ancilla name '__a<j>' with j >= n"""
    eng.facts.enable_anc()
    name = "ancbelow@%d" % n.get_id()
    if name not in FOLDS:
        F = Fold(name, "all", T.Bool, lambda e, k, v, n=n: T.KEYANC(e.facts.key(k)) <= n, T.Key)
        F.param = n
        FOLDS[name] = F
    return name


def valseq_fold(c):
    """all-fold 'every stored coefficient equals the number c'"""
    name = "valseq@%r" % (c,)
    if name not in FOLDS:
        F = Fold(name, "all", T.Bool, lambda e, k, v, c=c: _real(v) == z3.RealVal(c), T.Key)
        F.const = c
        FOLDS[name] = F
    return name


def nth_item(eng, ver, i):
    """(k, v): the i-th item of the dict version in iteration order, on a path where size(ver) > i.
    Facts (lemma L11-enum): the first i+1 items are pairwise distinct members; a dict of exactly n items is the
    dict made of its first n items, so every fold of it is the fold of that explicit chain."""
    nth = getattr(ver, "nth", None)
    if nth is None:
        nth = ver.nth = []
        ver.closed = set()
    while len(nth) <= i:
        eng.nfresh += 1
        k = z3.Const("item%d_of_%d!%d" % (len(nth), ver.n, eng.nfresh), ver.ksort)
        if ver.ksort == T.Key:
            eng.facts.key(k)
        nth.append(k)
    sz = fold(eng, ver, "size")
    eng.facts.used.add("L11-enum")
    for j in range(i + 1):
        eng.facts.add(z3.Implies(sz > j, z3.Select(ver.dom, nth[j])))
        for l in range(j):
            eng.facts.add(z3.Implies(sz > j, nth[j] != nth[l]))
    for n in range(1, i + 2):
        if n in ver.closed:
            continue
        ver.closed.add(n)
        alt = empty(eng, ver.ksort, ver.vsort)
        for j in range(n):
            alt = setitem(eng, alt, nth[j], z3.Select(ver.val, nth[j]))
        cond = sz == n
        eng.facts.add(z3.Implies(cond, ver.dom == alt.dom))
        assert_same(eng, ver, alt, cond)
    k, v = nth[i], z3.Select(ver.val, nth[i])
    if not any(k.eq(pk) for pk, _ in ver.picked):
        note_present(eng, ver, k, v)
    return k, v


KEYLABELS = z3.Function("keylabels", z3.ArraySort(T.Key, T.Bool), z3.ArraySort(T.Label, T.Bool))


def keylabels_of(eng, ver):
    """the set of labels occurring in the keys of the dict version: a function of its key set (so versions with
    equal key sets have equal label sets by congruence); unfolded along `set` steps: labels(d + {k}) = labels(d) u set(k)"""
    if "keylabels" in ver.cache:
        return ver.cache["keylabels"]
    if ver.ksort != T.Key:
        raise Unsupported("labels of the keys of a dict that is not keyed by tuples")
    eng.facts.enable_sets()
    r = KEYLABELS(ver.dom)
    ver.cache["keylabels"] = r
    if ver.kind == "empty":
        eng.facts.add(r == z3.K(T.Label, z3.BoolVal(False)))
    elif ver.kind == "set":
        p = keylabels_of(eng, ver.parent)
        eng.facts.add(r == eng.facts.set_union(p, eng.facts.memset_of(eng.facts.key(ver.k))))
    elif ver.kind in ("pop", "put"):
        keylabels_of(eng, ver.parent)
    # the labels of an item's key are among the labels of the keys (at the witness keys)
    wit_hook(eng, "khooks", lambda k, ver=ver, r=r: eng.facts.add(
        z3.Implies(z3.Select(ver.dom, k), eng.facts.set_subset(eng.facts.memset_of(k), r))))
    return r


# ------------------------------------------------------------------ extremal folds for the temperature range (C15)
# Quantified facts ("every item ...", "every variable ...") are instantiated at *witness* keys / labels: the skolem
# witnesses of the extrema themselves, items the path knows to be present, and the first label of each witness key.
ABSWITH = z3.Function("abswith", z3.ArraySort(T.Key, T.Bool), z3.ArraySort(T.Key, T.Real), T.Label, T.Real)


def _wreg(eng):
    reg = getattr(eng, "wit_reg", None)
    if reg is None:
        reg = eng.wit_reg = {"keys": [], "labels": [], "khooks": [], "lhooks": [], "klhooks": []}
    return reg


def wit_key(eng, k):
    """register a witness key (sort Key) and its first label"""
    reg = _wreg(eng)
    if any(k.eq(x) for x in reg["keys"]):
        return
    reg["keys"].append(k)
    eng.facts.key(k)
    eng.facts.enable_sets()
    head = k[0]
    ms = eng.facts.memset_of(k)
    eng.facts.add(z3.Implies(z3.Length(k) > 0, z3.And(T.memb(head, k), z3.Select(ms, head))))
    for h in reg["khooks"]:
        h(k)
    for l in reg["labels"]:
        for h in reg["klhooks"]:
            h(k, l)
    wit_label(eng, head)


def wit_label(eng, l):
    reg = _wreg(eng)
    if any(l.eq(x) for x in reg["labels"]):
        return
    reg["labels"].append(l)
    for h in reg["lhooks"]:
        h(l)
    for k in reg["keys"]:
        for h in reg["klhooks"]:
            h(k, l)


def wit_hook(eng, kind, h):
    reg = _wreg(eng)
    reg[kind].append(h)
    if kind == "khooks":
        for k in list(reg["keys"]):
            h(k)
    elif kind == "lhooks":
        for l in list(reg["labels"]):
            h(l)
    else:
        for k in list(reg["keys"]):
            for l in list(reg["labels"]):
                h(k, l)


def _known_keys(eng, ver):
    for (k, v) in ver.picked:
        wit_key(eng, k)
    for (k, v, c) in getattr(ver, "maybe", ()):
        wit_key(eng, k)


def nonconst_witness(eng, ver):
    """a dict with a non-constant key has one: skolem witness for the failure of allconst"""
    if getattr(ver, "_ncw", None) is not None:
        return ver._ncw
    eng.nfresh += 1
    w = z3.Const("nonconst_key_%d!%d" % (ver.n, eng.nfresh), T.Key)
    ver._ncw = w
    ac = fold(eng, ver, "allconst")
    eng.facts.add(z3.Implies(z3.Not(ac), z3.And(z3.Select(ver.dom, w), z3.Length(w) > 0)))
    wit_key(eng, w)
    _known_keys(eng, ver)
    # every registered key that is a non-constant item refutes allconst
    wit_hook(eng, "khooks", lambda k, ver=ver, ac=ac: eng.facts.add(
        z3.Implies(z3.And(z3.Select(ver.dom, k), z3.Length(k) > 0), z3.Not(ac))))
    return w


def minabs_nc_of(eng, ver):
    """m = min of |v| over the items with a non-empty key (meaningful when there is one): m >= 0, attained by a
    non-constant item when there is one, a lower bound of |v| for every non-constant item (at the witness keys)"""
    if "minabsnc" in ver.cache:
        return ver.cache["minabsnc"]
    eng.nfresh += 1
    m = z3.Real("minabsnc_%d!%d" % (ver.n, eng.nfresh))
    kw = z3.Const("minabsnc_at_%d!%d" % (ver.n, eng.nfresh), T.Key)
    ver.cache["minabsnc"] = m
    ac = fold(eng, ver, "allconst")
    eng.facts.add(m >= 0)
    eng.facts.add(z3.Implies(z3.Not(ac), z3.And(z3.Select(ver.dom, kw), z3.Length(kw) > 0,
                                                _abs(z3.Select(ver.val, kw)) == m)))
    wit_key(eng, kw)
    note_maybe(eng, ver, kw, z3.Select(ver.val, kw), z3.Not(ac))       # the all-folds of the dict hold for the witness
    nonconst_witness(eng, ver)
    wit_hook(eng, "khooks", lambda k, ver=ver, m=m: eng.facts.add(
        z3.Implies(z3.And(z3.Select(ver.dom, k), z3.Length(k) > 0), _abs(z3.Select(ver.val, k)) >= m)))
    return m


def absw_max_of(eng, ver, mem, card):
    """M = max over the labels v of the set (mem, card) of  abswith(v) = sum of |c| over the items whose key contains
    v.  abswith(v) >= 0; abswith(v) >= |c| for every item whose key contains v (at witness key/label pairs);
    M >= abswith(v) for every v of the set (at witness labels); attained by a member when the set is not empty."""
    tag = ("abswmax", mem.get_id())
    if tag in ver.cache:
        return ver.cache[tag]
    eng.nfresh += 1
    M = z3.Real("abswmax_%d!%d" % (ver.n, eng.nfresh))
    vw = z3.Const("abswmax_at_%d!%d" % (ver.n, eng.nfresh), T.Label)
    ver.cache[tag] = M
    aw = lambda l: ABSWITH(ver.dom, ver.val, l)
    eng.facts.add(z3.Implies(card > 0, z3.And(z3.Select(mem, vw), aw(vw) == M)))
    wit_label(eng, vw)
    wit_hook(eng, "lhooks", lambda l: eng.facts.add(z3.And(aw(l) >= 0, z3.Implies(z3.Select(mem, l), aw(l) <= M))))
    wit_hook(eng, "klhooks", lambda k, l: eng.facts.add(
        z3.Implies(z3.And(z3.Select(ver.dom, k), T.memb(l, k)), aw(l) >= _abs(z3.Select(ver.val, k)))))
    _known_keys(eng, ver)
    return M


def within_at_witnesses(eng, ver, arr, cond):
    """under cond every key of ver has its labels in arr: instantiated at the witness keys (first label)"""
    wit_hook(eng, "khooks", lambda k: eng.facts.add(
        z3.Implies(z3.And(cond, z3.Select(ver.dom, k), z3.Length(k) > 0), z3.Select(arr, k[0]))))


def valsin_fold(eng, lo, hi):
    """parametric all-fold on a table key -> integer: every stored value v satisfies lo <= v < hi"""
    name = "valsin@%d,%d" % (lo.get_id(), hi.get_id())
    if name not in FOLDS:
        F = Fold(name, "all", T.Bool, lambda e, k, v, lo=lo, hi=hi: z3.And(lo <= v, v < hi), T.Key)
        F.param = (lo, hi)
        FOLDS[name] = F
    return name


def valsin_of(eng, ver, lo, hi):
    name = valsin_fold(eng, lo, hi)
    r = fold(eng, ver, name)
    # monotone in the bounds (same version): [lo, hi) inside [lo', hi')
    for other, oval in list(ver.cache.items()):
        if isinstance(other, str) and other != name and other.startswith("valsin@"):
            lo2, hi2 = FOLDS[other].param
            eng.facts.add(z3.Implies(z3.And(oval, lo <= lo2, hi2 <= hi), r))
            eng.facts.add(z3.Implies(z3.And(r, lo2 <= lo, hi <= hi2), oval))
    return r


def maxkey_of(eng, ver, default):
    """max(d, default=default) for an int-keyed dict: the default for an empty dict, otherwise a key that is >= every
    key (bound instantiated at the integer keys the path looks up; callers of the contracts compare the same term)"""
    tag = ("maxkey", default if isinstance(default, int) else default.get_id())
    if tag in ver.cache:
        return ver.cache[tag]
    if ver.ksort != T.Int:
        raise Unsupported("max of the keys of a dict that is not int-keyed")
    eng.nfresh += 1
    m = z3.Int("maxkey_%d!%d" % (ver.n, eng.nfresh))
    sz = size_of(eng, ver)
    d = z3.IntVal(default) if isinstance(default, int) else default
    eng.facts.add(z3.Implies(sz == 0, m == d))
    eng.facts.add(z3.Implies(sz > 0, z3.Select(ver.dom, m)))
    ver.cache[tag] = m
    for (k, v) in ver.picked:
        eng.facts.add(z3.Implies(z3.Select(ver.dom, k), k <= m))
    return m
