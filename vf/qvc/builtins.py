"""Built-in semantics table of qvc (trusted; differential-tested against CPython by tools/difftest).

Only the behaviours the anchored functions rely on are specified; anything else raises Unsupported."""
import ast
import fractions

import z3

from . import theory as T
from . import folds as FO
from . import lists as LS
from . import enumth as EN
from . import solth as SO
from .values import (SV, Ver, DictVal, SetVal, ListVal, PObj, ItemsView, Assoc, AssignVal, Closure, BoundMethod, ClassRef,
                     BuiltinClass, Builtin, ModuleRef, SuperRef, SeqIter, Unsupported, PathInfeasible, VerifBug,
                     PyExc, is_num, zreal, zint, is_intlike)


def call_builtin(eng, fn, args, kwargs, fr):
    name = fn.name
    if name.startswith("spec."):
        from . import specfuncs as SF
        return SF.SPEC_FUNCS[name[5:]](eng, *args, **kwargs)
    if name.startswith("m."):
        return call_method_builtin(eng, fn.recv, name[2:], args, kwargs, fr)
    if name.startswith("dict.") or name.startswith("list.") or name.startswith("object."):
        recv = fn.recv
        if recv is None and args:          # unbound form: dict.clear(obj)
            recv, args = args[0], list(args[1:])
        return call_base_method(eng, recv, name.split(".", 1)[0], name.split(".", 1)[1], args, kwargs, fr)
    h = globals().get("bi_" + name.replace(".", "_"))
    if h is None:
        raise Unsupported("builtin %s" % name)
    return h(eng, args, kwargs, fr)


# ----------------------------------------------------------------------------------------------- plain builtins
def bi_len(eng, args, kwargs, fr):
    (v,) = args
    if isinstance(v, (tuple, list, str, dict, frozenset)):
        return len(v)
    if isinstance(v, ListVal):
        return len(v.items)
    if isinstance(v, SV) and v.t == "key":
        return SV(z3.Length(v.e), "int")
    if isinstance(v, PObj) and getattr(v, "lstore", None) is not None:
        return SV(eng.lver_of(v).length, "int")
    if isinstance(v, (DictVal, PObj)):
        return SV(FO.fold(eng, eng.store_of(v), "size"), "int")
    if isinstance(v, SetVal):
        return SV(v.card, "int")
    if isinstance(v, SeqIter) and v.kind == "setofkey":
        # number of distinct members == length of the sorted duplicate-free key
        return SV(z3.Length(eng.facts.sq(False, v.data.e)), "int")
    if isinstance(v, SeqIter) and v.kind == "setfiltered":
        mode, key = v.data
        return SV(z3.Length(eng.facts.sq(mode == "odd", key.e)), "int")
    raise Unsupported("len of %s" % type(v).__name__)


def class_name_of(eng, v):
    """python-level type name of a value, when it is statically known"""
    if isinstance(v, PObj):
        return v.cls.name
    if isinstance(v, DictVal):
        return v.pyclass
    if isinstance(v, bool):
        return "bool"
    if isinstance(v, int):
        return "int"
    if isinstance(v, (float, fractions.Fraction)):
        return "float"
    if isinstance(v, str):
        return "str"
    if isinstance(v, tuple) or (isinstance(v, SV) and v.t == "key"):
        return "tuple"
    if isinstance(v, (ListVal, list)):
        return "list"
    if isinstance(v, dict):
        return "dict"
    if isinstance(v, AssignVal):
        return v.container
    if isinstance(v, SO.SolVal):
        if v.view is not None:
            raise Unsupported("type of a dict view")
        return v.container
    if isinstance(v, LS.ResIter):
        return "list"
    if isinstance(v, SV) and v.t == "rid":
        return "AnnealResult"
    if isinstance(v, SV) and v.t == "int":
        return "int"
    if isinstance(v, SV) and v.t == "bool":
        return "bool"
    if isinstance(v, SV) and v.t == "real":
        return "number"          # int or float: isinstance(_, (int, float)) is true, exact type unknown
    if isinstance(v, SV) and v.t == "label":
        return "label"
    if v is None:
        return "NoneType"
    if isinstance(v, (SetVal, frozenset)):
        return "set"
    raise Unsupported("type of %s" % type(v).__name__)


def bi_type(eng, args, kwargs, fr):
    (v,) = args
    n = class_name_of(eng, v)
    if n in eng.db.classes:
        return ClassRef(eng.db.classes[n])
    if n in ("number", "label"):
        raise Unsupported("type() of a symbolic scalar")
    return BuiltinClass(n)


def _isinst(eng, v, c):
    if isinstance(c, tuple):
        rs = [_isinst(eng, v, x) for x in c]
        return any(rs)
    n = class_name_of(eng, v)
    if isinstance(c, Builtin) and c.name in eng.BUILTIN_CLASSES:
        c = BuiltinClass(c.name)
    if isinstance(c, ClassRef):
        if n in eng.db.classes:
            return eng.db.is_subclass(eng.db.classes[n], c.cls.name)
        return False
    if isinstance(c, BuiltinClass):
        if n in eng.db.classes:
            return eng.db.is_subclass(eng.db.classes[n], c.name)
        if n == "number":
            if c.name in ("int", "float"):
                raise Unsupported("isinstance(symbolic number, %s)" % c.name)
            return False
        if n == "label":
            if c.name in ("tuple", "dict", "list"):
                return False
            raise Unsupported("isinstance(label, %s)" % c.name)
        if n == "bool" and c.name == "int":
            return True
        return n == c.name
    raise Unsupported("isinstance with %r" % (c,))


def bi_isinstance(eng, args, kwargs, fr):
    v, c = args
    if isinstance(v, SV) and v.t == "slice":
        return getattr(c, "name", None) == "slice"
    if getattr(c, "name", None) == "slice":
        return False
    if isinstance(v, SV) and v.t == "real" and isinstance(c, tuple) and \
       {getattr(x, "name", None) for x in c} >= {"int", "float"}:
        return True
    return _isinst(eng, v, c)


def bi_defaultdict(eng, args, kwargs, fr):
    """collections.defaultdict(int): used for heuristic counters only (values/OpaqueTable)"""
    from .values import OpaqueTable
    if len(args) == 1 and isinstance(args[0], (Builtin, BuiltinClass)) and args[0].name == "int" and not kwargs:
        return eng.alloc(OpaqueTable("defaultdict(int)"))
    raise Unsupported("defaultdict of something else than int")


def bi_callable(eng, args, kwargs, fr):
    return isinstance(args[0], (Closure, BoundMethod, Builtin, ClassRef, BuiltinClass))


def bi_abs(eng, args, kwargs, fr):
    (v,) = args
    if is_num(v):
        return abs(v)
    if is_intlike(v):
        e = zint(v)
        return SV(z3.If(e < 0, -e, e), "int")
    e = zreal(v)
    return SV(z3.If(e < 0, -e, e), "real")


def bi_float(eng, args, kwargs, fr):
    (v,) = args
    eng.taint_use("float() of the symbolic weight", v)
    if is_num(v):
        return fractions.Fraction(v)
    if isinstance(v, str):
        if v in ("inf", "-inf"):
            return float(v)
        raise Unsupported("float(str)")
    return SV(zreal(v), "real")


def bi_int(eng, args, kwargs, fr):
    (v,) = args
    eng.taint_use("int() of the symbolic weight", v)
    if isinstance(v, (int, bool)):
        return int(v)
    if isinstance(v, SV) and v.t in ("int", "bool"):
        return SV(zint(v), "int")
    if isinstance(v, fractions.Fraction) and v.denominator == 1:
        return int(v)
    raise Unsupported("int() of non-integer")


def bi_bool(eng, args, kwargs, fr):
    t = eng.tobool(args[0])
    return t if isinstance(t, bool) else SV(t, "bool")


def bi_range(eng, args, kwargs, fr):
    if all(isinstance(a, int) for a in args):
        return range(*args)
    return SeqIter("range", tuple(args))


def bi_enumerate(eng, args, kwargs, fr):
    if isinstance(args[0], SetVal) and len(args) == 1:
        return SeqIter("enumset", args[0])
    if len(args) == 1 and isinstance(args[0], SeqIter) and args[0].kind == "genexp":
        # enumerate(d[k] for k in sorted(d)) over an int -> label dict: the values in the order of their keys
        n, gfr = args[0].data
        if len(n.generators) == 1 and not n.generators[0].ifs and isinstance(n.generators[0].target, ast.Name):
            src = eng.eval(n.generators[0].iter, gfr)
            if isinstance(src, SeqIter) and src.kind == "sortedintkeys" and isinstance(n.elt, ast.Subscript) and \
                    isinstance(n.elt.slice, ast.Name) and n.elt.slice.id == n.generators[0].target.id and \
                    eng.eval(n.elt.value, gfr) is src.data:
                return SeqIter("enumvalues", src.data)
    if isinstance(args[0], SV) and args[0].t == "key" and len(args) == 1:
        return SeqIter("enumkey", args[0])
    c = eng.concrete_iter(args[0])
    if c is None:
        raise Unsupported("enumerate over symbolic sequence")
    return tuple(enumerate(c))


def bi_itertools_product(eng, args, kwargs, fr):
    """itertools.product(domain, repeat=N) with domain (0, 1) or (1, -1): every tuple of domain^N exactly once
    (trusted specification; vf/qvc/enumth.py)"""
    if len(args) != 1 or set(kwargs) != {"repeat"}:
        raise Unsupported("itertools.product call shape")
    dom = args[0]
    if dom == (1, -1):
        spin = True
    elif dom == (0, 1):
        spin = False
    else:
        raise Unsupported("itertools.product over %r" % (dom,))
    return EN.Product(spin, zint(kwargs["repeat"]))


def bi_tuple(eng, args, kwargs, fr):
    if not args:
        return ()
    (v,) = args
    if isinstance(v, tuple):
        return v
    if isinstance(v, SV) and v.t == "key":
        return v
    if isinstance(v, ItemsView):
        return ItemsView(v.ver, v.mode, v.owner, snapshot=True)
    if isinstance(v, DictVal) or (isinstance(v, PObj) and v.store is not None):
        holder = v.store if isinstance(v, PObj) else v          # tuple(d): a snapshot of the keys
        return ItemsView(eng.store_of(holder), "keys", holder, snapshot=True)
    c = eng.concrete_iter(v)
    if c is not None:
        return tuple(c)
    if isinstance(v, SeqIter) and v.kind in ("sortedset",):
        return v.data
    if isinstance(v, SeqIter) and v.kind == "genexp":
        r = relabel_genexp(eng, v)
        if r is not None:
            return r
        r = _mapped_solution(eng, v, "tuple")
        if r is not None:
            return r
        return materialize_genexp(eng, v, "tuple")
    if isinstance(v, SeqIter) and v.kind == "sortedkey":
        return v.data
    if isinstance(v, SeqIter) and v.kind == "filtered":
        part = filtered_key(eng, v)
        if part is not None:
            return part[0]
    raise Unsupported("tuple(%s)" % type(v).__name__)


def recognize_member_pred(eng, f):
    """f(i) is `i in S` or `i not in S` for a set / dict S that does not depend on i  ->  (S as array, inside?)"""
    i = eng.fresh("label", "m")
    eng.spec += 1
    try:
        phi = _to_z3bool(eng.tobool(eng.call(f, [i], {})))
    finally:
        eng.spec -= 1
    phi = z3.simplify(phi)
    inside = True
    if z3.is_not(phi):
        phi, inside = phi.arg(0), False
    if z3.is_select(phi) and phi.arg(1).eq(i.e):
        return phi.arg(0), inside
    return None


def filtered_key(eng, it):
    """filter(pred, key) over a symbolic key with a membership predicate -> (the kept subsequence as key SV, S, inside)"""
    f, seq = it.data
    if not (isinstance(seq, SV) and seq.t == "key"):
        return None
    rec = recognize_member_pred(eng, f)
    if rec is None:
        return None
    S, inside = rec
    fo, fi = eng.facts.split(seq.e, S)
    return SV(fi if inside else fo, "key"), S, inside


def relabel_genexp(eng, gen):
    """(mapping[i] for i in key) over a symbolic key and a label->int dict: the relabelled key; KeyError when a
    label of the key is not mapped"""
    n, fr = gen.data
    if len(n.generators) != 1 or n.generators[0].ifs or not isinstance(n.generators[0].target, ast.Name):
        return None
    g = n.generators[0]
    src = eng.eval(g.iter, fr)
    if not (isinstance(src, SV) and src.t == "key"):
        return None
    if not (isinstance(n.elt, ast.Subscript) and isinstance(n.elt.slice, ast.Name) and n.elt.slice.id == g.target.id):
        return None
    m = eng.eval(n.elt.value, fr)
    if not isinstance(m, DictVal) or m.ver.ksort != T.Label:
        return None
    ver = eng.store_of(m)
    r, ok = eng.facts.relabel(src.e, ver.dom, ver.val)
    if not eng.branch(ok):
        raise PyExc("KeyError", "label not in mapping")
    return SV(r, "key")


def _mapped_solution(eng, gen, container):
    """(convert[i] for i in z) over an indexed solution z: the solution with the mapped values"""
    n, fr = gen.data
    if len(n.generators) != 1 or n.generators[0].ifs or not isinstance(n.generators[0].target, ast.Name):
        return None
    g = n.generators[0]
    src = eng.eval(g.iter, fr)
    if not (isinstance(src, SO.SolVal) and (src.view == "values" or (src.view is None and src.container != "dict"))):
        return None
    tb = SO.table_of(eng, n.elt, g.target.id, fr)
    if tb is None:
        raise Unsupported("comprehension over an indexed solution: element is not a table lookup")
    return SO.mapped(eng, src, tb[0], tb[1], container)


def bi_list(eng, args, kwargs, fr):
    if not args:
        return eng.alloc(ListVal([]))
    (v,) = args
    if isinstance(v, SeqIter) and v.kind == "genexp":
        r = _mapped_solution(eng, v, "list")
        if r is not None:
            return r
    c = eng.concrete_iter(v)
    if c is not None:
        return eng.alloc(ListVal(c))
    if isinstance(v, SeqIter) and v.kind == "genexp":
        return materialize_genexp(eng, v, "list")
    raise Unsupported("list(%s)" % type(v).__name__)


def bi_dict(eng, args, kwargs, fr):
    if not args and not kwargs:
        return eng.alloc(DictVal(FO.empty(eng, T.Key, T.Real)))
    if len(args) == 1 and not kwargs and isinstance(args[0], (DictVal, PObj)):
        ver = eng.store_of(args[0])
        return eng.alloc(DictVal(ver))
    if len(args) == 1 and not kwargs and isinstance(args[0], SeqIter) and args[0].kind == "enumvalues":
        # dict(enumerate(d[k] for k in sorted(d))): positions 0 .. len(d)-1 -> the values of d in key order
        return eng.alloc(DictVal(FO.base(eng, T.Int, T.Label, "byposition")))
    if len(args) == 1 and not kwargs and isinstance(args[0], SeqIter) and args[0].kind == "enumset":
        # dict(enumerate(S)): some bijection between range(len(S)) and S (the order of a set is not specified)
        return eng.alloc(DictVal(FO.base(eng, T.Int, T.Label, "enum")))
    raise Unsupported("dict(...) call shape")


def bi_set(eng, args, kwargs, fr):
    if not args:
        return eng.alloc(SetVal(z3.K(T.Label, z3.BoolVal(False)), z3.IntVal(0)))
    (v,) = args
    if isinstance(v, SV) and v.t == "key":
        return SeqIter("setofkey", v)
    if isinstance(v, tuple):
        return SeqIter("setofkey", SV(eng.as_key(v), "key"))
    if isinstance(v, ItemsView) and v.mode == "values":
        c = eng.concrete_iter(v)
        if c is not None:
            return frozenset(c)
        raise Unsupported("set of the values of a dict of unknown size")
    if isinstance(v, SeqIter) and v.kind == "genexp":
        r = _labels_of_keys(eng, v)
        if r is not None:
            return r
        mode, key = recognize_member_filter(eng, v)
        return SeqIter("setfiltered", (mode, key))
    raise Unsupported("set(%s)" % type(v).__name__)


def _labels_of_keys(eng, gen):
    """set(v for k in d for v in k): the labels that occur in the keys of the dict"""
    n, fr = gen.data
    if len(n.generators) != 2 or any(g.ifs for g in n.generators):
        return None
    g1, g2 = n.generators
    if not (isinstance(g1.target, ast.Name) and isinstance(g2.target, ast.Name) and isinstance(g2.iter, ast.Name)
            and g2.iter.id == g1.target.id and isinstance(n.elt, ast.Name) and n.elt.id == g2.target.id):
        return None
    src = eng.eval(g1.iter, fr)
    if not (isinstance(src, DictVal) or (isinstance(src, PObj) and src.store is not None)):
        return None
    ver = eng.store_of(src)
    if ver.ksort != T.Key:
        return None
    mem = FO.keylabels_of(eng, ver)
    eng.nfresh += 1
    card = z3.Int("card!%d" % eng.nfresh)
    eng.facts.add(z3.And(card >= 0, card == T.CARD(mem)))
    # a set without members has cardinality 0 and conversely (needed for `not variables`)
    eng.facts.add((card == 0) == (mem == z3.K(T.Label, z3.BoolVal(False))))
    return eng.alloc(SetVal(mem, card))


def bi_sorted(eng, args, kwargs, fr):
    (v,) = args
    if isinstance(v, DictVal) and v.ver.ksort == T.Int and not kwargs:
        return SeqIter("sortedintkeys", v)
    keyf = kwargs.get("key")
    if isinstance(v, SeqIter) and v.kind == "setofkey":
        _check_ordering_key(eng, keyf)
        k = v.data
        return SeqIter("sortedset", SV(eng.facts.sq(False, k.e), "key"))
    if isinstance(v, SeqIter) and v.kind == "genexp":
        r = relabel_genexp(eng, v) if keyf is None else None
        if r is not None:
            return SeqIter("sortedkey", SV(eng.facts.sorted_key(r.e), "key"))     # sorting integers: a permutation
        return sorted_genexp(eng, v, keyf)
    raise Unsupported("sorted(%s)" % type(v).__name__)


def _check_ordering_key(eng, keyf):
    """canonical keys are defined through ordering_key; a different sort key is a different function"""
    if keyf is None:
        raise Unsupported("sorted() without key=ordering_key on labels (would raise TypeError on mixed label types)")
    if not (isinstance(keyf, Closure) and keyf.name == "ordering_key"):
        raise Unsupported("sorted() with an unknown key function")
    # the body of ordering_key must still be  (str(type(x)), x)
    fd = keyf.fdef
    body = [b for b in fd.body if not (isinstance(b, ast.Expr) and isinstance(b.value, ast.Constant))]
    ok = (len(body) == 1 and isinstance(body[0], ast.Return)
          and ast.dump(body[0].value) == ast.dump(ast.parse("(str(type(x)), x)", mode="eval").body))
    if not ok:
        # the repaired form (7aeae84): frozenset labels are ordered by their sorted elements, every other label as before -
        # still "type name first, then a total order within the type", which is what the abstract label order stands for
        want = ast.parse("def ordering_key(x):\n"
                         "    if isinstance(x, frozenset):\n"
                         "        return str(type(x)), tuple(sorted(map(ordering_key, x)))\n"
                         "    return str(type(x)), x\n").body[0].body
        ok = len(body) == len(want) and all(ast.dump(a) == ast.dump(b) for a, b in zip(body, want))
    if not ok:
        raise Unsupported("ordering_key body changed")


def recognize_member_filter(eng, gen):
    """(x for x in set(key) if <pred>)  ->  ('odd'|'all', key SV)  when <pred> is recognised semantically"""
    n, fr = gen.data
    if len(n.generators) != 1:
        raise Unsupported("genexp shape")
    g = n.generators[0]
    src = eng.eval(g.iter, fr)
    if isinstance(src, SeqIter) and src.kind == "setofkey" and isinstance(n.elt, ast.Name) and \
       isinstance(g.target, ast.Name) and n.elt.id == g.target.id:
        key = src.data
        x = eng.fresh("label", "m")
        from .interp import Frame
        sub = Frame(fr.closure, {g.target.id: x}, fr.self_obj, fr.defining_cls)
        conds = []
        eng.spec += 1
        try:
            for c in g.ifs:
                conds.append(_to_z3bool(eng.tobool(_eval_in(eng, c, sub, fr))))
        finally:
            eng.spec -= 1
        phi = z3.And(*conds) if conds else z3.BoolVal(True)
        odd = T.cnt(key.e, x.e) % 2 == 1
        ctx = T.cnt(key.e, x.e) >= 1      # members of set(key) occur at least once
        if not eng.feasible(z3.And(ctx, phi != odd)):
            return "odd", key
        if not eng.feasible(z3.And(ctx, z3.Not(phi))):
            return "all", key
        raise Unsupported("filter predicate over set(key) not recognised as parity or trivial")
    raise Unsupported("genexp over set(key): shape")


def sorted_genexp(eng, gen, keyf):
    mode, key = recognize_member_filter(eng, gen)
    _check_ordering_key(eng, keyf)
    return SeqIter("sortedset", SV(eng.facts.sq(mode == "odd", key.e), "key"))


def _eval_in(eng, node, sub, parent):
    # evaluate node with sub.locals shadowing parent's scope
    merged = type(sub)(parent.closure, dict(parent.locals), parent.self_obj, parent.defining_cls)
    merged.locals.update(sub.locals)
    return eng.eval(node, merged)


def _to_z3bool(t):
    return z3.BoolVal(t) if isinstance(t, bool) else t


def bi_pow(eng, args, kwargs, fr):
    a, b = args
    if is_num(a) and isinstance(b, int):
        return a ** b
    if a == -1:
        e = zint(b)
        return SV(z3.If(e % 2 == 0, z3.IntVal(1), z3.IntVal(-1)), "int")
    if a == 2 and is_intlike(b):
        return SV(eng.facts.pow2_term(zint(b)), "int")
    return eng.binop(ast.Pow(), a, b)


def bi_max(eng, args, kwargs, fr):
    if len(args) == 1 and set(kwargs) == {"default"} and isinstance(args[0], DictVal) and args[0].ver.ksort == T.Int \
            and (isinstance(kwargs["default"], int) or is_intlike(kwargs["default"])):
        d = kwargs["default"]
        return SV(FO.maxkey_of(eng, eng.store_of(args[0]), d if isinstance(d, int) else zint(d)), "int")
    return _minmax(eng, args, True)


def bi_min(eng, args, kwargs, fr):
    return _minmax(eng, args, False)


def _view_item(eng, gen):
    """single-generator genexp over a view of a symbolic dict: (ver, mode, k, v, frame with the target bound)"""
    n, fr = gen.data
    if len(n.generators) != 1:
        return None
    g = n.generators[0]
    src = eng.eval(g.iter, fr)
    if isinstance(src, DictVal) or (isinstance(src, PObj) and src.store is not None):
        holder = src.store if isinstance(src, PObj) else src
        src = ItemsView(eng.store_of(holder), "keys", owner=holder)
    if not isinstance(src, ItemsView) or eng.concrete_iter(src) is not None:
        return None
    ver = src.ver
    k = eng.fresh("key" if ver.ksort == T.Key else "label", "k")
    vv = z3.Select(ver.val, k.e)
    v = SV(vv, "real" if ver.vsort == T.Real else "int")
    item = {"items": (k, v), "keys": k, "values": v}[src.mode]
    from .interp import Frame
    sub = Frame(fr.closure, dict(fr.locals), fr.self_obj, fr.defining_cls)
    eng.assign(g.target, item, sub)
    return ver, k, v, sub, g, n


def _spec_eval(eng, node, fr):
    eng.spec += 1
    try:
        return eng.eval(node, fr)
    finally:
        eng.spec -= 1


def _is_abs_of(eng, elt, vv):
    return isinstance(elt, SV) and elt.t in ("real", "int") and not eng.feasible(zreal(elt) != FO._abs(vv))


def _extremum_over_view(eng, gen, ismax):
    """max(abs(v) for v in d.values()) (also written over .items()): the largest coefficient magnitude
    (folds.maxabs_of); min(abs(c) for k, c in d.items() if k): the smallest magnitude among the non-constant terms
    (folds.minabs_nc_of); ValueError on an empty sequence.  Element and filter are recognised semantically."""
    it = _view_item(eng, gen)
    if it is None:
        return None
    ver, k, v, sub, g, n = it
    if ver.ksort != T.Key and not ismax:
        return None
    if ismax and not g.ifs:
        if not _is_abs_of(eng, _spec_eval(eng, n.elt, sub), v.e if v.t == "real" else z3.ToReal(v.e)):
            return None
        sz = FO.fold(eng, ver, "size")
        if not eng.branch(sz > 0):
            raise PyExc("ValueError", "max() of an empty dict view")
        M = FO.maxabs_of(eng, ver)
        kw = ver.maxabs_at
        if not any(kw.eq(pk) for pk, _ in ver.picked):
            FO.note_present(eng, ver, kw, z3.Select(ver.val, kw))       # the dict is not empty here: the witness is an item
        return SV(M, "real")
    if not ismax and len(g.ifs) == 1:
        cond = _to_z3bool(eng.tobool(_spec_eval(eng, g.ifs[0], sub)))
        if eng.feasible(cond != (z3.Length(k.e) != 0)):
            return None
        if not _is_abs_of(eng, _spec_eval(eng, n.elt, sub), v.e):
            return None
        ac = FO.fold(eng, ver, "allconst")
        if eng.branch(ac):
            raise PyExc("ValueError", "min() of an empty sequence")
        return SV(FO.minabs_nc_of(eng, ver), "real")
    return None


def _max_of_sums(eng, gen):
    """max(sum(abs(c) for k, c in d.items() if v in k) for v in S) over a symbolic set S of labels:
    folds.absw_max_of; ValueError when S is empty"""
    n, fr = gen.data
    if len(n.generators) != 1 or n.generators[0].ifs or not isinstance(n.generators[0].target, ast.Name):
        return None
    g = n.generators[0]
    S = eng.eval(g.iter, fr)
    if not isinstance(S, SetVal):
        return None
    e = n.elt
    if not (isinstance(e, ast.Call) and isinstance(e.func, ast.Name) and e.func.id == "sum" and len(e.args) == 1
            and isinstance(e.args[0], ast.GeneratorExp) and not e.keywords):
        return None
    from .interp import Frame
    vl = eng.fresh("label", "v")
    outer = Frame(fr.closure, dict(fr.locals), fr.self_obj, fr.defining_cls)
    outer.locals[g.target.id] = vl
    it = _view_item(eng, SeqIter("genexp", (e.args[0], outer)))
    if it is None:
        return None
    ver, k, v, sub, ig, inn = it
    if ver.ksort != T.Key or len(ig.ifs) != 1:
        return None
    cond = _to_z3bool(eng.tobool(_spec_eval(eng, ig.ifs[0], sub)))
    if eng.feasible(cond != T.memb(vl.e, k.e)):
        return None
    if not _is_abs_of(eng, _spec_eval(eng, inn.elt, sub), v.e):
        return None
    if not eng.branch(S.card > 0):
        raise PyExc("ValueError", "max() of an empty sequence")
    return SV(FO.absw_max_of(eng, ver, S.mem, S.card), "real")


def _minmax(eng, args, ismax):
    if len(args) == 1:
        c = eng.concrete_iter(args[0])
        if c is None and isinstance(args[0], SeqIter) and args[0].kind == "genexp":
            r = _extremum_over_view(eng, args[0], ismax)
            if r is None and ismax:
                r = _max_of_sums(eng, args[0])
            if r is not None:
                return r
        if c is None:
            raise Unsupported("max/min over a symbolic collection")
        args = c
        if not args:
            raise PyExc("ValueError", "empty")
    cur = args[0]
    for v in args[1:]:
        if (is_num(cur) or isinstance(cur, float)) and (is_num(v) or isinstance(v, float)):
            cur = max(cur, v) if ismax else min(cur, v)
            continue
        if isinstance(cur, float) and abs(cur) == float("inf"):
            # max(-inf, n) == n
            if (cur < 0) == ismax:
                cur = v
            continue
        if is_intlike(cur) and is_intlike(v):
            a, b = zint(cur), zint(v)
            cur = SV(z3.If(a >= b, a, b) if ismax else z3.If(a <= b, a, b), "int")
        else:
            a, b = zreal(cur), zreal(v)
            cur = SV(z3.If(a >= b, a, b) if ismax else z3.If(a <= b, a, b), "real")
    return cur


def bi_warn(eng, args, kwargs, fr):
    eng.warned.append(args[0] if args else "")
    return None


def bi_opaque(eng, args, kwargs, fr):
    from .values import Opaque
    return Opaque("result of a call on an opaque value")


def bi_warnings_warn(eng, args, kwargs, fr):
    eng.warned.append(args[0] if args else "")
    return None


def bi_sum(eng, args, kwargs, fr):
    v = args[0]
    start = args[1] if len(args) > 1 else 0
    c = eng.concrete_iter(v)
    if c is not None:
        acc = start
        for x in c:
            acc = eng.binop(ast.Add(), acc, x)
        return acc
    if isinstance(v, SeqIter) and v.kind == "genexp":
        return fold_genexp(eng, v, "sum", start)
    raise Unsupported("sum(%s)" % type(v).__name__)


def bi_all(eng, args, kwargs, fr):
    return _allany(eng, args[0], True)


def bi_any(eng, args, kwargs, fr):
    return _allany(eng, args[0], False)


def _allany(eng, v, isall):
    c = eng.concrete_iter(v)
    if c is not None:
        for x in c:
            t = eng.branch(eng.tobool(x)) if not eng.spec else None
            if eng.spec:
                raise Unsupported("all/any in spec over concrete list")
            if isall and not t:
                return False
            if not isall and t:
                return True
        return isall
    if isinstance(v, SeqIter) and v.kind == "mapped":
        f, seq = v.data
        return _allany_members(eng, f, seq, isall)
    if isinstance(v, SeqIter) and v.kind == "genexp":
        return fold_genexp(eng, v, "all" if isall else "any", None)
    raise Unsupported("all/any(%s)" % type(v).__name__)


def _allany_members(eng, f, seq, isall):
    """all(map(f, key)) where f(i) is recognised as 'assignment value of i is non-zero' -> mono(key) != 0 (L2)"""
    if not (isinstance(seq, SV) and seq.t == "key"):
        raise Unsupported("all/any over map on non-key")
    i = eng.fresh("label", "m")
    eng.spec += 1
    try:
        phi = _to_z3bool(eng.tobool(eng.call(f, [i], {})))
    finally:
        eng.spec -= 1
    eng.facts.key(seq.e)
    if isall:
        if not eng.feasible(phi != (T.xval(i.e) != 0)):
            eng.facts.used.add("L2-range")
            return SV(T.bmono(seq.e) != 0, "bool")
        if not eng.feasible(phi != (T.zval(i.e) != 0)):
            return SV(T.smono(seq.e) != 0, "bool")
    raise Unsupported("all/any over key members: predicate not recognised")


def bi_map(eng, args, kwargs, fr):
    f, seq = args
    c = eng.concrete_iter(seq)
    if c is not None:
        return tuple(eng.call(f, [x], {}) for x in c)
    return SeqIter("mapped", (f, seq))


def bi_filter(eng, args, kwargs, fr):
    f, seq = args
    if isinstance(seq, LS.ResIter) or (isinstance(seq, PObj) and getattr(seq, "lstore", None) is not None):
        return LS.ResIter()       # some results drawn from seq (the predicate itself is not modelled)
    c = eng.concrete_iter(seq)
    if c is not None:
        out = []
        for x in c:
            if eng.branch(eng.tobool(eng.call(f, [x], {}))):
                out.append(x)
        return tuple(out)
    return SeqIter("filtered", (f, seq))


def bi_getattr(eng, args, kwargs, fr):
    obj, name = args[0], args[1]
    if not isinstance(name, str):
        raise Unsupported("getattr with computed name")
    try:
        return eng.getattr(obj, name)
    except PyExc:
        if len(args) > 2:
            return args[2]
        raise


def bi_hasattr(eng, args, kwargs, fr):
    obj, name = args
    try:
        eng.getattr(obj, name)
        return True
    except PyExc:
        return False


def bi_str(eng, args, kwargs, fr):
    (v,) = args
    if isinstance(v, (str, int)):
        return str(v)
    raise Unsupported("str() of symbolic value")


LOG = z3.Function("ln", T.Real, T.Real)


def bi_math_log(eng, args, kwargs, fr):
    """math.log(x): an uninterpreted function that is negative on (0, 1), zero at 1, positive above, and monotone
    (instantiated pairwise between the arguments that occur); ValueError for x <= 0"""
    if len(args) != 1:
        raise Unsupported("log with a base")
    x = zreal(args[0])
    if not eng.branch_quiet(x > 0):
        raise PyExc("ValueError", "math domain error")
    r = LOG(x)
    eng.facts.add(z3.And(z3.Implies(x < 1, r < 0), z3.Implies(x == 1, r == 0), z3.Implies(x > 1, r > 0)))
    seen = getattr(eng.facts, "_logs", None)
    if seen is None:
        seen = eng.facts._logs = []
    for y in seen:
        eng.facts.add(z3.And(z3.Implies(x <= y, r <= LOG(y)), z3.Implies(y <= x, LOG(y) <= r)))
    seen.append(x)
    return SV(r, "real")


bi_log = bi_math_log


def bi_ceil(eng, args, kwargs, fr):
    """math.ceil(v): the integer c with c - 1 < v <= c (CPython semantics over the reals; floats are reals here)"""
    (v,) = args
    eng.taint_use("math.ceil() of the symbolic weight", v)
    if isinstance(v, int):
        return v
    if isinstance(v, fractions.Fraction):
        return -((-v.numerator) // v.denominator)
    if isinstance(v, SV) and v.t == "int":
        return v
    if isinstance(v, SV) and v.t == "real":
        c = eng.fresh("int", "ceil")
        eng.facts.add(z3.And(z3.ToReal(c.e) - 1 < v.e, v.e <= z3.ToReal(c.e)))
        return c
    raise Unsupported("ceil of %s" % type(v).__name__)


def bi_int_bit_length(eng, args, kwargs, fr):
    """int.bit_length(n): 0 for n == 0, otherwise the b >= 1 with 2^(b-1) <= |n| < 2^b (CPython documentation)"""
    (v,) = args
    if isinstance(v, int):
        return int.bit_length(v)
    if isinstance(v, SV) and v.t == "int":
        n = zint(v)
        a = z3.If(n < 0, -n, n)
        b = eng.fresh("int", "bitlen")
        lo = eng.facts.pow2_term(b.e - 1)
        hi = eng.facts.pow2_term(b.e)
        eng.facts.add(z3.And(b.e >= 0, (a == 0) == (b.e == 0), z3.Implies(a > 0, z3.And(lo <= a, a < hi))))
        return b
    raise Unsupported("bit_length of %s" % type(v).__name__)


# ----------------------------------------------------------------------------------------------- methods of builtins
def call_method_builtin(eng, recv, name, args, kwargs, fr):
    if isinstance(recv, (DictVal,)) or (isinstance(recv, PObj) and recv.store is not None):
        return dict_method(eng, recv, name, args, kwargs)
    if isinstance(recv, dict):
        if name == "items":
            return tuple(recv.items())
        if name == "keys":
            return tuple(recv.keys())
        if name == "values":
            return tuple(recv.values())
        if name == "get":
            return recv.get(args[0], args[1] if len(args) > 1 else None)
        if name == "copy":
            return dict(recv)
        if name == "pop":
            if eng.frame_writes is not None:
                eng.frame_writes.add(id(recv))
            return recv.pop(*args)
        if name == "setdefault":
            if eng.frame_writes is not None:
                eng.frame_writes.add(id(recv))
            return recv.setdefault(args[0], args[1] if len(args) > 1 else None)
        raise Unsupported("dict method %s on concrete table" % name)
    if isinstance(recv, ListVal):
        if eng.frame_writes is not None and name in ("append", "extend", "insert", "pop", "remove", "clear", "sort"):
            eng.frame_writes.add(id(recv))
        if name == "append":
            recv.items.append(args[0])
            return None
        if name == "extend":
            c = eng.concrete_iter(args[0])
            if c is None:
                raise Unsupported("extend with symbolic")
            recv.items.extend(c)
            return None
        if name == "pop":
            if not recv.items:
                raise PyExc("IndexError")
            return recv.items.pop(*args)
        if name == "copy":
            return eng.alloc(ListVal(recv.items))
        if name == "count":
            tot = 0
            for it in recv.items:
                c = eng.equals(it, args[0])
                tot = eng.binop(ast.Add(), tot, SV(z3.If(c, z3.IntVal(1), z3.IntVal(0)), "int") if not isinstance(c, bool) else int(c))
            return tot
        raise Unsupported("list method %s" % name)
    if isinstance(recv, SV) and recv.t == "key":
        if name == "count":
            i = eng.as_label(args[0])
            return SV(T.cnt(recv.e, i), "int")
        raise Unsupported("tuple method %s" % name)
    if isinstance(recv, tuple):
        if name == "count":
            return ListVal(list(recv)) and call_method_builtin(eng, ListVal(list(recv)), "count", args, kwargs, fr)
        raise Unsupported("tuple method %s" % name)
    if isinstance(recv, AssignVal):
        if name == "values":
            return SeqIter("assignvalues", recv)
        if name == "get":
            return eng.getitem(recv, args[0])
        if name == "items":
            raise Unsupported("items() of an assignment")
    if isinstance(recv, SetVal):
        if name == "add":
            i = eng.as_label(args[0])
            if eng.frame_writes is not None:
                eng.frame_writes.add(id(recv))
            recv.mem, recv.card = eng.facts.card_add(recv.mem, i, recv.card)
            return None
        if name == "copy":
            return eng.alloc(SetVal(recv.mem, recv.card))
        if name == "update" and len(args) == 1 and isinstance(args[0], SeqIter) and args[0].kind == "setofkey":
            # var.update(set(key)): union with the labels of the key; the new cardinality is that of the union
            eng.facts.enable_sets()
            if eng.frame_writes is not None:
                eng.frame_writes.add(id(recv))
            mem = eng.facts.set_union(recv.mem, eng.facts.memset_of(args[0].data.e))
            eng.nfresh += 1
            card = z3.Int("card!%d" % eng.nfresh)
            eng.facts.add(z3.And(card >= recv.card, card == T.CARD(mem)))
            recv.mem, recv.card = mem, card
            return None
    if isinstance(recv, SO.SolVal):
        if recv.container == "dict" and recv.view is None and name in ("values", "items") and not args:
            return SO.SolVal(recv.container, recv.arr, recv.n, view=name)
        raise Unsupported("method %s of an indexed solution" % name)
    if isinstance(recv, str):
        # methods of a concrete string (class names, attribute names): evaluated by CPython
        if name in ("lower", "upper", "replace", "startswith", "endswith", "format", "strip") and \
                all(isinstance(a, (str, int)) for a in args) and not kwargs:
            return getattr(recv, name)(*args)
        raise Unsupported("str.%s on these arguments" % name)
    if isinstance(recv, SV) and recv.t == "cobj":
        if name == "value" and len(args) == 1 and isinstance(args[0], AssignVal) and args[0].kind in ("bool", "spin"):
            return SV(EN.CVAL(recv.e), "real")          # the recorded constraint evaluated at the ghost assignment
        raise Unsupported("method %s of a recorded constraint" % name)
    if isinstance(recv, EN.Groups):
        return EN.groups_method(eng, recv, name, args)
    if isinstance(recv, EN.GroupRef):
        return EN.groupref_method(eng, recv, name, args)
    if isinstance(recv, SeqIter) and recv.kind == "mappedlist" and name == "count":
        # [z[i] for i in k].count(-1)  ->  negcount(k)
        f, seq = recv.data
        if args[0] == -1 and f == "zval":
            eng.facts.key(seq.e)
            nc = T.negcount(seq.e)
            eng.facts.add(nc >= 0)
            eng.facts.add(T.smono(seq.e) == z3.If(nc % 2 == 0, z3.RealVal(1), z3.RealVal(-1)))
            eng.facts.used.add("L2'-negcount")
            return SV(nc, "int")
        raise Unsupported("count on mapped list")
    raise Unsupported("method %s of %s" % (name, type(recv).__name__))


def dict_method(eng, recv, name, args, kwargs):
    holder = recv.store if isinstance(recv, PObj) else recv
    ver = eng.store_of(holder)
    if name in ("items", "keys", "values"):
        return ItemsView(ver, name, owner=holder)
    if name == "get":
        return eng.dict_get(ver, args[0], args[1] if len(args) > 1 else None) if len(args) > 1 else _get_none(eng, ver, args[0])
    if name == "pop":
        if len(args) > 1:
            return eng.raw_pop(holder, args[0], args[1], True)
        return eng.raw_pop(holder, args[0], None, False)
    if name == "copy":
        if isinstance(recv, PObj):
            return eng.call_method(recv, "copy", [], {})
        return eng.alloc(DictVal(ver, pyclass=holder.pyclass))
    if name == "clear":
        eng.write_store(holder, FO.empty(eng, ver.ksort, ver.vsort))
        return None
    if name == "setdefault":
        raise Unsupported("setdefault on symbolic dict")
    raise Unsupported("dict method %s" % name)


def _get_none(eng, ver, k):
    raise Unsupported("dict.get without default on symbolic dict")


def call_base_method(eng, recv, base, name, args, kwargs, fr):
    """super().__xxx__ reaching the builtin base class (dict / list / object)"""
    if base == "object":
        if name == "__init__":
            return None
        raise Unsupported("object.%s" % name)
    if base == "dict":
        if not isinstance(recv, PObj) or recv.store is None:
            raise Unsupported("dict base method on non-dict object")
        holder = recv.store
        if name == "__init__":
            if args or kwargs:
                raise Unsupported("dict.__init__ with arguments")
            return None
        if name == "__setitem__":
            eng.raw_setitem(holder, args[0], args[1])
            return None
        if name == "__getitem__":
            return eng.getitem(holder, args[0])
        if name in ("get", "pop", "clear", "items", "keys", "values"):
            return dict_method(eng, holder, name, args, kwargs)
        if name == "__contains__":
            t = eng.contains(holder, args[0])
            return t if isinstance(t, bool) else SV(t, "bool")
        raise Unsupported("dict.%s" % name)
    if base == "list":
        return list_base_method(eng, recv, name, args, kwargs)
    raise Unsupported("%s.%s" % (base, name))


def _rid_of(eng, v):
    if isinstance(v, SV) and v.t == "rid":
        return v.e
    raise Unsupported("list element is not a result")


def list_base_method(eng, recv, name, args, kwargs):
    """trusted specification of the builtin list methods on the multiset abstraction (vf/qvc/lists.py)"""
    if not isinstance(recv, PObj) or getattr(recv, "lstore", None) is None:
        raise Unsupported("list base method on a non-list object")
    h = recv.lstore
    ver = eng.lver_of(recv)
    if name == "__init__":
        if args or kwargs:
            raise Unsupported("list.__init__ with arguments")
        return None
    if name in ("append", "insert"):
        r = _rid_of(eng, args[-1])
        eng.write_lstore(h, LS.append(eng, ver, r))
        return None
    if name == "clear":
        eng.write_lstore(h, LS.empty(eng))
        return None
    if name == "remove":
        x = _rid_of(eng, args[0])
        e = LS.new_rid(eng, "removed")
        present = z3.And(z3.Select(ver.cnt, e.e) >= 1, LS.req(e.e, x), ver.length >= 1)
        # list.remove raises ValueError when no element equals x
        if not eng.branch(present):
            raise PyExc("ValueError", "list.remove(x): x not in list")
        eng.write_lstore(h, LS.remove_one(eng, ver, e.e))
        return None
    if name == "pop":
        i = args[0] if args else -1
        ok = z3.And(ver.length >= 1, zint(i) < ver.length, zint(i) >= -ver.length)
        if not eng.branch(ok):
            raise PyExc("IndexError", "pop index out of range")
        e = LS.new_rid(eng, "popped")
        eng.assume(z3.Select(ver.cnt, e.e) >= 1)
        eng.write_lstore(h, LS.remove_one(eng, ver, e.e))
        return e
    if name in ("extend", "__iadd__"):
        o = args[0]
        if isinstance(o, PObj) and getattr(o, "lstore", None) is not None:
            eng.write_lstore(h, LS.concat(eng, ver, eng.lver_of(o)))
            return recv if name == "__iadd__" else None
        raise Unsupported("list.extend with a non-list")
    if name in ("__add__", "__mul__"):
        return LS.ResIter()
    if name == "__getitem__":
        i = args[0]
        if isinstance(i, SV) and i.t == "slice":
            return LS.ResIter()
        ok = z3.And(zint(i) < ver.length, zint(i) >= -ver.length)
        if not eng.branch(ok):
            raise PyExc("IndexError", "list index out of range")
        e = LS.new_rid(eng, "item")
        eng.assume(z3.Select(ver.cnt, e.e) >= 1)
        return e
    if name == "__setitem__":
        i, v = args
        if isinstance(i, SV) and i.t == "slice":
            eng.write_lstore(h, LS.base(eng, "sliceassigned"))     # arbitrary new contents
            return None
        ok = z3.And(zint(i) < ver.length, zint(i) >= -ver.length)
        if not eng.branch(ok):
            raise PyExc("IndexError", "list assignment index out of range")
        e = LS.new_rid(eng, "replaced")
        eng.assume(z3.Select(ver.cnt, e.e) >= 1)
        eng.write_lstore(h, LS.append(eng, LS.remove_one(eng, ver, e.e), _rid_of(eng, v)))
        return None
    if name == "__delitem__":
        i = args[0]
        if isinstance(i, SV) and i.t == "slice":
            eng.write_lstore(h, LS.base(eng, "slicedeleted"))
            return None
        ok = z3.And(zint(i) < ver.length, zint(i) >= -ver.length)
        if not eng.branch(ok):
            raise PyExc("IndexError", "list assignment index out of range")
        e = LS.new_rid(eng, "deleted")
        eng.assume(z3.Select(ver.cnt, e.e) >= 1)
        eng.write_lstore(h, LS.remove_one(eng, ver, e.e))
        return None
    if name in ("sort", "reverse"):
        return None           # a permutation: the multiset is unchanged
    raise Unsupported("list.%s" % name)


# ----------------------------------------------------------------------------------------------- comprehensions
def eval_comprehension(eng, n, fr, kind):
    gens = n.generators
    if len(gens) != 1:
        raise Unsupported("comprehension with several for-clauses")
    g = gens[0]
    src = eng.eval(g.iter, fr)
    c = eng.concrete_iter(src)
    from .interp import Frame
    if c is not None:
        out = []
        for item in c:
            sub = Frame(fr.closure, dict(fr.locals), fr.self_obj, fr.defining_cls)
            eng.assign(g.target, item, sub)
            ok = True
            for cond in g.ifs:
                if not eng.branch(eng.tobool(eng.eval(cond, sub))):
                    ok = False
                    break
            if not ok:
                continue
            if kind == "dict":
                out.append((eng.eval(n.key, sub), eng.eval(n.value, sub)))
            else:
                out.append(eng.eval(n.elt, sub))
        if kind == "list":
            return eng.alloc(ListVal(out))
        if kind == "dict":
            if all(isinstance(k, (int, str)) for k, _ in out):
                return dict(out)
            if all(isinstance(k, SV) and k.t in ("real", "int") for k, _ in out):
                return Assoc(out)
            d = eng.alloc(DictVal(FO.empty(eng, T.Key, T.Real)))
            for k, v in out:
                eng.raw_setitem(d, k, v)
            return d
        if all(isinstance(x, (tuple, int, str)) for x in out):
            return frozenset(out)
        raise Unsupported("set comprehension")
    # [z[i] for i in k]  over a symbolic key
    if kind == "list" and isinstance(src, SV) and src.t == "key" and not g.ifs and isinstance(g.target, ast.Name):
        i = eng.fresh("label", "m")
        sub = Frame(fr.closure, dict(fr.locals), fr.self_obj, fr.defining_cls)
        sub.locals[g.target.id] = i
        eng.spec += 1
        try:
            val = eng.eval(n.elt, sub)
        finally:
            eng.spec -= 1
        if isinstance(val, SV) and val.t == "real":
            if not eng.feasible(val.e != T.zval(i.e)):
                return SeqIter("mappedlist", ("zval", src))
            if not eng.feasible(val.e != T.xval(i.e)):
                return SeqIter("mappedlist", ("xval", src))
        raise Unsupported("list comprehension over key: element not recognised")
    if kind == "list" and isinstance(src, SeqIter) and src.kind == "filtered" and not g.ifs and isinstance(g.target, ast.Name):
        part = filtered_key(eng, src)
        if part is not None:
            kpart, S, inside = part
            i = eng.fresh("label", "m")
            sub = Frame(fr.closure, dict(fr.locals), fr.self_obj, fr.defining_cls)
            sub.locals[g.target.id] = i
            eng.spec += 1
            try:
                val = eng.eval(n.elt, sub)
            finally:
                eng.spec -= 1
            rec = _lookup_source(eng, n.elt, g.target.id, sub) or _match_lookup(val, i)
            if rec is not None:
                return SeqIter("vallist", {"key": kpart, "S": S, "inside": inside, "dom": rec[0], "val": rec[1]})
        raise Unsupported("list comprehension over a filtered key: element not recognised")
    comp = eng.comp_spec(fr)
    if comp is not None:
        return comp_by_contract(eng, n, fr, kind, src, comp)
    raise Unsupported("comprehension over symbolic %s" % type(src).__name__)


def _lookup_source(eng, elt, var, fr):
    """elt is `d[var]` or `d.get(var, 0)` with d a label-keyed dict value -> (dom, val) of d"""
    d = None
    if isinstance(elt, ast.Subscript) and isinstance(elt.slice, ast.Name) and elt.slice.id == var:
        d = elt.value
    elif isinstance(elt, ast.Call) and isinstance(elt.func, ast.Attribute) and elt.func.attr == "get" and \
            len(elt.args) == 2 and isinstance(elt.args[0], ast.Name) and elt.args[0].id == var and \
            isinstance(elt.args[1], ast.Constant) and elt.args[1].value == 0:
        d = elt.func.value
    if d is None:
        return None
    try:
        dv = eng.eval(d, fr)
    except Unsupported:
        return None
    if isinstance(dv, DictVal):
        ver = eng.store_of(dv)
        if ver.kind == "empty":
            return z3.K(T.Label, z3.BoolVal(False)), z3.K(T.Label, z3.RealVal(0))
        if ver.ksort == T.Label and ver.vsort == T.Real:
            return ver.dom, ver.val
    return None


def _match_lookup(val, i):
    """val is d[i] or d.get(i, 0) for a label-keyed dict d  ->  (dom array, val array)"""
    if not (isinstance(val, SV) and val.t == "real"):
        if val == 0:
            # lookup in an empty dict literal: d.get(i, 0) == 0
            return z3.K(T.Label, z3.BoolVal(False)), z3.K(T.Label, z3.RealVal(0))
        return None
    e = z3.simplify(val.e)
    if z3.is_select(e) and e.arg(1).eq(i.e):
        return z3.K(T.Label, z3.BoolVal(True)), e.arg(0)       # d[i]: the filter guarantees presence
    if z3.is_app(e) and e.decl().kind() == z3.Z3_OP_ITE:
        c, a, b = e.arg(0), e.arg(1), e.arg(2)
        if z3.is_select(c) and c.arg(1).eq(i.e) and z3.is_select(a) and a.arg(1).eq(i.e) and z3.is_rational_value(b) and b.as_fraction() == 0:
            return c.arg(0), a.arg(0)
    return None


def bi_np_prod(eng, args, kwargs, fr):
    (v,) = args
    if isinstance(v, SeqIter) and v.kind == "vallist":
        d = v.data
        spin = getattr(eng, "value_spin", False)
        p, lk = eng.facts.value_product(d["key"].e, spin, d["inside"], d["S"], d["dom"], d["val"])
        return SV(p, "real")
    c = eng.concrete_iter(v)
    if c is not None:
        acc = 1
        for x in c:
            acc = eng.binop(ast.Mult(), acc, x)
        return acc
    raise Unsupported("np.prod of %s" % type(v).__name__)


bi_prod = bi_np_prod            # math.prod: the same product, exact on Python ints
bi_math_prod = bi_np_prod


def materialize_genexp(eng, gen, kind):
    n, fr = gen.data
    node = ast.ListComp(elt=n.elt, generators=n.generators)
    ast.copy_location(node, n)
    r = eval_comprehension(eng, node, fr, "list")
    if isinstance(r, ListVal):
        return tuple(r.items) if kind == "tuple" else r
    return r


def fold_genexp(eng, gen, how, start):
    """sum/all/any of a generator expression.
    Over a concrete iterable: unrolled. Over dict items: per-item obligation against the fold named in the sidecar
    (contract.comps[ordinal] = {"fold": "bden", "over": "P"})."""
    n, fr = gen.data
    g = n.generators[0]
    if len(n.generators) != 1:
        raise Unsupported("genexp with several for-clauses")
    src = eng.eval(g.iter, fr)
    c = eng.concrete_iter(src)
    from .interp import Frame
    if c is not None:
        vals = []
        for item in c:
            sub = Frame(fr.closure, dict(fr.locals), fr.self_obj, fr.defining_cls)
            eng.assign(g.target, item, sub)
            ok = True
            for cond in g.ifs:
                if not eng.branch(eng.tobool(eng.eval(cond, sub))):
                    ok = False
                    break
            if ok:
                vals.append(eng.eval(n.elt, sub))
        if how == "sum":
            acc = start
            for v in vals:
                acc = eng.binop(ast.Add(), acc, v)
            return acc
        for v in vals:
            t = eng.branch(eng.tobool(v))
            if how == "all" and not t:
                return False
            if how == "any" and t:
                return True
        return how == "all"
    if isinstance(src, EN.CList) and how == "any":
        return EN.any_over_clist(eng, src, n, fr)
    fr.comp_ordinal = eng.static_ordinal(fr, n, ast.GeneratorExp)
    spec = eng.comp_spec(fr, fr.comp_ordinal)
    if isinstance(src, ItemsView) and spec is not None and how == "sum":
        ver = src.ver
        k = eng.fresh("key" if ver.ksort == T.Key else "label", "k")
        vv = z3.Select(ver.val, k.e)
        FO.note_present(eng, ver, k.e, vv)
        v = SV(vv, "real" if ver.vsort == T.Real else "int")
        item = {"items": (k, v), "keys": k, "values": v}[src.mode]
        qn = fr.closure.qualname()
        # the per-item obligation is explored on a side path (it may branch)
        if eng.loop_phase(fr.comp_ordinal, fr) == "step":
            eng.assume(z3.Select(ver.dom, k.e))
            sub = Frame(fr.closure, dict(fr.locals), fr.self_obj, fr.defining_cls)
            eng.assign(g.target, item, sub)
            ok = True
            for cond in g.ifs:
                if not eng.branch(eng.tobool(eng.eval(cond, sub))):
                    ok = False
                    break
            contrib = eng.eval(n.elt, sub) if ok else 0
            F = FO.FOLDS[spec["fold"]]
            eng.oblige("%s/comp%d.item" % (qn, fr.comp_ordinal), zreal(contrib) == F.fn(eng, k.e, vv))
            raise PathInfeasible()
        total = FO.fold(eng, ver, spec["fold"])
        return eng.binop(ast.Add(), start, SV(total, "real"))
    if how == "any" and not g.ifs:
        it = _view_item(eng, gen)
        if it is not None and it[0].ksort == T.Key:
            ver, k, v, sub, _, _ = it
            phi = _to_z3bool(eng.tobool(_spec_eval(eng, n.elt, sub)))
            if not eng.feasible(phi != (z3.Length(k.e) != 0)):
                # any(k for k in d): some key is not the empty tuple
                FO.nonconst_witness(eng, ver)
                return SV(z3.Not(FO.fold(eng, ver, "allconst")), "bool")
    if isinstance(src, ItemsView) and how == "all" and not g.ifs:
        # all(pred(item) for item in d.values()/items()/keys()): recognised when pred is `value == c` for a literal c
        ver = src.ver
        k = eng.fresh("key" if ver.ksort == T.Key else "label", "k")
        vv = z3.Select(ver.val, k.e)
        v = SV(vv, "real" if ver.vsort == T.Real else "int")
        item = {"items": (k, v), "keys": k, "values": v}[src.mode]
        sub = Frame(fr.closure, dict(fr.locals), fr.self_obj, fr.defining_cls)
        eng.assign(g.target, item, sub)
        eng.spec += 1
        try:
            phi = _to_z3bool(eng.tobool(eng.eval(n.elt, sub)))
        finally:
            eng.spec -= 1
        consts = sorted({c.value for c in ast.walk(n.elt) if isinstance(c, ast.Constant) and isinstance(c.value, (int, float))
                         and not isinstance(c.value, bool)})
        for c in consts + [-c for c in consts]:
            if not eng.feasible(phi != (zreal(v) == zreal(c))):
                return SV(FO.fold(eng, ver, FO.valseq_fold(c)), "bool")
        raise Unsupported("all(...) over a dict view: predicate not recognised as `value == constant`")
    raise Unsupported("%s over symbolic generator" % how)


def comp_by_contract(eng, n, fr, kind, src, comp):
    raise Unsupported("comprehension by contract")


def generator_summary(eng, cl, locals_):
    """Trusted summaries of the generator functions that are not verified by body."""
    if cl.name == "_generate_key_value_pairs":
        args, kwargs = locals_.get("args", ()), locals_.get("kwargs", {})
        if not args and not kwargs:
            return ()
        if len(args) == 1 and not kwargs:
            a = args[0]
            if isinstance(a, (DictVal, PObj)):
                holder = a.store if isinstance(a, PObj) else a
                return ItemsView(eng.store_of(holder), "items", owner=holder)
            c = eng.concrete_iter(a)
            if c is not None:
                return tuple(c)
        raise Unsupported("_generate_key_value_pairs call shape")
    raise Unsupported("generator function %s without contract" % cl.name)
