"""Value domain of the symbolic interpreter."""
import fractions
import z3

from . import theory as T


class Unsupported(Exception):
    """construct / shape outside the supported subset: the function leaves reach (never a verdict)"""


class PathInfeasible(Exception):
    pass


class VerifBug(Exception):
    """internal inconsistency of the engine (checker error)"""


class PyExc(Exception):
    """an exception raised by the verified code on this path"""

    def __init__(self, name, msg=""):
        super().__init__(name, msg)
        self.name, self.msg = name, msg


class SV:
    """symbolic scalar: z3 expression + tag in {'real','int','bool','label','key'}"""
    __slots__ = ("e", "t")

    def __init__(self, e, t):
        self.e, self.t = e, t

    def __repr__(self):
        return "SV<%s:%s>" % (self.t, self.e)


def is_num(v):
    return isinstance(v, (int, float, fractions.Fraction)) and not isinstance(v, bool)


def zreal(v):
    """python number or SV(int/real/label?) -> z3 Real expr"""
    if isinstance(v, SV):
        if v.t == "real":
            return v.e
        if v.t == "int":
            return z3.ToReal(v.e)
        if v.t == "bool":
            return z3.If(v.e, z3.RealVal(1), z3.RealVal(0))
        raise Unsupported("number expected, got %s" % v.t)
    if isinstance(v, bool):
        return z3.RealVal(1 if v else 0)
    if isinstance(v, int):
        return z3.RealVal(v)
    if isinstance(v, float):
        if v != v or v in (float("inf"), float("-inf")):
            raise Unsupported("non-finite float")
        fr = fractions.Fraction(v)
        return z3.RealVal(str(fr.numerator)) / z3.RealVal(str(fr.denominator)) if fr.denominator != 1 else z3.RealVal(str(fr.numerator))
    if isinstance(v, fractions.Fraction):
        return z3.Q(v.numerator, v.denominator)
    raise Unsupported("number expected, got %r" % (type(v).__name__,))


def zint(v):
    if isinstance(v, SV):
        if v.t in ("int", "label"):
            return v.e
        if v.t == "bool":
            return z3.If(v.e, z3.IntVal(1), z3.IntVal(0))
        raise Unsupported("int expected, got %s" % v.t)
    if isinstance(v, bool):
        return z3.IntVal(1 if v else 0)
    if isinstance(v, int):
        return z3.IntVal(v)
    raise Unsupported("int expected, got %r" % (v,))


def is_intlike(v):
    return (isinstance(v, SV) and v.t in ("int", "bool")) or isinstance(v, (int, bool))


class NoneType_:
    pass


class Ver:
    """immutable version of a symbolic dict: total maps dom: K->Bool, val: K->V with val = default outside dom"""
    _n = 0

    def __init__(self, dom, val, kind, ksort, vsort, parent=None, k=None, c=None, subdict_of=None):
        self.dom, self.val, self.kind, self.ksort, self.vsort = dom, val, kind, ksort, vsort
        self.parent, self.k, self.c = parent, k, c
        self.subdict_of = subdict_of
        self.cache = {}
        self.picked = []      # [(k, v)] items known to be present
        Ver._n += 1
        self.n = Ver._n

    def __repr__(self):
        return "Ver#%d<%s>" % (self.n, self.kind)


class DictVal:
    """mutable symbolic dict (raw python dict) = holder of a current version"""

    def __init__(self, ver, pyclass="dict"):
        self.ver = ver
        self.pyclass = pyclass

    def __repr__(self):
        return "DictVal(%r)" % (self.ver,)


class SetVal:
    """mutable symbolic set of labels: membership array + cardinality"""

    def __init__(self, mem, card):
        self.mem, self.card = mem, card


class ListVal:
    """python list with concretely known length"""

    def __init__(self, items):
        self.items = list(items)


class PObj:
    """instance of a repository class"""
    _n = 0

    def __init__(self, cls):
        self.cls = cls
        self.attrs = {}
        self.store = None      # DictVal for dict subclasses
        PObj._n += 1
        self.n = PObj._n

    def __repr__(self):
        return "PObj#%d<%s>" % (self.n, self.cls.name)


class ItemsView:
    """iterable over a dict version: mode in {'items','keys','values'}; snapshot=True when made by tuple(...)"""

    def __init__(self, ver, mode, owner=None, snapshot=False):
        self.ver, self.mode, self.owner, self.snapshot = ver, mode, owner, snapshot


class Assoc:
    """a small python dict built from explicitly enumerated items whose keys are symbolic (e.g. {v: k for k, v in
    d.items()} over a dict of known size): list of (key, value) in insertion order"""

    def __init__(self, pairs):
        self.pairs = list(pairs)


class StarKey:
    """marker for a call f(*key) whose only positional arguments are the labels of a symbolic key"""

    def __init__(self, key):
        self.key = key


class AssignVal:
    """the ghost assignment viewed as a python mapping/sequence argument: x[i] -> xval(i) / zval(i) / aval(i)"""

    def __init__(self, kind, container="dict"):
        self.kind = kind      # 'bool' | 'spin' | 'aux'
        self.container = container


class Closure:
    def __init__(self, fdef, env, module, cls=None, name=None):
        self.fdef, self.env, self.module, self.cls = fdef, env, module, cls
        self.name = name or fdef.name

    def __repr__(self):
        return "Closure(%s)" % self.qualname()

    def qualname(self):
        if ".<locals>." in self.name:
            return "%s:%s" % (self.module, self.name)
        return "%s:%s%s" % (self.module, (self.cls.name + ".") if self.cls else "", self.name)


class BoundMethod:
    def __init__(self, recv, func, defining_cls):
        self.recv, self.func, self.defining_cls = recv, func, defining_cls


class ClassRef:
    def __init__(self, cls):
        self.cls = cls

    def __repr__(self):
        return "ClassRef(%s)" % self.cls.name


class BuiltinClass:
    def __init__(self, name):
        self.name = name

    def __repr__(self):
        return "BuiltinClass(%s)" % self.name


class Builtin:
    def __init__(self, name, recv=None):
        self.name, self.recv = name, recv

    def __repr__(self):
        return "Builtin(%s)" % self.name


class ModuleRef:
    def __init__(self, name):
        self.name = name


class SuperRef:
    def __init__(self, obj, after_cls):
        self.obj, self.after_cls = obj, after_cls


class SeqIter:
    """abstract finite sequence of values described by a fold contract (generator results)"""

    def __init__(self, kind, data):
        self.kind, self.data = kind, data


class Opaque:
    """a value about which nothing is known (result of havocking something the engine cannot describe);
    any use raises Unsupported"""

    def __init__(self, why):
        self.why = why

    def __repr__(self):
        return "Opaque(%s)" % self.why


class OpaqueTable:
    """a table whose contents only steer heuristic choices (defaultdict(int) of pair frequencies): reads give an
    arbitrary integer, writes are forgotten.  Sound for every property that does not depend on *which* choice is made."""

    def __init__(self, why):
        self.why = why


class AbstractKeySet:
    """an arbitrary set of keys (e.g. the `pairs` hints of the degree reduction, after re-keying): membership is an
    uninterpreted predicate of the key - whatever the set contains, the proofs that only *branch* on membership hold"""
    _n = 0

    def __init__(self):
        import z3
        from . import theory as T
        AbstractKeySet._n += 1
        self.pred = z3.Function("in_keyset_%d" % AbstractKeySet._n, T.Key, T.Bool)
